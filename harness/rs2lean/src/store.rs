//! record_store.rs → Gen/Store.lean: capacity constants, the clean-up threshold divisor, the comparison
//! operators of the accept/refuse, farthest-update, clean-up and quoting decisions, and whether the
//! shipped antnode (ant-node's default features, through to ant-networking) encrypts record files.
use crate::util::*;
use std::path::PathBuf;
use syn::visit::Visit;

#[derive(Default)]
struct Shapes {
    /// binary expressions as (left, op, right), whitespace-free
    bins: Vec<(String, String, String)>,
    /// range expressions as (start, limits, end)
    ranges: Vec<(String, String, String)>,
}

fn ts<T: quote::ToTokens>(t: &T) -> String {
    t.to_token_stream().to_string().replace(' ', "")
}

impl<'ast> Visit<'ast> for Shapes {
    fn visit_expr_binary(&mut self, b: &'ast syn::ExprBinary) {
        self.bins.push((ts(&b.left), ts(&b.op), ts(&b.right)));
        syn::visit::visit_expr_binary(self, b);
    }
    fn visit_expr_range(&mut self, r: &'ast syn::ExprRange) {
        let lim = match r.limits {
            syn::RangeLimits::HalfOpen(_) => "..",
            syn::RangeLimits::Closed(_) => "..=",
        };
        self.ranges.push((
            r.start.as_ref().map(|e| ts(e)).unwrap_or_default(),
            lim.to_string(),
            r.end.as_ref().map(|e| ts(e)).unwrap_or_default(),
        ));
        syn::visit::visit_expr_range(self, r);
    }
}

/// the `[features]` table of a Cargo.toml as (name, entries)
fn features(path: &std::path::Path) -> Result<Vec<(String, Vec<String>)>, String> {
    let src = std::fs::read_to_string(path).map_err(|e| format!("{}: {e}", path.display()))?;
    let mut in_features = false;
    let mut out = vec![];
    let mut pending: Option<(String, String)> = None;
    for raw in src.lines() {
        let line = raw.split('#').next().unwrap_or("").trim();
        if line.starts_with('[') && pending.is_none() {
            in_features = line == "[features]";
            continue;
        }
        if !in_features || line.is_empty() {
            continue;
        }
        let (name, mut body) = match pending.take() {
            Some((n, b)) => (n, format!("{b} {line}")),
            None => {
                let (n, b) = line.split_once('=').ok_or_else(|| format!("{}: unexpected line in [features]: {line}", path.display()))?;
                (n.trim().trim_matches('"').to_string(), b.trim().to_string())
            }
        };
        if !body.contains(']') {
            pending = Some((name, body));
            continue;
        }
        body = body.trim().trim_start_matches('[').trim_end_matches(']').to_string();
        let entries = body.split(',').map(|e| e.trim().trim_matches('"').to_string()).filter(|e| !e.is_empty()).collect();
        out.push((name, entries));
    }
    if out.is_empty() {
        return Err(format!("{}: no [features] table", path.display()));
    }
    Ok(out)
}


/// what each local of a function body is bound to: `let x = e` ↦ `e`; a pattern over a scrutinee `e`
/// (`if let`, `let … else`, `match` arm, closure-free) ↦ `e#<path>` with path `Some`, `Some.0`, `Some.1`, `0`, `1` …
#[derive(Default)]
struct Bindings(Vec<(String, String)>);

fn pat_idents(p: &syn::Pat, path: &str, out: &mut Vec<(String, String)>) {
    match p {
        syn::Pat::Ident(i) => out.push((i.ident.to_string(), path.to_string())),
        syn::Pat::Reference(r) => pat_idents(&r.pat, path, out),
        syn::Pat::Paren(r) => pat_idents(&r.pat, path, out),
        syn::Pat::Type(t) => pat_idents(&t.pat, path, out),
        syn::Pat::Tuple(t) => {
            for (i, e) in t.elems.iter().enumerate() {
                let sub = if path.is_empty() { format!("{i}") } else { format!("{path}.{i}") };
                pat_idents(e, &sub, out);
            }
        }
        syn::Pat::TupleStruct(t) => {
            let name = t.path.segments.last().map(|s| s.ident.to_string()).unwrap_or_default();
            let base = if path.is_empty() { name } else { format!("{path}.{name}") };
            if t.elems.len() == 1 {
                // `Some((a, b))` ↦ Some.0 / Some.1, `Some(a)` ↦ Some
                match &t.elems[0] {
                    syn::Pat::Tuple(_) => pat_idents(&t.elems[0], &base, out),
                    other => pat_idents(other, &base, out),
                }
            } else {
                for (i, e) in t.elems.iter().enumerate() {
                    pat_idents(e, &format!("{base}.{i}"), out);
                }
            }
        }
        _ => {}
    }
}

/// is the first `(` closed by the last `)`?
fn wraps(t: &str) -> bool {
    let mut depth = 0i32;
    for (i, ch) in t.char_indices() {
        match ch {
            '(' => depth += 1,
            ')' => {
                depth -= 1;
                if depth == 0 && i != t.len() - 1 {
                    return false;
                }
            }
            _ => {}
        }
    }
    true
}

impl Bindings {
    fn add_pat(&mut self, pat: &syn::Pat, scrutinee: &syn::Expr) {
        let mut ids = vec![];
        pat_idents(pat, "", &mut ids);
        let e = ts(scrutinee);
        for (id, path) in ids {
            self.0.push((id, if path.is_empty() { e.clone() } else { format!("{e}#{path}") }));
        }
    }
    /// what `side` denotes: strips `&`, `*`, parentheses and `.clone()`, follows local bindings (a few levels)
    fn resolve(&self, side: &str) -> String {
        let mut cur = side.to_string();
        for _ in 0..4 {
            let mut t = cur.trim_start_matches(['&', '*']).to_string();
            while t.starts_with('(') && t.ends_with(')') && wraps(&t) {
                t = t[1..t.len() - 1].trim_start_matches(['&', '*']).to_string();
            }
            let t = t.strip_suffix(".clone()").map(|x| x.to_string()).unwrap_or(t);
            match self.0.iter().rev().find(|(id, _)| *id == t) {
                Some((_, src)) => cur = src.clone(),
                None => return t,
            }
        }
        cur
    }
}

impl<'ast> Visit<'ast> for Bindings {
    fn visit_local(&mut self, l: &'ast syn::Local) {
        if let Some(init) = &l.init {
            self.add_pat(&l.pat, &init.expr);
        }
        syn::visit::visit_local(self, l);
    }
    fn visit_expr_let(&mut self, l: &'ast syn::ExprLet) {
        self.add_pat(&l.pat, &l.expr);
        syn::visit::visit_expr_let(self, l);
    }
    fn visit_expr_match(&mut self, m: &'ast syn::ExprMatch) {
        for arm in &m.arms {
            self.add_pat(&arm.pat, &m.expr);
        }
        syn::visit::visit_expr_match(self, m);
    }
    fn visit_expr_for_loop(&mut self, l: &'ast syn::ExprForLoop) {
        self.add_pat(&l.pat, &l.expr);
        syn::visit::visit_expr_for_loop(self, l);
    }
}

fn analyse(blocks: &[&syn::Block]) -> (Shapes, Bindings) {
    let mut s = Shapes::default();
    let mut b = Bindings::default();
    for blk in blocks {
        s.visit_block(blk);
        b.visit_block(blk);
    }
    (s, b)
}

/// a comparison as `small (<|<=) large`: (small, strict, large)
fn normalise(l: &str, op: &str, r: &str) -> Option<(String, bool, String)> {
    match op {
        "<" => Some((l.to_string(), true, r.to_string())),
        "<=" => Some((l.to_string(), false, r.to_string())),
        ">" => Some((r.to_string(), true, l.to_string())),
        ">=" => Some((r.to_string(), false, l.to_string())),
        _ => None,
    }
}

/// the comparisons of a body, normalised, with both sides resolved through the local bindings
fn comparisons(sh: &Shapes, b: &Bindings) -> Vec<(String, bool, String)> {
    sh.bins.iter().filter_map(|(l, op, r)| normalise(l, op, r)).map(|(s, strict, l)| (b.resolve(&s), strict, b.resolve(&l))).collect()
}

fn first_param(sig: &syn::Signature) -> Option<String> {
    sig.inputs.iter().find_map(|a| match a {
        syn::FnArg::Typed(t) => match &*t.pat {
            syn::Pat::Ident(i) => Some(i.ident.to_string()),
            _ => None,
        },
        _ => None,
    })
}

fn is_far_dist(x: &str) -> bool {
    x.contains("self.farthest_record") && x.ends_with("#Some.1")
}


/// token strings are whitespace-free; give binary operators back their spaces so that `syn::parse_str` reads them
fn expand_spaces(x: &str) -> String {
    x.replace('/', " / ").replace('*', " * ").replace('+', " + ")
}
pub fn generate(repo: &PathBuf) -> Result<String, String> {
    let rel = "ant-networking/src/record_store.rs";
    let file = parse_file(&repo.join(rel))?;
    let max_records = const_value(&file, "MAX_RECORDS_COUNT")?;
    let cache_size = const_value(&file, "MAX_RECORDS_CACHE_SIZE")?;
    let file_consts = consts(&file);
    let const_env = |n: &str| -> Option<u128> { file_consts.iter().find(|(k, _)| k == n).and_then(|_| const_value(&file, n).ok()) };
    // functions modelled in their own right: never looked through as "helpers"
    let stop = ["remove", "put_verified", "mark_as_stored", "prune_records_if_needed", "cleanup_irrelevant_records",
        "calculate_farthest", "get_record_from_bytes", "prepare_record_bytes", "read_from_disk", "generate_filename",
        "get_data_from_filename", "update_records_from_an_existing_store", "push_back", "get", "put"];

    // ---- prune_records_if_needed: `records.len() < max_records` ⇒ Ok; `farthest < distance(incoming)` ⇒ Err(MaxRecords)
    let prune = impl_fn(&file, "NodeRecordStore", None, "prune_records_if_needed")?;
    let incoming = first_param(&prune.sig).ok_or("prune_records_if_needed: no key parameter")?;
    let blocks = with_private_helpers(&file, &prune.block, &stop);
    let (sh, b) = analyse(&blocks);
    let cmps = comparisons(&sh, &b);
    match cmps.iter().find(|(s, _, l)| (s == "self.records.len()" && l == "self.config.max_records") || (l == "self.records.len()" && s == "self.config.max_records")) {
        Some((s, true, _)) if s == "self.records.len()" => {}
        other => return Err(format!("prune_records_if_needed: expected the not-full test `self.records.len() < self.config.max_records`, found {other:?}")),
    }
    let is_incoming = |x: &str| x.contains(".distance(") && x.contains(&incoming);
    let refuse_strict = match cmps.iter().find(|(s, _, l)| (is_far_dist(s) && is_incoming(l)) || (is_far_dist(l) && is_incoming(s))) {
        Some((s, strict, _)) if is_far_dist(s) => *strict,
        other => return Err(format!("prune_records_if_needed: expected `<farthest distance> (<|<=) <distance of the incoming key>` guarding Err(MaxRecords), found {other:?} among {cmps:?}")),
    };
    let c = calls_in_blocks(&blocks);
    if !c.paths.iter().any(|p| p == "Error::MaxRecords") || !c.methods.iter().any(|m| m == "remove") {
        return Err("prune_records_if_needed: expected Err(Error::MaxRecords) and self.remove(&farthest_record)".into());
    }

    // ---- mark_as_stored: farthest replaced when `new distance > farthest distance`
    let mark = impl_fn(&file, "NodeRecordStore", None, "mark_as_stored")?;
    let blocks = with_private_helpers(&file, &mark.block, &stop);
    let (sh, b) = analyse(&blocks);
    let cmps = comparisons(&sh, &b);
    let is_new = |x: &str| x.contains(".distance(") && !x.contains("farthest_record");
    let upd_strict = match cmps.iter().find(|(s, _, l)| (is_far_dist(s) && is_new(l)) || (is_far_dist(l) && is_new(s))) {
        Some((s, strict, _)) if is_far_dist(s) => *strict,
        other => return Err(format!("mark_as_stored: expected `<farthest distance> (<|<=) <distance of the new key>`, found {other:?} among {cmps:?}")),
    };

    // ---- cleanup_irrelevant_records: `records.len() < THRESHOLD` ⇒ return; range `responsible..`; loop of self.remove
    let cl = impl_fn(&file, "NodeRecordStore", None, "cleanup_irrelevant_records")?;
    let blocks = with_private_helpers(&file, &cl.block, &stop);
    let (sh, b) = analyse(&blocks);
    // the threshold: the other side of the comparison with records.len(), evaluated as a constant expression
    let mut cleanup_min: Option<u128> = None;
    for (l, op, r) in &sh.bins {
        let Some((small, strict, large)) = normalise(l, op, r) else { continue };
        let (rs_small, rs_large) = (b.resolve(&small), b.resolve(&large));
        let parse = |side: &str| -> Result<u128, String> {
            let e: syn::Expr = syn::parse_str(side).map_err(|e| e.to_string())?;
            eval_const(&e, &const_env)
        };
        if rs_small == "self.records.len()" {
            // len < T (skip below T) or len <= T (skip up to T)
            let orig = if small == *l { r } else { l };
            let t = parse(&expand_spaces(orig))?;
            cleanup_min = Some(if strict { t } else { t + 1 });
        } else if rs_large == "self.records.len()" {
            return Err(format!("cleanup_irrelevant_records: unexpected threshold test `{l} {op} {r}` (records.len() on the large side)"));
        }
    }
    let cleanup_min = cleanup_min.ok_or("cleanup_irrelevant_records: no comparison of self.records.len() with a threshold")?;
    let from = sh.ranges.iter().find(|(s, _, _)| b.resolve(s).contains("self.responsible_distance_range"))
        .ok_or_else(|| format!("cleanup_irrelevant_records: expected a range starting at the responsible distance, found {:?}", sh.ranges))?;
    if !(from.1 == ".." && from.2.is_empty()) {
        return Err(format!("cleanup_irrelevant_records: unexpected range `{}{}{}`", from.0, from.1, from.2));
    }
    // the loop removes every collected key through `self.remove(..)` — the function whose spawned task deletes the file
    struct Loops(Vec<(String, String, String)>);
    impl<'ast> Visit<'ast> for Loops {
        fn visit_expr_for_loop(&mut self, l: &'ast syn::ExprForLoop) {
            self.0.push((ts(&l.pat), ts(&l.expr), ts(&l.body)));
            syn::visit::visit_expr_for_loop(self, l);
        }
    }
    let mut loops = Loops(vec![]);
    for blk in &blocks {
        loops.visit_block(blk);
    }
    match loops.0.as_slice() {
        [(pat, iter, body)] => {
            let body_ok = *body == format!("{{self.remove(&{pat});}}") || *body == format!("{{self.remove({pat});}}");
            let src = b.resolve(iter.trim_end_matches(".iter()").trim_end_matches(".into_iter()"));
            let iter_ok = src.contains("records_by_distance") && src.contains(".range(");
            if !(body_ok && iter_ok) {
                return Err(format!("cleanup_irrelevant_records: expected a loop `for key in <keys from records_by_distance.range(..)> {{ self.remove(&key); }}`, found `for {pat} in {iter} {body}`"));
            }
        }
        other => return Err(format!("cleanup_irrelevant_records: expected exactly one loop over the keys to remove, found {other:?}")),
    }
    let rm = impl_fn(&file, "NodeRecordStore", Some("RecordStore"), "remove")?;
    let rm_stop: Vec<&str> = stop.iter().copied().filter(|x| *x != "remove").collect();
    let c = calls_in_blocks(&with_private_helpers(&file, &rm.block, &rm_stop));
    if !c.paths.iter().any(|p| p == "fs::remove_file") || !c.paths.iter().any(|p| p == "spawn") {
        return Err("RecordStore::remove: expected a spawned fs::remove_file(file_path)".into());
    }

    // ---- get_records_within_distance_range: `..range` (exclusive) or `..=range`
    let within = impl_fn(&file, "NodeRecordStore", None, "get_records_within_distance_range")?;
    let bound = first_param(&within.sig).ok_or("get_records_within_distance_range: no range parameter")?;
    let (sh, b) = analyse(&with_private_helpers(&file, &within.block, &stop));
    let within_exclusive = match sh.ranges.iter().find(|(s, _, e)| s.is_empty() && b.resolve(e) == bound) {
        Some((_, lim, _)) if lim == ".." => true,
        Some((_, lim, _)) if lim == "..=" => false,
        other => return Err(format!("get_records_within_distance_range: expected the range `..{bound}` or `..={bound}`, found {other:?} among {:?}", sh.ranges)),
    };

    // ---- update_records_from_an_existing_store: does the start-up scan test a size against max_value_bytes?
    let scan = impl_fn(&file, "NodeRecordStore", None, "update_records_from_an_existing_store")?;
    let scan_stop: Vec<&str> = stop.iter().copied().filter(|x| *x != "update_records_from_an_existing_store").collect();
    let scan_blocks = with_private_helpers(&file, &scan.block, &scan_stop);
    let (sh, b) = analyse(&scan_blocks);
    let size_tests: Vec<(String, bool, String)> = sh.bins.iter().filter(|(l, _, r)| l.contains("max_value_bytes") || r.contains("max_value_bytes"))
        .map(|(l, op, r)| normalise(l, op, r).ok_or_else(|| format!("update_records_from_an_existing_store: unexpected size test `{l} {op} {r}`")))
        .collect::<Result<_, _>>()?;
    // (drops, compares the file length (else the decrypted value length), strict)
    let (scan_drops, scan_on_file, scan_strict) = match size_tests.as_slice() {
        [] => (false, true, true),
        [(small, strict, large)] => {
            if !small.contains("max_value_bytes") {
                return Err(format!("update_records_from_an_existing_store: size test `{small} < {large}` keeps small files out?"));
            }
            let subject = b.resolve(large);
            let on_file = if subject.contains("meta") || subject.contains("fs::read") || subject.starts_with("bytes.len") || subject.contains("file") {
                true
            } else if subject.contains("record.value") || subject.contains("value.len") || subject.contains("get_record_from_bytes") {
                false
            } else {
                return Err(format!("update_records_from_an_existing_store: cannot tell what `{subject}` measures in the size test"));
            };
            let c = calls_in_blocks(&scan_blocks);
            if !c.paths.iter().any(|p| p == "fs::remove_file") {
                return Err("update_records_from_an_existing_store: size test without fs::remove_file".into());
            }
            (true, on_file, *strict)
        }
        more => return Err(format!("update_records_from_an_existing_store: {} size tests against max_value_bytes", more.len())),
    };

    // ---- file names: `generate_filename` = hex of the WHOLE key; `get_data_from_filename` = hex::decode with no filter
    let gen_name = impl_fn(&file, "NodeRecordStore", None, "generate_filename")?;
    let gstop: Vec<&str> = stop.iter().copied().filter(|x| *x != "generate_filename").collect();
    let gblocks = with_private_helpers(&file, &gen_name.block, &gstop);
    let c = calls_in_blocks(&gblocks);
    let (sh, _) = analyse(&gblocks);
    if !c.paths.iter().any(|p| p == "hex::encode") {
        return Err("generate_filename: expected hex::encode(key.as_ref())".into());
    }
    let slicing = !sh.ranges.is_empty() || c.methods.iter().any(|m| ["min", "truncate", "take", "get", "split_at", "len"].contains(&m.as_str()));
    let plain = sh.ranges.is_empty() && sh.bins.is_empty() && c.methods.iter().all(|m| ["as_ref", "to_vec", "as_slice"].contains(&m.as_str()));
    let name_full_hex = match (plain, slicing) {
        (true, _) => true,
        (false, true) => false,
        _ => return Err(format!("generate_filename: cannot tell whether the whole key is encoded (methods {:?})", c.methods)),
    };
    let from_name = impl_fn(&file, "NodeRecordStore", None, "get_data_from_filename")?;
    let fstop: Vec<&str> = stop.iter().copied().filter(|x| *x != "get_data_from_filename").collect();
    let fblocks = with_private_helpers(&file, &from_name.block, &fstop);
    let c = calls_in_blocks(&fblocks);
    let (sh, _) = analyse(&fblocks);
    if !c.paths.iter().any(|p| p == "hex::decode") {
        return Err("get_data_from_filename: expected hex::decode(hex_str)".into());
    }
    let plain = sh.bins.is_empty() && sh.ranges.is_empty() && c.methods.iter().all(|m| ["into", "to_vec", "as_ref", "ok", "map", "map_err", "inspect_err"].contains(&m.as_str()));
    let filtering = !sh.bins.is_empty() || !sh.ranges.is_empty() || c.methods.iter().any(|m| ["len", "starts_with", "ends_with", "filter", "is_empty"].contains(&m.as_str()));
    let name_unfiltered = match (plain, filtering) {
        (true, _) => true,
        (false, true) => false,
        _ => return Err(format!("get_data_from_filename: cannot tell whether names are filtered (methods {:?})", c.methods)),
    };

    // ---- RecordStore::put refuses `value.len() >= max_value_bytes`; put_verified has no size test
    let kput = impl_fn(&file, "NodeRecordStore", Some("RecordStore"), "put")?;
    let rec = first_param(&kput.sig).ok_or("RecordStore::put: no record parameter")?;
    let pstop: Vec<&str> = stop.iter().copied().filter(|x| *x != "put").collect();
    let (sh, b) = analyse(&with_private_helpers(&file, &kput.block, &pstop));
    let cmps = comparisons(&sh, &b);
    let len_of = format!("{rec}.value.len()");
    let put_inclusive = match cmps.iter().find(|(s, _, l)| (s == "self.config.max_value_bytes" && *l == len_of) || (l == "self.config.max_value_bytes" && *s == len_of)) {
        // max <= len  ⇔  len >= max
        Some((s, strict, _)) if s == "self.config.max_value_bytes" => !*strict,
        other => return Err(format!("RecordStore::put: expected `{len_of} (>=|>) self.config.max_value_bytes`, found {other:?}")),
    };
    let pv = impl_fn(&file, "NodeRecordStore", None, "put_verified")?;
    let vstop: Vec<&str> = stop.iter().copied().filter(|x| *x != "put_verified").collect();
    let (sh, _) = analyse(&with_private_helpers(&file, &pv.block, &vstop));
    if sh.bins.iter().any(|(l, _, r)| l.contains("max_value_bytes") || r.contains("max_value_bytes")) {
        return Err("put_verified: a size test against max_value_bytes appeared (the model has none)".into());
    }
    let driver = parse_file(&repo.join("ant-networking/src/driver.rs"))?;
    let max_packet = const_value(&driver, "MAX_PACKET_SIZE")?;

    // ---- both (de)cryption helpers are switched by cfg!(feature = "encrypt-records")
    for f in ["get_record_from_bytes", "prepare_record_bytes"] {
        let item = impl_fn(&file, "NodeRecordStore", None, f)?;
        let hstop: Vec<&str> = stop.iter().copied().filter(|x| *x != f).collect();
        let c = calls_in_blocks(&with_private_helpers(&file, &item.block, &hstop));
        if !c.macros.iter().any(|(n, t)| n == "cfg" && t.replace(' ', "") == "feature=\"encrypt-records\"") {
            return Err(format!("{f}: expected `cfg!(feature = \"encrypt-records\")`"));
        }
        let m = if f == "get_record_from_bytes" { "decrypt" } else { "encrypt" };
        if !c.methods.iter().any(|x| x == m) {
            return Err(format!("{f}: expected a call of cipher.{m}"));
        }
    }

    // ---- get_record_from_bytes: a decryption failure means "no record" (None), not "take the raw bytes"
    let grb = impl_fn(&file, "NodeRecordStore", None, "get_record_from_bytes")?;
    let gstop2: Vec<&str> = stop.iter().copied().filter(|x| *x != "get_record_from_bytes").collect();
    struct Arms2(Vec<(String, Vec<(String, String)>)>);
    impl<'ast> Visit<'ast> for Arms2 {
        fn visit_expr_match(&mut self, m: &'ast syn::ExprMatch) {
            self.0.push((ts(&m.expr), m.arms.iter().map(|a| (ts(&a.pat), ts(&a.body))).collect()));
            syn::visit::visit_expr_match(self, m);
        }
    }
    let mut a2 = Arms2(vec![]);
    let grb_blocks = with_private_helpers(&file, &grb.block, &gstop2);
    for blk in &grb_blocks {
        a2.visit_block(blk);
    }
    let whole: String = grb_blocks.iter().map(|b| ts(*b)).collect::<Vec<_>>().join(" ");
    let decrypt_failure_skips = match a2.0.iter().find(|(scrut, _)| scrut.contains(".decrypt(")) {
        Some((_, arms)) => {
            let err = arms.iter().find(|(p, _)| p.starts_with("Err")).ok_or("get_record_from_bytes: no Err arm on cipher.decrypt(..)")?;
            let body = err.1.trim_end_matches('}').trim_end_matches(';').to_string();
            if body.ends_with("None") || body.ends_with("returnNone") {
                true
            } else if !err.1.contains("None") && !err.1.contains("return") {
                // the failure falls through to the common `Some(record)`: the raw file bytes are handed back
                false
            } else {
                return Err(format!("get_record_from_bytes: cannot classify the decrypt-failure arm `{}`", err.1));
            }
        }
        None => {
            // `.decrypt(..).ok()?` / `let Ok(value) = … else { return None; }`
            if whole.contains(".decrypt(") && (whole.contains(".ok()?") || whole.contains("else{returnNone")) {
                true
            } else {
                return Err("get_record_from_bytes: expected a match (or `?` / let-else) on cipher.decrypt(..)".into());
            }
        }
    };

    // ---- flush_historic_quoting_metrics: the payment count is written in place (no spawned task that could be overtaken)
    let fl = impl_fn(&file, "NodeRecordStore", None, "flush_historic_quoting_metrics")?;
    let fstop2: Vec<&str> = stop.iter().copied().collect();
    let c = calls_in_blocks(&with_private_helpers(&file, &fl.block, &fstop2));
    let fl_body = ts(&fl.block);
    if !c.paths.iter().any(|p| p.ends_with("File::create")) || !c.methods.iter().any(|m| m == "serialize") || !fl_body.contains("received_payment_count:self.received_payment_count") {
        return Err("flush_historic_quoting_metrics: expected File::create(<metrics file>) + serialize of { received_payment_count: self.received_payment_count, .. }".into());
    }
    let flush_spawned = c.paths.iter().any(|p| p == "spawn" || p.ends_with("::spawn") || p.ends_with("spawn_blocking"));
    let flush_synchronous = !flush_spawned;
    for (f, who) in [("payment_received", "payment_received"), ("with_config", "with_config")] {
        let item = impl_fn(&file, "NodeRecordStore", None, f)?;
        let c = calls_in_block(&item.block);
        if !c.methods.iter().any(|m| m == "flush_historic_quoting_metrics") {
            return Err(format!("{who}: expected a call of self.flush_historic_quoting_metrics()"));
        }
    }
    let pr = impl_fn(&file, "NodeRecordStore", None, "payment_received")?;
    let pr_body = ts(&pr.block);
    match (pr_body.find("received_payment_count"), pr_body.find("flush_historic_quoting_metrics")) {
        (Some(a), Some(b)) if a < b => {}
        _ => return Err("payment_received: expected the counter update before the flush".into()),
    }

    // ---- lib.rs send_local_swarm_cmd: the notification waits for room on the channel (spawned `send().await`)
    let libf = parse_file(&repo.join("ant-networking/src/lib.rs"))?;
    let slc = free_fn(&libf, "send_local_swarm_cmd")?;
    let c = calls_in_blocks(&with_private_helpers(&libf, &slc.block, &[]));
    let body = ts(&*slc.block);
    let waits = c.paths.iter().any(|p| p == "spawn") && c.methods.iter().any(|m| m == "send") && body.contains(".await");
    let drops = c.methods.iter().any(|m| m == "try_send");
    let notification_sender_waits = match (waits, drops) {
        (true, false) => true,
        (false, true) => false,
        _ => return Err(format!("send_local_swarm_cmd: expected a spawned `sender.send(cmd).await` (or, weaker, `try_send`), methods {:?}", c.methods)),
    };

    // ---- cmd.rs: the `PutLocalRecord` handler derives the RecordType from the record header kind
    // (glue between the command and `put_verified`): table wire tag of the kind ↦ Chunk | Scratchpad | NonChunk | refused
    let proto = parse_file(&repo.join("ant-protocol/src/storage/header.rs"))?;
    let ser = impl_fn(&proto, "RecordKind", Some("Serialize"), "serialize")?;
    struct Arms(Vec<(String, Vec<(String, String)>)>); // (scrutinee, [(pattern, body)])
    impl<'ast> Visit<'ast> for Arms {
        fn visit_expr_match(&mut self, m: &'ast syn::ExprMatch) {
            self.0.push((ts(&m.expr), m.arms.iter().map(|a| (ts(&a.pat), ts(&a.body))).collect()));
            syn::visit::visit_expr_match(self, m);
        }
    }
    let mut a = Arms(vec![]);
    a.visit_block(&ser.block);
    let mut tags: Vec<(String, u32)> = vec![];
    for (_, arms) in &a.0 {
        for (pat, body) in arms {
            let name = pat.rsplit("::").next().unwrap_or("").to_string();
            if let Some(rest) = body.split("serialize_u32(").nth(1) {
                let n: u32 = rest.split(')').next().unwrap_or("").parse().map_err(|_| format!("RecordKind::serialize: tag of {name} is not a literal"))?;
                tags.push((name, n));
            }
        }
    }
    if tags.is_empty() {
        return Err("RecordKind::serialize: no `Self::X => serializer.serialize_u32(n)` arms".into());
    }
    let cmd_file = parse_file(&repo.join("ant-networking/src/cmd.rs"))?;
    let mut a = Arms(vec![]);
    a.visit_file(&cmd_file);
    let kind_matches: Vec<&(String, Vec<(String, String)>)> = a.0.iter()
        .filter(|(scrut, arms)| scrut.ends_with(".kind") && arms.iter().any(|(p, b)| p.contains("RecordKind::") && b.contains("RecordType::")))
        .collect();
    let arms = match kind_matches.as_slice() {
        [(_, arms)] => arms,
        other => return Err(format!("cmd.rs: expected exactly one `match <header>.kind {{ RecordKind::.. => RecordType::.. }}` (PutLocalRecord), found {}", other.len())),
    };
    // 0 = Chunk, 1 = Scratchpad, 2 = NonChunk(content hash); None = refused (InCorrectRecordHeader)
    let mut table: Vec<(u32, Option<u32>)> = vec![];
    for (pat, body) in arms {
        let out = if body.contains("RecordType::NonChunk") {
            if !body.contains("from_content") {
                return Err(format!("cmd.rs PutLocalRecord: NonChunk not built from the content hash in `{body}`"));
            }
            Some(2)
        } else if ["RecordType::Chunk", "Ok(RecordType::Chunk)"].contains(&body.replace(['{', '}'], "").as_str()) {
            Some(0)
        } else if ["RecordType::Scratchpad", "Ok(RecordType::Scratchpad)"].contains(&body.replace(['{', '}'], "").as_str()) {
            Some(1)
        } else if body.contains("InCorrectRecordHeader") && body.contains("Err(") {
            None
        } else {
            return Err(format!("cmd.rs PutLocalRecord: cannot classify the arm `{pat} => {body}`"));
        };
        for alt in pat.split('|') {
            let name = alt.rsplit("::").next().unwrap_or("").to_string();
            let tag = tags.iter().find(|(n, _)| *n == name).ok_or_else(|| format!("cmd.rs PutLocalRecord: unknown kind `{alt}`"))?.1;
            table.push((tag, out));
        }
    }
    table.sort();
    if table.len() != tags.len() {
        return Err(format!("cmd.rs PutLocalRecord: {} kinds handled, RecordKind has {}", table.len(), tags.len()));
    }
    let table_lean = table.iter().map(|(t, o)| format!("({t}, {})", match o { Some(c) => format!("some {c}"), None => "none".into() })).collect::<Vec<_>>().join(", ");

    // feature chain: ant-node default ∋ encrypt-records → ant-networking/encrypt-records
    let node = features(&repo.join("ant-node/Cargo.toml"))?;
    let netw = features(&repo.join("ant-networking/Cargo.toml"))?;
    let node_default = node.iter().find(|(n, _)| n == "default").map(|(_, e)| e.clone()).unwrap_or_default();
    let forwards = |feat: &str| -> bool {
        node.iter().find(|(n, _)| n == feat).map(|(_, e)| e.iter().any(|x| x == "ant-networking/encrypt-records")).unwrap_or(false)
    };
    let netw_has = netw.iter().any(|(n, _)| n == "encrypt-records");
    let netw_default_on = netw.iter().find(|(n, _)| n == "default").map(|(_, e)| e.iter().any(|x| x == "encrypt-records")).unwrap_or(false);
    let shipped = netw_has && (netw_default_on || node_default.iter().any(|f| forwards(f)));

    let mut s = header(&format!("{rel}, ant-networking/src/lib.rs, ant-networking/src/cmd.rs, ant-protocol/src/storage/header.rs, ant-node/Cargo.toml, ant-networking/Cargo.toml"));
    s.push_str("namespace SafeNet.Gen.Store\n");
    s.push_str(&format!("/-- `MAX_RECORDS_COUNT` -/\ndef maxRecordsCount : Nat := {max_records}\n"));
    s.push_str(&format!("/-- `MAX_RECORDS_CACHE_SIZE` -/\ndef maxRecordsCacheSize : Nat := {cache_size}\n"));
    s.push_str(&format!("/-- clean-up applies from this many records on (`MAX_RECORDS_COUNT / 10` in the source) -/\ndef cleanupMin : Nat := {cleanup_min}\n"));
    s.push_str(&format!("/-- `prune_records_if_needed` refuses when `farthest < incoming` (strict) -/\ndef pruneRefuseStrict : Bool := {}\n", lean_bool(refuse_strict)));
    s.push_str(&format!("/-- `mark_as_stored` replaces the farthest record when `distance > farthest` (strict) -/\ndef farthestUpdateStrict : Bool := {}\n", lean_bool(upd_strict)));
    s.push_str(&format!("/-- `get_records_within_distance_range` counts `..range` (exclusive upper bound) -/\ndef withinRangeExclusive : Bool := {}\n", lean_bool(within_exclusive)));
    s.push_str("/-- `cleanup_irrelevant_records` removes the range `responsible_distance..` (inclusive lower bound) -/\ndef cleanupFromInclusive : Bool := true\n");
    s.push_str(&format!("/-- ant-node's default features: {:?}; `encrypt-records` reaches ant-networking -/\ndef shippedEncrypt : Bool := {}\n", node_default, lean_bool(shipped)));
    s.push_str(&format!("/-- `MAX_PACKET_SIZE` (driver.rs): `max_value_bytes` of a node's store -/\ndef maxPacketSize : Nat := {max_packet}\n"));
    s.push_str(&format!("/-- the start-up scan removes files by a size test against `max_value_bytes` -/\ndef scanDropsOversized : Bool := {}\n", lean_bool(scan_drops)));
    s.push_str(&format!("/-- that test measures the file length (otherwise the decrypted value length) -/\ndef scanSizeOnFile : Bool := {}\n", lean_bool(scan_on_file)));
    s.push_str(&format!("/-- that test is `len > max` (otherwise `len >= max`) -/\ndef scanSizeStrict : Bool := {}\n", lean_bool(scan_strict)));
    s.push_str("/-- `cleanup_irrelevant_records` removes every collected key through `self.remove(&key)`, whose spawned task deletes the file -/\ndef cleanupRemovesThroughRemove : Bool := true\n");
    s.push_str(&format!("/-- `generate_filename` is the hex of the whole key (no slicing / truncation) -/\ndef fileNameIsFullHex : Bool := {}\n", lean_bool(name_full_hex)));
    s.push_str(&format!("/-- `get_data_from_filename` (start-up scan) accepts every hex name: no length or other filter -/\ndef scanAcceptsEveryHexName : Bool := {}\n", lean_bool(name_unfiltered)));
    s.push_str(&format!("/-- `RecordStore::put` refuses `len >= max_value_bytes` (otherwise `>`); `put_verified` has no size test -/\ndef putSizeInclusive : Bool := {}\n", lean_bool(put_inclusive)));
    s.push_str(&format!("/-- `get_record_from_bytes`: a decryption failure yields no record (`None`) — otherwise the raw file bytes are handed back -/\ndef decryptFailureSkips : Bool := {}\n", lean_bool(decrypt_failure_skips)));
    s.push_str(&format!("/-- `send_local_swarm_cmd` spawns a task that awaits room on the command channel (otherwise `try_send`: dropped when full) -/\ndef notificationSenderWaits : Bool := {}\n", lean_bool(notification_sender_waits)));
    s.push_str(&format!("/-- `flush_historic_quoting_metrics` writes the payment count in place, inside `payment_received` / `with_config` (otherwise: in a spawned task carrying the count captured at spawn time) -/\ndef flushSynchronous : Bool := {}\n", lean_bool(flush_synchronous)));
    s.push_str(&format!("/-- `PutLocalRecord` handler (cmd.rs): wire tag of the record kind ↦ 0 Chunk | 1 Scratchpad | 2 NonChunk(content hash); `none` = refused -/\ndef localPutTable : List (Nat × Option Nat) := [{table_lean}]\n"));
    s.push_str("end SafeNet.Gen.Store\n");
    Ok(s)
}
