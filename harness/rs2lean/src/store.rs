//! record_store.rs → Gen/Store.lean: capacity constants, the clean-up threshold divisor, the comparison
//! operators of the accept/refuse, farthest-update, clean-up and quoting decisions, and whether the
//! shipped antnode (ant-node's default features, through to ant-networking) encrypts record files.
use crate::util::*;
use std::path::PathBuf;
use syn::visit::Visit;

#[derive(Default)]
struct Shapes {
    /// binary expressions as (left, op, right), whitespace-free
    bins: Vec<(String, String, String)>,
    /// range expressions as (start, limits, end)
    ranges: Vec<(String, String, String)>,
}

fn ts<T: quote::ToTokens>(t: &T) -> String {
    t.to_token_stream().to_string().replace(' ', "")
}

impl<'ast> Visit<'ast> for Shapes {
    fn visit_expr_binary(&mut self, b: &'ast syn::ExprBinary) {
        self.bins.push((ts(&b.left), ts(&b.op), ts(&b.right)));
        syn::visit::visit_expr_binary(self, b);
    }
    fn visit_expr_range(&mut self, r: &'ast syn::ExprRange) {
        let lim = match r.limits {
            syn::RangeLimits::HalfOpen(_) => "..",
            syn::RangeLimits::Closed(_) => "..=",
        };
        self.ranges.push((
            r.start.as_ref().map(|e| ts(e)).unwrap_or_default(),
            lim.to_string(),
            r.end.as_ref().map(|e| ts(e)).unwrap_or_default(),
        ));
        syn::visit::visit_expr_range(self, r);
    }
}

fn shapes(b: &syn::Block) -> Shapes {
    let mut s = Shapes::default();
    s.visit_block(b);
    s
}

/// the `[features]` table of a Cargo.toml as (name, entries)
fn features(path: &std::path::Path) -> Result<Vec<(String, Vec<String>)>, String> {
    let src = std::fs::read_to_string(path).map_err(|e| format!("{}: {e}", path.display()))?;
    let mut in_features = false;
    let mut out = vec![];
    let mut pending: Option<(String, String)> = None;
    for raw in src.lines() {
        let line = raw.split('#').next().unwrap_or("").trim();
        if line.starts_with('[') && pending.is_none() {
            in_features = line == "[features]";
            continue;
        }
        if !in_features || line.is_empty() {
            continue;
        }
        let (name, mut body) = match pending.take() {
            Some((n, b)) => (n, format!("{b} {line}")),
            None => {
                let (n, b) = line.split_once('=').ok_or_else(|| format!("{}: unexpected line in [features]: {line}", path.display()))?;
                (n.trim().trim_matches('"').to_string(), b.trim().to_string())
            }
        };
        if !body.contains(']') {
            pending = Some((name, body));
            continue;
        }
        body = body.trim().trim_start_matches('[').trim_end_matches(']').to_string();
        let entries = body.split(',').map(|e| e.trim().trim_matches('"').to_string()).filter(|e| !e.is_empty()).collect();
        out.push((name, entries));
    }
    if out.is_empty() {
        return Err(format!("{}: no [features] table", path.display()));
    }
    Ok(out)
}

pub fn generate(repo: &PathBuf) -> Result<String, String> {
    let rel = "ant-networking/src/record_store.rs";
    let file = parse_file(&repo.join(rel))?;
    let max_records = const_value(&file, "MAX_RECORDS_COUNT")?;
    let cache_size = const_value(&file, "MAX_RECORDS_CACHE_SIZE")?;

    // prune_records_if_needed: `records.len() < max_records` ⇒ Ok; `farthest_distance < distance(incoming)` ⇒ Err(MaxRecords)
    let prune = impl_fn(&file, "NodeRecordStore", None, "prune_records_if_needed")?;
    let sh = shapes(&prune.block);
    let not_full = sh.bins.iter().find(|(l, _, r)| l == "self.records.len()" && r == "self.config.max_records")
        .ok_or("prune_records_if_needed: expected a comparison of self.records.len() with self.config.max_records")?;
    if not_full.1 != "<" {
        return Err(format!("prune_records_if_needed: not-full test uses `{}` (expected `<`)", not_full.1));
    }
    let refuse = sh.bins.iter().find(|(l, _, r)| l == "farthest_record_distance" && r.contains("incoming_record_key"))
        .ok_or("prune_records_if_needed: expected `farthest_record_distance <op> distance(incoming_record_key)`")?;
    let refuse_strict = match refuse.1.as_str() {
        "<" => true,
        "<=" => false,
        o => return Err(format!("prune_records_if_needed: unexpected operator `{o}` in the refuse test")),
    };
    let c = calls_in_block(&prune.block);
    if !c.paths.iter().any(|p| p == "Error::MaxRecords") || !c.methods.iter().any(|m| m == "remove") {
        return Err("prune_records_if_needed: expected Err(Error::MaxRecords) and self.remove(&farthest_record)".into());
    }

    // mark_as_stored: farthest replaced when `distance > farthest_record_distance`
    let mark = impl_fn(&file, "NodeRecordStore", None, "mark_as_stored")?;
    let sh = shapes(&mark.block);
    let upd = sh.bins.iter().find(|(l, _, r)| l == "distance" && r == "farthest_record_distance")
        .ok_or("mark_as_stored: expected `distance <op> farthest_record_distance`")?;
    let upd_strict = match upd.1.as_str() {
        ">" => true,
        ">=" => false,
        o => return Err(format!("mark_as_stored: unexpected operator `{o}`")),
    };

    // cleanup_irrelevant_records: `accumulated_records < MAX_RECORDS_COUNT / D`, range `responsible_distance..`
    let cl = impl_fn(&file, "NodeRecordStore", None, "cleanup_irrelevant_records")?;
    let sh = shapes(&cl.block);
    let thr = sh.bins.iter().find(|(l, o, r)| l == "accumulated_records" && o == "<" && r.starts_with("MAX_RECORDS_COUNT/"))
        .ok_or("cleanup_irrelevant_records: expected `accumulated_records < MAX_RECORDS_COUNT / <literal>`")?;
    let divisor: u128 = thr.2["MAX_RECORDS_COUNT/".len()..].parse().map_err(|_| format!("cleanup_irrelevant_records: divisor not a literal in `{}`", thr.2))?;
    if divisor == 0 {
        return Err("cleanup_irrelevant_records: divisor is zero".into());
    }
    let from = sh.ranges.iter().find(|(s, _, _)| s == "responsible_distance")
        .ok_or("cleanup_irrelevant_records: expected the range `responsible_distance..`")?;
    if !(from.1 == ".." && from.2.is_empty()) {
        return Err(format!("cleanup_irrelevant_records: unexpected range `{}{}{}`", from.0, from.1, from.2));
    }

    // the clean-up loop removes each collected key through `self.remove(&key)` — the function whose spawned
    // disk task deletes the record file; any other loop body is not what the model (and the restart theorems) assume
    struct Loops(Vec<String>);
    impl<'ast> Visit<'ast> for Loops {
        fn visit_expr_for_loop(&mut self, l: &'ast syn::ExprForLoop) {
            self.0.push(format!("for {} in {} {}", ts(&l.pat), ts(&l.expr), ts(&l.body)));
            syn::visit::visit_expr_for_loop(self, l);
        }
    }
    let mut loops = Loops(vec![]);
    loops.visit_block(&cl.block);
    match loops.0.as_slice() {
        [one] if one == "for key in keys_to_remove {self.remove(&key);}" => {}
        other => return Err(format!("cleanup_irrelevant_records: expected exactly `for key in keys_to_remove {{ self.remove(&key); }}`, found {other:?}")),
    }
    let rm = impl_fn(&file, "NodeRecordStore", Some("RecordStore"), "remove")?;
    let c = calls_in_block(&rm.block);
    if !c.paths.iter().any(|p| p == "fs::remove_file") || !c.paths.iter().any(|p| p == "spawn") {
        return Err("RecordStore::remove: expected a spawned fs::remove_file(file_path)".into());
    }

    // get_records_within_distance_range: `..range` (exclusive) or `..=range`
    let within = impl_fn(&file, "NodeRecordStore", None, "get_records_within_distance_range")?;
    let sh = shapes(&within.block);
    let to = sh.ranges.iter().find(|(s, _, e)| s.is_empty() && e == "range")
        .ok_or("get_records_within_distance_range: expected the range `..range`")?;
    let within_exclusive = to.1 == "..";

    // update_records_from_an_existing_store: does the start-up scan test a size against max_value_bytes?
    let scan = impl_fn(&file, "NodeRecordStore", None, "update_records_from_an_existing_store")?;
    let sh = shapes(&scan.block);
    let size_tests: Vec<&(String, String, String)> = sh.bins.iter().filter(|(l, _, r)| l.contains("max_value_bytes") || r.contains("max_value_bytes")).collect();
    // (drops, compares the file length (else the decrypted value length), strict)
    let (scan_drops, scan_on_file, scan_strict) = match size_tests.as_slice() {
        [] => (false, true, true),
        [(l, op, r)] => {
            let (subject, strict) = if r.contains("max_value_bytes") {
                match op.as_str() {
                    ">" => (l, true),
                    ">=" => (l, false),
                    o => return Err(format!("update_records_from_an_existing_store: unexpected size test `{l} {o} {r}`")),
                }
            } else {
                match op.as_str() {
                    "<" => (r, true),
                    "<=" => (r, false),
                    o => return Err(format!("update_records_from_an_existing_store: unexpected size test `{l} {o} {r}`")),
                }
            };
            let on_file = if subject.contains("meta") || subject.starts_with("bytes.len") || subject.contains("file") {
                true
            } else if subject.contains("record.value") || subject.contains("value.len") {
                false
            } else {
                return Err(format!("update_records_from_an_existing_store: cannot tell what `{subject}` measures in the size test"));
            };
            let c = calls_in_block(&scan.block);
            if !c.paths.iter().any(|p| p == "fs::remove_file") {
                return Err("update_records_from_an_existing_store: size test without fs::remove_file".into());
            }
            (true, on_file, strict)
        }
        more => return Err(format!("update_records_from_an_existing_store: {} size tests against max_value_bytes", more.len())),
    };

    // file names: `generate_filename` = hex of the WHOLE key; `get_data_from_filename` = hex::decode with no filter
    let gen_name = impl_fn(&file, "NodeRecordStore", None, "generate_filename")?;
    let c = calls_in_block(&gen_name.block);
    let sh = shapes(&gen_name.block);
    if !c.paths.iter().any(|p| p == "hex::encode") {
        return Err("generate_filename: expected hex::encode(key.as_ref())".into());
    }
    let name_full_hex = sh.ranges.is_empty() && sh.bins.is_empty() && c.methods.iter().all(|m| m == "as_ref");
    let from_name = impl_fn(&file, "NodeRecordStore", None, "get_data_from_filename")?;
    let c = calls_in_block(&from_name.block);
    let sh = shapes(&from_name.block);
    if !c.paths.iter().any(|p| p == "hex::decode") {
        return Err("get_data_from_filename: expected hex::decode(hex_str)".into());
    }
    let allowed = ["into", "to_vec", "as_ref"];
    let name_unfiltered = sh.bins.is_empty() && sh.ranges.is_empty() && c.methods.iter().all(|m| allowed.contains(&m.as_str()));

    // RecordStore::put refuses `record.value.len() >= max_value_bytes`; put_verified has no size test
    let kput = impl_fn(&file, "NodeRecordStore", Some("RecordStore"), "put")?;
    let sh = shapes(&kput.block);
    let t = sh.bins.iter().find(|(l, _, r)| l == "record.value.len()" && r == "self.config.max_value_bytes")
        .ok_or("RecordStore::put: expected `record.value.len() <op> self.config.max_value_bytes`")?;
    let put_inclusive = match t.1.as_str() {
        ">=" => true,
        ">" => false,
        o => return Err(format!("RecordStore::put: unexpected operator `{o}` in the size test")),
    };
    let pv = impl_fn(&file, "NodeRecordStore", None, "put_verified")?;
    let sh = shapes(&pv.block);
    if sh.bins.iter().any(|(l, _, r)| l.contains("max_value_bytes") || r.contains("max_value_bytes")) {
        return Err("put_verified: a size test against max_value_bytes appeared (the model has none)".into());
    }
    let driver = parse_file(&repo.join("ant-networking/src/driver.rs"))?;
    let max_packet = const_value(&driver, "MAX_PACKET_SIZE")?;

    // both (de)cryption helpers are switched by cfg!(feature = "encrypt-records")
    for f in ["get_record_from_bytes", "prepare_record_bytes"] {
        let item = impl_fn(&file, "NodeRecordStore", None, f)?;
        let c = calls_in_block(&item.block);
        if !c.macros.iter().any(|(n, t)| n == "cfg" && t.replace(' ', "") == "feature=\"encrypt-records\"") {
            return Err(format!("{f}: expected `cfg!(feature = \"encrypt-records\")`"));
        }
        let m = if f == "get_record_from_bytes" { "decrypt" } else { "encrypt" };
        if !c.methods.iter().any(|x| x == m) {
            return Err(format!("{f}: expected a call of cipher.{m}"));
        }
    }

    // feature chain: ant-node default ∋ encrypt-records → ant-networking/encrypt-records
    let node = features(&repo.join("ant-node/Cargo.toml"))?;
    let netw = features(&repo.join("ant-networking/Cargo.toml"))?;
    let node_default = node.iter().find(|(n, _)| n == "default").map(|(_, e)| e.clone()).unwrap_or_default();
    let forwards = |feat: &str| -> bool {
        node.iter().find(|(n, _)| n == feat).map(|(_, e)| e.iter().any(|x| x == "ant-networking/encrypt-records")).unwrap_or(false)
    };
    let netw_has = netw.iter().any(|(n, _)| n == "encrypt-records");
    let netw_default_on = netw.iter().find(|(n, _)| n == "default").map(|(_, e)| e.iter().any(|x| x == "encrypt-records")).unwrap_or(false);
    let shipped = netw_has && (netw_default_on || node_default.iter().any(|f| forwards(f)));

    let mut s = header(&format!("{rel}, ant-node/Cargo.toml, ant-networking/Cargo.toml"));
    s.push_str("namespace SafeNet.Gen.Store\n");
    s.push_str(&format!("/-- `MAX_RECORDS_COUNT` -/\ndef maxRecordsCount : Nat := {max_records}\n"));
    s.push_str(&format!("/-- `MAX_RECORDS_CACHE_SIZE` -/\ndef maxRecordsCacheSize : Nat := {cache_size}\n"));
    s.push_str(&format!("/-- clean-up applies from `MAX_RECORDS_COUNT / cleanupDivisor` records on -/\ndef cleanupDivisor : Nat := {divisor}\n"));
    s.push_str(&format!("/-- `prune_records_if_needed` refuses when `farthest < incoming` (strict) -/\ndef pruneRefuseStrict : Bool := {}\n", lean_bool(refuse_strict)));
    s.push_str(&format!("/-- `mark_as_stored` replaces the farthest record when `distance > farthest` (strict) -/\ndef farthestUpdateStrict : Bool := {}\n", lean_bool(upd_strict)));
    s.push_str(&format!("/-- `get_records_within_distance_range` counts `..range` (exclusive upper bound) -/\ndef withinRangeExclusive : Bool := {}\n", lean_bool(within_exclusive)));
    s.push_str("/-- `cleanup_irrelevant_records` removes the range `responsible_distance..` (inclusive lower bound) -/\ndef cleanupFromInclusive : Bool := true\n");
    s.push_str(&format!("/-- ant-node's default features: {:?}; `encrypt-records` reaches ant-networking -/\ndef shippedEncrypt : Bool := {}\n", node_default, lean_bool(shipped)));
    s.push_str(&format!("/-- `MAX_PACKET_SIZE` (driver.rs): `max_value_bytes` of a node's store -/\ndef maxPacketSize : Nat := {max_packet}\n"));
    s.push_str(&format!("/-- the start-up scan removes files by a size test against `max_value_bytes` -/\ndef scanDropsOversized : Bool := {}\n", lean_bool(scan_drops)));
    s.push_str(&format!("/-- that test measures the file length (otherwise the decrypted value length) -/\ndef scanSizeOnFile : Bool := {}\n", lean_bool(scan_on_file)));
    s.push_str(&format!("/-- that test is `len > max` (otherwise `len >= max`) -/\ndef scanSizeStrict : Bool := {}\n", lean_bool(scan_strict)));
    s.push_str("/-- `cleanup_irrelevant_records` removes every collected key through `self.remove(&key)`, whose spawned task deletes the file -/\ndef cleanupRemovesThroughRemove : Bool := true\n");
    s.push_str(&format!("/-- `generate_filename` is the hex of the whole key (no slicing / truncation) -/\ndef fileNameIsFullHex : Bool := {}\n", lean_bool(name_full_hex)));
    s.push_str(&format!("/-- `get_data_from_filename` (start-up scan) accepts every hex name: no length or other filter -/\ndef scanAcceptsEveryHexName : Bool := {}\n", lean_bool(name_unfiltered)));
    s.push_str(&format!("/-- `RecordStore::put` refuses `len >= max_value_bytes` (otherwise `>`); `put_verified` has no size test -/\ndef putSizeInclusive : Bool := {}\n", lean_bool(put_inclusive)));
    s.push_str("end SafeNet.Gen.Store\n");
    Ok(s)
}
