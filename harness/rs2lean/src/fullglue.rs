//! ant-networking/src/cmd.rs (+ a scan of the other ant-networking sources) → lean/SafeNet/Gen/FullGlue.lean
//!
//! The GLUE between the record store and the replication fetcher inside `SwarmDriver::handle_local_cmd`: for the arms
//! `PutLocalRecord`, `AddLocalRecordAsStored`, `RemoveFailedLocalRecord`, `FetchCompleted` and
//! `TriggerIrrelevantRecordCleanup` the top-level statements of the arm are classified IN SOURCE ORDER into a closed
//! list of step codes (the model `SafeNet.FullGlue` interprets the list literally, so both the presence and the order
//! of each call are data the kernel sees):
//!
//!   0  `let record_type = match RecordHeader::from_record(&record) { .. }` (early `return Err(InCorrectRecordHeader)`)
//!   1  `let result = …store_mut().put_verified(record, record_type.clone())`
//!   2  `match result { Err(StoreError::MaxRecords) => set_farthest_on_full(…store_mut().get_farthest()) .. }`
//!   3  `let new_keys = self.replication_fetcher.notify_about_new_put(key.clone(), record_type)`
//!   4  `if !new_keys.is_empty() { self.send_event(NetworkEvent::KeysToFetchForReplication(new_keys)) }`
//!   5  `if let Some(d) = …store_mut().get_farthest_replication_distance() { self.replication_fetcher.set_replication_distance_range(d) }`
//!   6  `if let Err(err) = result { ..; return Err(err.into()) }`
//!   10 `…store_mut().mark_as_stored(key, record_type)`
//!   11 `…store_mut().remove(&key)`
//!   12 `let new_keys = self.replication_fetcher.notify_fetch_early_completed(key, record_type)`
//!   13 `…store_mut().cleanup_irrelevant_records()`
//!   14 `if self.hard_disk_write_error > MAX_CONTINUOUS_HDD_WRITE_ERROR { self.send_event(NetworkEvent::TerminateNode{..}) }`
//!
//! Statements that touch neither the store, nor the fetcher, nor the event channel, and cannot leave the handler (plain
//! `let`s over locals, `cmd_string = ..`, log macros, `self.hard_disk_write_error` bookkeeping, `self.log_handling(..)`)
//! are inert and skipped. ANY other statement is a refusal (`Err` ⇒ UNTRANSLATABLE), never a guess.
//! In addition every method call on `….replication_fetcher` anywhere in ant-networking/src (outside `verif/` and
//! replication_fetcher.rs itself) must be one of the call sites the composed model knows.
use crate::util::*;
use std::path::{Path, PathBuf};

fn toks<T: quote::ToTokens>(e: &T) -> String {
    quote::ToTokens::to_token_stream(e).to_string().replace(' ', "").replace(".clone()", "")
}

const STORE: &str = "self.swarm.behaviour_mut().kademlia.store_mut()";
const LOGS: [&str; 5] = ["debug", "info", "warn", "error", "trace"];

/// string literals (log format strings contain `?`) removed
fn nolit(t: &str) -> String {
    regex::Regex::new(r#""(?:[^"\\]|\\.)*""#).expect("regex").replace_all(t, "\"\"").to_string()
}

/// text with the tolerated `self` uses removed; what is left must not mention `self`, `return` or `?`
fn inert_text(t: &str) -> bool {
    let mut s = nolit(t);
    // bookkeeping the model has no use for
    for pat in ["self.log_handling(cmd_string.to_string(),start.elapsed())", "self.hard_disk_write_error"] {
        s = s.replace(pat, "_");
    }
    !s.contains("self") && !s.contains("return") && !s.contains('?') && !s.contains("send_event") && !s.contains("replication_fetcher")
}

fn is_log_macro(m: &syn::Macro) -> bool {
    m.path.segments.last().map(|s| LOGS.contains(&s.ident.to_string().as_str())).unwrap_or(false)
}

/// a block all of whose statements are inert
fn inert_block(b: &syn::Block) -> bool {
    b.stmts.iter().all(inert_stmt)
}

fn inert_stmt(s: &syn::Stmt) -> bool {
    match s {
        syn::Stmt::Macro(m) => is_log_macro(&m.mac),
        syn::Stmt::Local(l) => match &l.init {
            Some(i) => i.diverge.is_none() && inert_text(&toks(&i.expr)),
            None => true,
        },
        syn::Stmt::Expr(e, _) => inert_expr(e),
        syn::Stmt::Item(_) => false,
    }
}

fn inert_expr(e: &syn::Expr) -> bool {
    match e {
        syn::Expr::Macro(m) => is_log_macro(&m.mac),
        syn::Expr::Block(b) => inert_block(&b.block),
        // log macros carry arbitrary format arguments; everything else is judged on its text
        syn::Expr::If(i) => {
            inert_text(&toks(&i.cond))
                && inert_block(&i.then_branch)
                && i.else_branch.as_ref().map(|(_, e)| inert_expr(e)).unwrap_or(true)
        }
        other => inert_text(&toks(other)),
    }
}

fn local_name(l: &syn::Local) -> Option<String> {
    match &l.pat {
        syn::Pat::Ident(i) => Some(i.ident.to_string()),
        syn::Pat::Type(t) => match &*t.pat {
            syn::Pat::Ident(i) => Some(i.ident.to_string()),
            _ => None,
        },
        _ => None,
    }
}

#[derive(Default)]
struct Names {
    record_type: Option<String>,
    result: Option<String>,
    new_keys: Option<String>,
}

/// the single statement of a block, ignoring inert ones
fn effective<'a>(b: &'a syn::Block) -> Vec<&'a syn::Stmt> {
    b.stmts.iter().filter(|s| !inert_stmt(s)).collect()
}

/// `Err(StoreError::MaxRecords) => { let f = STORE.get_farthest(); self.replication_fetcher.set_farthest_on_full(f); }`
fn max_records_arm(body: &syn::Expr) -> Result<bool, String> {
    let block = match body {
        syn::Expr::Block(b) => &b.block,
        other => return Err(format!("MaxRecords arm is not a block: `{}`", toks(other))),
    };
    let st = effective(block);
    if st.is_empty() {
        return Ok(false);
    }
    let want_direct = format!("self.replication_fetcher.set_farthest_on_full({STORE}.get_farthest())");
    match st.as_slice() {
        [syn::Stmt::Expr(e, _)] if toks(e) == want_direct => Ok(true),
        [syn::Stmt::Local(l), syn::Stmt::Expr(e, _)] => {
            let name = local_name(l).ok_or("MaxRecords arm: unreadable binding")?;
            let init = l.init.as_ref().map(|i| toks(&i.expr)).unwrap_or_default();
            if init == format!("{STORE}.get_farthest()") && toks(e) == format!("self.replication_fetcher.set_farthest_on_full({name})") {
                Ok(true)
            } else {
                Err(format!("MaxRecords arm: expected `let f = store.get_farthest(); fetcher.set_farthest_on_full(f)`, found `{init}` / `{}`", toks(e)))
            }
        }
        _ => Err(format!("MaxRecords arm: unrecognised statements `{}`", toks(block))),
    }
}

/// one top-level statement of a handler arm → `None` (inert) or a step code
fn classify(s: &syn::Stmt, n: &mut Names, arm: &str) -> Result<Option<u32>, String> {
    if inert_stmt(s) {
        return Ok(None);
    }
    let bad = |what: &str| Err(format!("{arm}: unrecognised statement ({what}): `{}`", toks(s).chars().take(240).collect::<String>()));
    match s {
        syn::Stmt::Local(l) => {
            let Some(name) = local_name(l) else { return bad("pattern binding") };
            let Some(init) = &l.init else { return bad("no initialiser") };
            if init.diverge.is_some() {
                return bad("let-else");
            }
            let t = toks(&init.expr);
            // 0: the record type from the header
            if let syn::Expr::Match(m) = &*init.expr {
                if toks(&m.expr) == "RecordHeader::from_record(&record)" {
                    let body = nolit(&toks(&init.expr));
                    let cleaned = body.replace("returnErr(NetworkError::InCorrectRecordHeader)", "");
                    if cleaned.contains("self") || cleaned.contains("return") || cleaned.contains('?') {
                        return bad("header match with side effects");
                    }
                    if !body.contains("returnErr(NetworkError::InCorrectRecordHeader)") {
                        return bad("header match without the InCorrectRecordHeader return");
                    }
                    n.record_type = Some(name);
                    return Ok(Some(0));
                }
            }
            let rt = n.record_type.clone().unwrap_or_else(|| "record_type".into());
            if t == format!("{STORE}.put_verified(record,{rt})") {
                n.result = Some(name);
                return Ok(Some(1));
            }
            if t == format!("self.replication_fetcher.notify_about_new_put(key,{rt})") {
                n.new_keys = Some(name);
                return Ok(Some(3));
            }
            if t == "self.replication_fetcher.notify_fetch_early_completed(key,record_type)" {
                n.new_keys = Some(name);
                return Ok(Some(12));
            }
            bad("let")
        }
        syn::Stmt::Expr(e, _) => {
            let t = toks(e);
            if t == format!("{STORE}.mark_as_stored(key,record_type)") {
                return Ok(Some(10));
            }
            if t == format!("{STORE}.remove(&key)") {
                return Ok(Some(11));
            }
            if t == format!("{STORE}.cleanup_irrelevant_records()") {
                return Ok(Some(13));
            }
            match e {
                syn::Expr::Match(m) => {
                    // 2: what is done with the result of put_verified
                    let Some(res) = &n.result else { return bad("match before put_verified") };
                    if toks(&m.expr) != *res {
                        return bad("match on something else than the put_verified result");
                    }
                    let mut sets = false;
                    let mut seen_max = false;
                    for a in &m.arms {
                        if a.guard.is_some() {
                            return bad("guarded arm");
                        }
                        let p = toks(&a.pat);
                        if p == "Err(StoreError::MaxRecords)" {
                            seen_max = true;
                            sets = max_records_arm(&a.body).map_err(|e| format!("{arm}: {e}"))?;
                        } else if p == "Ok(_)" || p == "Ok(())" || p == "Err(_)" {
                            if !inert_expr(&a.body) {
                                return bad(&format!("arm `{p}` does something"));
                            }
                        } else {
                            return bad(&format!("arm pattern `{p}`"));
                        }
                    }
                    let _ = seen_max;
                    Ok(if sets { Some(2) } else { None })
                }
                syn::Expr::If(i) => {
                    if i.else_branch.is_some() {
                        return bad("if-else");
                    }
                    let c = toks(&i.cond);
                    let body = effective(&i.then_branch);
                    // 4: emit
                    if let Some(nk) = &n.new_keys {
                        if c == format!("!{nk}.is_empty()") {
                            return match body.as_slice() {
                                [syn::Stmt::Expr(b, _)] if toks(b) == format!("self.send_event(NetworkEvent::KeysToFetchForReplication({nk}))") => Ok(Some(4)),
                                _ => bad("emit"),
                            };
                        }
                    }
                    // 5: range sync
                    if c == format!("letSome(distance)={STORE}.get_farthest_replication_distance()") {
                        return match body.as_slice() {
                            [syn::Stmt::Expr(b, _)] if toks(b) == "self.replication_fetcher.set_replication_distance_range(distance)" => Ok(Some(5)),
                            _ => bad("range sync"),
                        };
                    }
                    // 6: the error is returned at the end
                    if let Some(res) = &n.result {
                        if c == format!("letErr(err)={res}") {
                            return match body.as_slice() {
                                [syn::Stmt::Expr(b, _)] if toks(b) == "returnErr(err.into())" => Ok(Some(6)),
                                _ => bad("final error return"),
                            };
                        }
                    }
                    // 14: too many consecutive disk write errors terminate the node
                    if c == "self.hard_disk_write_error>MAX_CONTINUOUS_HDD_WRITE_ERROR" {
                        return match body.as_slice() {
                            [syn::Stmt::Expr(b, _)] if toks(b).starts_with("self.send_event(NetworkEvent::TerminateNode{") => Ok(Some(14)),
                            _ => bad("terminate"),
                        };
                    }
                    bad("if")
                }
                _ => bad("expression"),
            }
        }
        _ => bad("item or macro"),
    }
}

fn arm_steps(arms: &[syn::Arm], variant: &str) -> Result<Vec<u32>, String> {
    let prefix = format!("LocalSwarmCmd::{variant}");
    let found: Vec<&syn::Arm> = arms
        .iter()
        .filter(|a| {
            let p = toks(&a.pat);
            p == prefix || p.starts_with(&format!("{prefix}{{")) || p.starts_with(&format!("{prefix}("))
        })
        .collect();
    let arm = match found.as_slice() {
        [a] => *a,
        other => return Err(format!("handle_local_cmd: {} arms for {variant}", other.len())),
    };
    if arm.guard.is_some() {
        return Err(format!("{variant}: guarded arm"));
    }
    let block = match &*arm.body {
        syn::Expr::Block(b) => &b.block,
        _ => return Err(format!("{variant}: arm body is not a block")),
    };
    let mut names = Names::default();
    let mut steps = vec![];
    for s in &block.stmts {
        if let Some(c) = classify(s, &mut names, variant)? {
            steps.push(c);
        }
    }
    Ok(steps)
}

/// the `match cmd { .. }` of `handle_local_cmd`
fn cmd_match(f: &syn::ImplItemFn) -> Result<&syn::ExprMatch, String> {
    let mut found = vec![];
    for s in &f.block.stmts {
        if let syn::Stmt::Expr(syn::Expr::Match(m), _) = s {
            if toks(&m.expr) == "cmd" {
                found.push(m);
            }
        }
    }
    match found.as_slice() {
        [m] => Ok(*m),
        other => Err(format!("handle_local_cmd: expected one top-level `match cmd`, found {}", other.len())),
    }
}

fn rs_files(dir: &Path, out: &mut Vec<PathBuf>) -> Result<(), String> {
    for e in std::fs::read_dir(dir).map_err(|e| format!("{}: {e}", dir.display()))? {
        let p = e.map_err(|e| e.to_string())?.path();
        if p.is_dir() {
            if p.file_name().map(|n| n == "verif").unwrap_or(false) {
                continue;
            }
            rs_files(&p, out)?;
        } else if p.extension().map(|x| x == "rs").unwrap_or(false) {
            out.push(p);
        }
    }
    Ok(())
}

fn lean_list(v: &[u32]) -> String {
    format!("[{}]", v.iter().map(|x| x.to_string()).collect::<Vec<_>>().join(", "))
}

pub fn generate(repo: &PathBuf) -> Result<String, String> {
    let rel = "ant-networking/src/cmd.rs";
    let file = parse_file(&repo.join(rel))?;
    let f = impl_fn(&file, "SwarmDriver", None, "handle_local_cmd")?;
    let m = cmd_match(f)?;
    let put = arm_steps(&m.arms, "PutLocalRecord")?;
    let add = arm_steps(&m.arms, "AddLocalRecordAsStored")?;
    let rem = arm_steps(&m.arms, "RemoveFailedLocalRecord")?;
    let done = arm_steps(&m.arms, "FetchCompleted")?;
    let clean = arm_steps(&m.arms, "TriggerIrrelevantRecordCleanup")?;

    // sanity of what the model can interpret: a code may appear once per arm, and only in the arm it belongs to
    let allowed: [(&str, &[u32], &[u32]); 5] = [
        ("PutLocalRecord", &put, &[0, 1, 2, 3, 4, 5, 6]),
        ("AddLocalRecordAsStored", &add, &[10]),
        ("RemoveFailedLocalRecord", &rem, &[11, 14]),
        ("FetchCompleted", &done, &[12, 4]),
        ("TriggerIrrelevantRecordCleanup", &clean, &[13]),
    ];
    for (name, steps, ok) in allowed {
        for (i, c) in steps.iter().enumerate() {
            if !ok.contains(c) {
                return Err(format!("{name}: step {c} does not belong to this handler"));
            }
            if steps[..i].contains(c) {
                return Err(format!("{name}: step {c} occurs twice"));
            }
        }
    }

    // every call into the fetcher from the rest of the crate is a call site the composed model knows
    let mut files = vec![];
    rs_files(&repo.join("ant-networking/src"), &mut files)?;
    files.sort();
    let mut sites: Vec<(String, String)> = vec![];
    for p in &files {
        let name = p.strip_prefix(repo.join("ant-networking/src")).map_err(|e| e.to_string())?.to_string_lossy().to_string();
        if name == "replication_fetcher.rs" {
            continue;
        }
        let src = std::fs::read_to_string(p).map_err(|e| format!("{}: {e}", p.display()))?;
        if !src.contains("replication_fetcher") {
            continue;
        }
        // textual (the run loop's call sits inside `tokio::select!`, which syn does not parse), comments removed
        let code = regex::Regex::new(r"(?s)/\*.*?\*/").expect("regex").replace_all(&src, "").to_string();
        let code = regex::Regex::new(r"//[^\n]*").expect("regex").replace_all(&code, "").to_string();
        for c in regex::Regex::new(r"replication_fetcher\s*\.\s*(\w+)\s*\(").expect("regex").captures_iter(&code) {
            sites.push((name.clone(), c[1].to_string()));
        }
    }
    sites.sort();
    let mut want: Vec<(String, String)> = vec![
        ("cmd.rs".into(), "notify_about_new_put".into()),
        ("cmd.rs".into(), "notify_fetch_early_completed".into()),
        ("cmd.rs".into(), "set_replication_distance_range".into()),
        ("driver.rs".into(), "set_replication_distance_range".into()),
        ("event/request_response.rs".into(), "add_keys".into()),
    ];
    if put.contains(&2) {
        want.push(("cmd.rs".into(), "set_farthest_on_full".into()));
    }
    want.sort();
    if sites != want {
        return Err(format!("calls into the replication fetcher are not the modelled ones: found {sites:?}, modelled {want:?}"));
    }
    let n_setfar = sites.iter().filter(|(_, c)| c == "set_farthest_on_full").count();

    let mut s = header(&format!("{rel} (+ scan of ant-networking/src for calls into the replication fetcher)"));
    s.push_str("namespace SafeNet.Gen.FullGlue\n");
    s.push_str("/-- `LocalSwarmCmd::PutLocalRecord` handler, effective statements in source order: 0 record type from the header (early `InCorrectRecordHeader` return), 1 `put_verified`, 2 on `Err(StoreError::MaxRecords)`: `replication_fetcher.set_farthest_on_full(store.get_farthest())`, 3 `notify_about_new_put(key, record_type)`, 4 emit `KeysToFetchForReplication` when non-empty, 5 copy the store's distance range to the fetcher, 6 return the `put_verified` error -/\n");
    s.push_str(&format!("def putLocalSteps : List Nat := {}\n", lean_list(&put)));
    s.push_str("/-- `AddLocalRecordAsStored`: 10 `mark_as_stored` -/\n");
    s.push_str(&format!("def addStoredSteps : List Nat := {}\n", lean_list(&add)));
    s.push_str("/-- `RemoveFailedLocalRecord`: 11 `RecordStore::remove`, 14 terminate after too many consecutive write errors -/\n");
    s.push_str(&format!("def removeFailedSteps : List Nat := {}\n", lean_list(&rem)));
    s.push_str("/-- `FetchCompleted`: 12 `notify_fetch_early_completed`, 4 emit -/\n");
    s.push_str(&format!("def fetchCompletedSteps : List Nat := {}\n", lean_list(&done)));
    s.push_str("/-- `TriggerIrrelevantRecordCleanup`: 13 `cleanup_irrelevant_records` -/\n");
    s.push_str(&format!("def cleanupSteps : List Nat := {}\n", lean_list(&clean)));
    s.push_str("/-- call sites of `set_farthest_on_full` in ant-networking/src outside replication_fetcher.rs (all inside the `PutLocalRecord` arm; the bound is never cleared) -/\n");
    s.push_str(&format!("def setFarthestCallSites : Nat := {n_setfar}\n"));
    s.push_str("end SafeNet.Gen.FullGlue\n");
    Ok(s)
}
