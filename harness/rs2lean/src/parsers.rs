//! C17: what the parsers of untrusted text/bytes do with lengths, slices and fixed-width integers.
//! Emits `Gen/Parsers.lean`:
//!   * constants (`XOR_NAME_LEN`, `PK_SIZE`, `SALT_LENGTH`, `NONCE_LENGTH`, `RecordHeader::SIZE`, bootstrap limits),
//!   * for `RegisterAddress::from_hex`, `decrypt_private_key`, `RecordHeader::from_record`,
//!     `try_deserialize_record`: the length guards and slice expressions in source order (`List Step`),
//!   * for `PortRange::validate` and `BootstrapAddr::failure_rate`: the integer expression with the
//!     operand widths (`AExp`), for `increment_port_option` whether the `+ 1` is checked,
//!   * for `PortRange::parse`: integer type, split character, part count, rejecting comparison,
//!   * the `RecordKind` tag table,
//!   * for every routine: the list of syntactic panic sites that are not modelled
//!     (`unwrap`/`expect`/`panic!`/indexing/non-constant arithmetic) — expected to be empty.
use crate::util::*;
use quote::ToTokens;
use std::path::PathBuf;
use syn::visit::Visit;

#[path = "parsers_ext.rs"]
mod ext;
#[path = "parsers_r6.rs"]
mod r6;

fn toks<T: ToTokens>(t: &T) -> String {
    t.to_token_stream().to_string().replace(' ', "")
}

/// version of a crate in /repo/Cargo.lock
fn lock_version(repo: &PathBuf, krate: &str) -> Result<String, String> {
    let lock = std::fs::read_to_string(repo.join("Cargo.lock")).map_err(|e| format!("Cargo.lock: {e}"))?;
    let mut it = lock.lines();
    while let Some(l) = it.next() {
        if l.trim() == format!("name = \"{krate}\"") {
            if let Some(v) = it.next() {
                if let Some(v) = v.trim().strip_prefix("version = \"") {
                    return Ok(v.trim_end_matches('"').to_string());
                }
            }
        }
    }
    Err(format!("{krate} not in Cargo.lock"))
}

/// `pub const NAME: usize = N;` from a registry crate's lib.rs
fn registry_const(repo: &PathBuf, krate: &str, name: &str) -> Result<u128, String> {
    let ver = lock_version(repo, krate)?;
    let home = std::env::var("CARGO_HOME").unwrap_or_else(|_| format!("{}/.cargo", std::env::var("HOME").unwrap_or_else(|_| "/root".into())));
    let src = PathBuf::from(home).join("registry/src");
    for d in std::fs::read_dir(&src).map_err(|e| format!("{}: {e}", src.display()))? {
        let p = d.map_err(|e| e.to_string())?.path().join(format!("{krate}-{ver}/src/lib.rs"));
        if p.exists() {
            return const_value(&parse_file(&p)?, name);
        }
    }
    Err(format!("{krate}-{ver} not found in the cargo registry"))
}

// ---------------------------------------------------------------- panic sites

struct Sites<'a> {
    out: Vec<String>,
    env: &'a dyn Fn(&str) -> Option<u128>,
    skip_index: bool,
    skip_arith: bool,
    in_arith: usize,
}

/// Methods that panic on some argument whatever the receiver type is known to be, by name only (a syntactic
/// scanner has no types: a `remove` on a map is reported like a `remove` on a `Vec`; each routine's rule says
/// which reported sites it models).  `unwrap`/`expect` family first, then slice / collection / integer methods.
const PANICKING_METHODS: &[&str] = &[
    "unwrap", "expect", "unwrap_err", "expect_err", "unwrap_unchecked",
    "copy_from_slice", "clone_from_slice", "split_at", "split_at_mut", "split_off", "swap", "swap_remove", "remove", "drain",
    "rotate_left", "rotate_right", "chunks", "chunks_exact", "windows", "step_by", "pow", "abs", "div_euclid", "rem_euclid",
    "next_power_of_two", "from_utf8_unchecked", "borrow_mut",
];
const PANICKING_MACROS: &[&str] = &["panic", "unreachable", "assert", "assert_eq", "assert_ne", "debug_assert", "debug_assert_eq", "debug_assert_ne", "todo", "unimplemented"];

impl<'a> Sites<'a> {
    /// Token-level scan of a macro argument list that is not a plain expression list (tracing's `?x` / `%x` /
    /// `name = value` fields, `vec![x; n]`, patterns of `matches!`): over-approximates — every `[..]` group in
    /// postfix position is an index, every listed method name after a `.` a call, every `+ - * / %` between two
    /// operands an arithmetic site, nested macros are scanned recursively.
    fn scan_tokens(&mut self, ts: proc_macro2::TokenStream) {
        use proc_macro2::{Delimiter, TokenTree as TT};
        let toks: Vec<TT> = ts.into_iter().collect();
        let operand_before = |i: usize| -> bool {
            i > 0 && match &toks[i - 1] {
                TT::Ident(_) | TT::Literal(_) => true,
                TT::Group(g) => matches!(g.delimiter(), Delimiter::Parenthesis | Delimiter::Bracket),
                TT::Punct(p) => p.as_char() == '?',
            }
        };
        for i in 0..toks.len() {
            match &toks[i] {
                TT::Group(g) => {
                    if g.delimiter() == Delimiter::Bracket && operand_before(i) && !self.skip_index {
                        self.out.push("index".into());
                    }
                    self.scan_tokens(g.stream());
                }
                TT::Ident(id) => {
                    let name = id.to_string();
                    let after_dot = i > 0 && matches!(&toks[i - 1], TT::Punct(p) if p.as_char() == '.');
                    let called = matches!(toks.get(i + 1), Some(TT::Group(g)) if g.delimiter() == Delimiter::Parenthesis);
                    if after_dot && called && PANICKING_METHODS.contains(&name.as_str()) {
                        self.out.push(name.clone());
                    }
                    let is_macro = matches!(toks.get(i + 1), Some(TT::Punct(p)) if p.as_char() == '!') && matches!(toks.get(i + 2), Some(TT::Group(_)));
                    if is_macro && PANICKING_MACROS.contains(&name.as_str()) {
                        self.out.push(format!("{name}!"));
                    }
                }
                TT::Punct(p) => {
                    let c = p.as_char();
                    let compound = matches!(toks.get(i + 1), Some(TT::Punct(q)) if q.as_char() == '=' && p.spacing() == proc_macro2::Spacing::Joint);
                    let arrow = c == '-' && matches!(toks.get(i + 1), Some(TT::Punct(q)) if q.as_char() == '>');
                    if ['+', '-', '*', '/', '%'].contains(&c) && operand_before(i) && !self.skip_arith && !arrow && (compound || toks.get(i + 1).is_some()) {
                        // constant-only arithmetic cannot be told apart at token level: reported as well
                        self.out.push(format!("arith:{c}"));
                    }
                }
                TT::Literal(_) => {}
            }
        }
    }
}

impl<'ast, 'a> Visit<'ast> for Sites<'a> {
    fn visit_expr_method_call(&mut self, m: &'ast syn::ExprMethodCall) {
        let n = m.method.to_string();
        if PANICKING_METHODS.contains(&n.as_str()) {
            self.out.push(n);
        }
        syn::visit::visit_expr_method_call(self, m);
    }
    fn visit_macro(&mut self, m: &'ast syn::Macro) {
        let n = m.path.segments.last().map(|s| s.ident.to_string()).unwrap_or_default();
        if PANICKING_MACROS.contains(&n.as_str()) {
            self.out.push(format!("{n}!"));
        }
        // the arguments of a macro are a token stream to syn: parse them as an expression list where that is what
        // they are (format-like macros, `eyre!`, `vec![a, b]`), scan the tokens otherwise
        use syn::parse::Parser;
        let parser = syn::punctuated::Punctuated::<syn::Expr, syn::Token![,]>::parse_terminated;
        match parser.parse2(m.tokens.clone()) {
            Ok(exprs) => {
                for e in exprs.iter() {
                    self.visit_expr(e);
                }
            }
            Err(_) => self.scan_tokens(m.tokens.clone()),
        }
    }
    fn visit_expr_index(&mut self, i: &'ast syn::ExprIndex) {
        if !self.skip_index {
            self.out.push("index".into());
        }
        syn::visit::visit_expr_index(self, i);
    }
    fn visit_expr_binary(&mut self, b: &'ast syn::ExprBinary) {
        use syn::BinOp::*;
        let arith = matches!(
            b.op,
            Add(_) | Sub(_) | Mul(_) | Div(_) | Rem(_) | Shl(_) | Shr(_) | AddAssign(_) | SubAssign(_) | MulAssign(_) | DivAssign(_) | RemAssign(_)
        );
        if arith && eval_const(&syn::Expr::Binary(b.clone()), self.env).is_ok() {
            return; // constant expression
        }
        if arith && !self.skip_arith {
            // one report per arithmetic expression tree; the operands are still searched for other kinds of sites
            if self.in_arith == 0 {
                self.out.push(format!("arith:{}", toks(&b.op)));
            }
            self.in_arith += 1;
            syn::visit::visit_expr_binary(self, b);
            self.in_arith -= 1;
            return;
        }
        syn::visit::visit_expr_binary(self, b);
    }
}

fn sites(block: &syn::Block, env: &dyn Fn(&str) -> Option<u128>, skip_index: bool, skip_arith: bool) -> Vec<String> {
    let mut s = Sites { out: vec![], env, skip_index, skip_arith, in_arith: 0 };
    s.visit_block(block);
    s.out
}

fn lean_strs(v: &[String]) -> String {
    format!("[{}]", v.iter().map(|s| format!("{s:?}")).collect::<Vec<_>>().join(", "))
}

// ---------------------------------------------------------------- guards and slices

#[derive(Debug, Clone)]
enum StepR {
    Guard(&'static str, u128),
    Slice(Option<u128>, Option<u128>, Option<u128>),
}

fn cmp_name(op: &syn::BinOp, negate: bool) -> Result<&'static str, String> {
    use syn::BinOp::*;
    Ok(match (op, negate) {
        (Lt(_), false) | (Ge(_), true) => "lt",
        (Le(_), false) | (Gt(_), true) => "le",
        (Gt(_), false) | (Le(_), true) => "gt",
        (Ge(_), false) | (Lt(_), true) => "ge",
        (Eq(_), false) | (Ne(_), true) => "eq",
        (Ne(_), false) | (Eq(_), true) => "ne",
        _ => return Err(format!("unexpected comparison {}", toks(op))),
    })
}

fn is_len_call(e: &syn::Expr) -> bool {
    matches!(e, syn::Expr::MethodCall(m) if m.method == "len" && m.args.is_empty())
}

/// `X.len() <op> <const>`
fn len_cmp(cond: &syn::Expr, env: &dyn Fn(&str) -> Option<u128>, negate: bool) -> Result<(&'static str, u128), String> {
    if let syn::Expr::Binary(b) = cond {
        if is_len_call(&b.left) {
            return Ok((cmp_name(&b.op, negate)?, eval_const(&b.right, env)?));
        }
    }
    Err(format!("expected `<x>.len() <cmp> <const>`, found `{}`", toks(cond)))
}

fn block_returns_err(b: &syn::Block) -> bool {
    if b.stmts.len() != 1 {
        return false;
    }
    let e = match &b.stmts[0] {
        syn::Stmt::Expr(e, _) => e,
        _ => return false,
    };
    match e {
        syn::Expr::Return(r) => r.expr.as_ref().map(|x| toks(x).starts_with("Err(")).unwrap_or(false),
        _ => false,
    }
}

struct IndexFinder<'a> {
    found: Vec<&'a syn::ExprIndex>,
    lens: usize,
}
impl<'ast> Visit<'ast> for IndexFinder<'ast> {
    fn visit_expr_index(&mut self, i: &'ast syn::ExprIndex) {
        self.found.push(i);
        syn::visit::visit_expr_index(self, i);
    }
    fn visit_expr_method_call(&mut self, m: &'ast syn::ExprMethodCall) {
        if m.method == "len" {
            self.lens += 1;
        }
        syn::visit::visit_expr_method_call(self, m);
    }
}

fn range_bounds(i: &syn::ExprIndex, env: &dyn Fn(&str) -> Option<u128>) -> Result<(Option<u128>, Option<u128>), String> {
    match &*i.index {
        syn::Expr::Range(r) => {
            if !matches!(r.limits, syn::RangeLimits::HalfOpen(_)) {
                return Err("inclusive range in slice".into());
            }
            let lo = match &r.start { Some(e) => Some(eval_const(e, env)?), None => None };
            let hi = match &r.end { Some(e) => Some(eval_const(e, env)?), None => None };
            Ok((lo, hi))
        }
        other => Err(format!("non-range index `{}`", toks(other))),
    }
}

/// array length of a `let x: [u8; N] = …` annotation
fn let_array_len(l: &syn::Local, env: &dyn Fn(&str) -> Option<u128>) -> Result<Option<u128>, String> {
    if let syn::Pat::Type(pt) = &l.pat {
        if let syn::Type::Array(a) = &*pt.ty {
            return Ok(Some(eval_const(&a.len, env)?));
        }
    }
    Ok(None)
}

fn read_steps(block: &syn::Block, env: &dyn Fn(&str) -> Option<u128>, what: &str) -> Result<Vec<StepR>, String> {
    let mut steps = vec![];
    for st in &block.stmts {
        match st {
            // if x.len() <cmp> N { return Err(..) }
            syn::Stmt::Expr(syn::Expr::If(i), _) => {
                let mut f = IndexFinder { found: vec![], lens: 0 };
                f.visit_expr_if(i);
                if f.found.is_empty() && f.lens == 0 {
                    continue;
                }
                if i.else_branch.is_none() && block_returns_err(&i.then_branch) && f.found.is_empty() {
                    let (c, n) = len_cmp(&i.cond, env, false).map_err(|e| format!("{what}: {e}"))?;
                    steps.push(StepR::Guard(c, n));
                } else {
                    return Err(format!("{what}: unexpected `if` involving a length or an index: `{}`", toks(&i.cond)));
                }
            }
            syn::Stmt::Local(l) => {
                let Some(init) = &l.init else { continue };
                // let bytes = if x.len() > C { &x[C..] } else { return Err(..) };
                if let syn::Expr::If(i) = &*init.expr {
                    let mut f = IndexFinder { found: vec![], lens: 0 };
                    f.visit_expr_if(i);
                    if f.found.is_empty() && f.lens == 0 {
                        continue;
                    }
                    let else_ok = match &i.else_branch {
                        Some((_, e)) => matches!(&**e, syn::Expr::Block(b) if block_returns_err(&b.block)),
                        None => false,
                    };
                    if !else_ok || f.found.len() != 1 {
                        return Err(format!("{what}: unexpected `let … = if` shape"));
                    }
                    let (c, n) = len_cmp(&i.cond, env, true).map_err(|e| format!("{what}: {e}"))?;
                    steps.push(StepR::Guard(c, n));
                    let (lo, hi) = range_bounds(f.found[0], env).map_err(|e| format!("{what}: {e}"))?;
                    steps.push(StepR::Slice(lo, hi, None));
                    continue;
                }
                let mut f = IndexFinder { found: vec![], lens: 0 };
                f.visit_expr(&init.expr);
                let arr = if toks(&init.expr).contains(".try_into()") { let_array_len(l, env)? } else { None };
                for ix in f.found {
                    let (lo, hi) = range_bounds(ix, env).map_err(|e| format!("{what}: {e}"))?;
                    steps.push(StepR::Slice(lo, hi, arr));
                }
            }
            syn::Stmt::Expr(e, _) => {
                if matches!(e, syn::Expr::Match(_) | syn::Expr::Loop(_) | syn::Expr::While(_) | syn::Expr::ForLoop(_)) {
                    let mut f = IndexFinder { found: vec![], lens: 0 };
                    f.visit_expr(e);
                    if !f.found.is_empty() {
                        return Err(format!("{what}: index expression inside match/loop"));
                    }
                    continue;
                }
                let mut f = IndexFinder { found: vec![], lens: 0 };
                f.visit_expr(e);
                for ix in f.found {
                    let (lo, hi) = range_bounds(ix, env).map_err(|e| format!("{what}: {e}"))?;
                    steps.push(StepR::Slice(lo, hi, None));
                }
            }
            _ => {}
        }
    }
    Ok(steps)
}

fn lean_opt(o: Option<u128>) -> String {
    match o {
        Some(n) => format!("(some {n})"),
        None => "none".into(),
    }
}

fn lean_steps(v: &[StepR]) -> String {
    let items: Vec<String> = v
        .iter()
        .map(|s| match s {
            StepR::Guard(c, n) => format!(".guard .{c} {n}"),
            StepR::Slice(lo, hi, arr) => format!(".slice {} {} {}", lean_opt(*lo), lean_opt(*hi), lean_opt(*arr)),
        })
        .collect();
    format!("[{}]", items.join(", "))
}

// ---------------------------------------------------------------- integer expressions

fn uint_width(name: &str) -> Option<u32> {
    match name {
        "u8" => Some(8),
        "u16" => Some(16),
        "u32" => Some(32),
        "u64" => Some(64),
        "usize" => Some(64),
        "u128" => Some(128),
        _ => None,
    }
}

/// Translate into the `AExp` sub-language; returns (Lean term, width in bits; 0 = untyped literal).
fn aexp(e: &syn::Expr, vars: &[(String, u32)]) -> Result<(String, u32), String> {
    let var = |name: &str| -> Result<(String, u32), String> {
        vars.iter()
            .position(|(n, _)| n == name)
            .map(|i| (format!("(.var {i})"), vars[i].1))
            .ok_or_else(|| format!("unknown variable `{name}` in integer expression"))
    };
    let unify = |a: u32, b: u32| -> Result<u32, String> {
        match (a, b) {
            (0, w) | (w, 0) => Ok(w),
            (x, y) if x == y => Ok(x),
            (x, y) => Err(format!("operands of different widths u{x}/u{y}")),
        }
    };
    match e {
        syn::Expr::Paren(p) => aexp(&p.expr, vars),
        syn::Expr::Group(p) => aexp(&p.expr, vars),
        syn::Expr::Reference(r) => aexp(&r.expr, vars),
        syn::Expr::Unary(u) if matches!(u.op, syn::UnOp::Deref(_)) => aexp(&u.expr, vars),
        syn::Expr::Lit(l) => match &l.lit {
            syn::Lit::Int(i) => {
                let w = uint_width(i.suffix()).unwrap_or(0);
                Ok((format!("(.lit {})", i.base10_parse::<u128>().map_err(|e| e.to_string())?), w))
            }
            _ => Err("non-integer literal".into()),
        },
        syn::Expr::Path(p) => var(&p.path.segments.last().map(|s| s.ident.to_string()).unwrap_or_default()),
        syn::Expr::Field(f) => match &f.member {
            syn::Member::Named(n) => var(&n.to_string()),
            _ => Err("tuple field".into()),
        },
        syn::Expr::Call(c) => {
            let f = toks(&c.func);
            if let Some(ty) = f.strip_suffix("::from") {
                if let (Some(w), 1) = (uint_width(ty), c.args.len()) {
                    let (t, iw) = aexp(&c.args[0], vars)?;
                    if iw > w {
                        return Err(format!("`{f}` of a wider value"));
                    }
                    return Ok((format!("(.widen {w} {t})"), w));
                }
            }
            Err(format!("unsupported call `{f}` in integer expression"))
        }
        syn::Expr::Cast(c) => {
            let w = uint_width(&toks(&c.ty)).ok_or_else(|| format!("cast to `{}`", toks(&c.ty)))?;
            let (t, iw) = aexp(&c.expr, vars)?;
            if iw > w {
                return Err(format!("narrowing cast to u{w}"));
            }
            Ok((format!("(.widen {w} {t})"), w))
        }
        syn::Expr::Binary(b) => {
            let (l, lw) = aexp(&b.left, vars)?;
            let (r, rw) = aexp(&b.right, vars)?;
            let w = unify(lw, rw)?;
            if w == 0 {
                return Err("arithmetic on untyped literals only".into());
            }
            let op = match b.op {
                syn::BinOp::Add(_) => "add",
                syn::BinOp::Sub(_) => "sub",
                syn::BinOp::Mul(_) => "mul",
                _ => return Err(format!("unsupported operator `{}`", toks(&b.op))),
            };
            Ok((format!("(.{op} {w} {l} {r})"), w))
        }
        syn::Expr::MethodCall(m) if m.args.len() == 1 => {
            let (l, lw) = aexp(&m.receiver, vars)?;
            let (r, rw) = aexp(&m.args[0], vars)?;
            let w = unify(lw, rw)?;
            match m.method.to_string().as_str() {
                "saturating_sub" => Ok((format!("(.satSub {l} {r})"), w)),
                "saturating_add" => Ok((format!("(.satAdd {w} {l} {r})"), w)),
                other => Err(format!("unsupported method `{other}` in integer expression")),
            }
        }
        other => Err(format!("unsupported integer expression `{}`", toks(other))),
    }
}

struct LetFinder<'a> {
    name: &'a str,
    found: Option<syn::Expr>,
}
impl<'ast, 'a> Visit<'ast> for LetFinder<'a> {
    fn visit_local(&mut self, l: &'ast syn::Local) {
        let id = match &l.pat {
            syn::Pat::Ident(i) => Some(i.ident.to_string()),
            syn::Pat::Type(t) => match &*t.pat {
                syn::Pat::Ident(i) => Some(i.ident.to_string()),
                _ => None,
            },
            _ => None,
        };
        if id.as_deref() == Some(self.name) && self.found.is_none() {
            self.found = l.init.as_ref().map(|i| (*i.expr).clone());
        }
        syn::visit::visit_local(self, l);
    }
}

struct AddFinder {
    found: Vec<syn::Expr>,
}
impl<'ast> Visit<'ast> for AddFinder {
    fn visit_expr_binary(&mut self, b: &'ast syn::ExprBinary) {
        if matches!(b.op, syn::BinOp::Add(_) | syn::BinOp::Sub(_) | syn::BinOp::Mul(_)) {
            self.found.push(syn::Expr::Binary(b.clone()));
            return;
        }
        syn::visit::visit_expr_binary(self, b);
    }
}

struct ArmFinder {
    range_binders: Option<Vec<String>>,
}
impl<'ast> Visit<'ast> for ArmFinder {
    fn visit_arm(&mut self, a: &'ast syn::Arm) {
        if let syn::Pat::TupleStruct(ts) = &a.pat {
            if ts.path.segments.last().map(|s| s.ident == "Range").unwrap_or(false) {
                let names: Vec<String> = ts.elems.iter().map(|p| toks(p)).collect();
                self.range_binders = Some(names);
            }
        }
        syn::visit::visit_arm(self, a);
    }
}

struct CondFinder {
    conds: Vec<syn::Expr>,
}
impl<'ast> Visit<'ast> for CondFinder {
    fn visit_expr_if(&mut self, i: &'ast syn::ExprIf) {
        self.conds.push((*i.cond).clone());
        syn::visit::visit_expr_if(self, i);
    }
}

struct ParseTypes {
    tys: Vec<String>,
    split: Vec<String>,
}
impl<'ast> Visit<'ast> for ParseTypes {
    fn visit_expr_method_call(&mut self, m: &'ast syn::ExprMethodCall) {
        if m.method == "parse" {
            self.tys.push(m.turbofish.as_ref().map(|t| toks(&t.args)).unwrap_or_else(|| "?".into()));
        }
        if m.method == "split" && m.args.len() == 1 {
            self.split.push(toks(&m.args[0]));
        }
        syn::visit::visit_expr_method_call(self, m);
    }
    fn visit_expr_call(&mut self, c: &'ast syn::ExprCall) {
        let f = toks(&c.func);
        if let Some(t) = f.strip_suffix("::from_str") {
            self.tys.push(t.to_string());
        }
        syn::visit::visit_expr_call(self, c);
    }
}

fn struct_field_width(file: &syn::File, st: &str, field: &str) -> Result<u32, String> {
    for it in &file.items {
        if let syn::Item::Struct(s) = it {
            if s.ident == st {
                for f in &s.fields {
                    if f.ident.as_ref().map(|i| i == field).unwrap_or(false) {
                        return uint_width(&toks(&f.ty)).ok_or_else(|| format!("{st}.{field}: not an unsigned integer"));
                    }
                }
            }
        }
    }
    Err(format!("{st}.{field} not found"))
}

fn enum_variant_widths(file: &syn::File, en: &str, variant: &str) -> Result<Vec<u32>, String> {
    for it in &file.items {
        if let syn::Item::Enum(e) = it {
            if e.ident == en {
                for v in &e.variants {
                    if v.ident == variant {
                        return v
                            .fields
                            .iter()
                            .map(|f| uint_width(&toks(&f.ty)).ok_or_else(|| format!("{en}::{variant}: field is not an unsigned integer")))
                            .collect();
                    }
                }
            }
        }
    }
    Err(format!("{en}::{variant} not found"))
}

// ---------------------------------------------------------------- generate

pub fn generate(repo: &PathBuf) -> Result<String, String> {
    let xor_len = registry_const(repo, "xor_name", "XOR_NAME_LEN")?;
    let pk_size = registry_const(repo, "blsttc", "PK_SIZE")?;
    let no_env = |_: &str| -> Option<u128> { None };
    let mut s = String::from("-- GENERATED by rs2lean (harness/rs2lean/src/parsers.rs) from the Rust sources named below on every check run — do not edit.\n");
    s.push_str("import SafeNet.Base.Panic\nnamespace SafeNet.Gen.Parsers\nopen SafeNet.Panic\n\n");
    s.push_str(&format!("/-- `xor_name::XOR_NAME_LEN` -/\ndef xorNameLen : Nat := {xor_len}\n"));
    s.push_str(&format!("/-- `blsttc::PK_SIZE` -/\ndef pkSize : Nat := {pk_size}\n\n"));

    // --- RegisterAddress::from_hex
    {
        let rel = "ant-registers/src/address.rs";
        let file = parse_file(&repo.join(rel))?;
        let f = impl_fn(&file, "RegisterAddress", None, "from_hex")?;
        let env = |n: &str| -> Option<u128> {
            match n {
                "XOR_NAME_LEN" => Some(xor_len),
                "PK_SIZE" => Some(pk_size),
                _ => None,
            }
        };
        let steps = read_steps(&f.block, &env, "RegisterAddress::from_hex")?;
        if !calls_in_block(&f.block).paths.iter().any(|p| p == "hex::decode") {
            return Err("RegisterAddress::from_hex: no hex::decode".into());
        }
        s.push_str(&format!("/-- {rel} `RegisterAddress::from_hex`: guards and slices over the decoded bytes, in source order -/\ndef regFromHexSteps : List Step := {}\n", lean_steps(&steps)));
        s.push_str(&format!("def regFromHexSites : List String := {}\n", lean_strs(&sites(&f.block, &env, true, false))));
        let th = impl_fn(&file, "RegisterAddress", None, "to_hex")?;
        s.push_str(&format!("def regToHexSites : List String := {}\n\n", lean_strs(&sites(&th.block, &env, false, false))));
    }
    // --- ScratchpadAddress::from_hex
    {
        let rel = "ant-protocol/src/storage/address/scratchpad.rs";
        let file = parse_file(&repo.join(rel))?;
        let f = impl_fn(&file, "ScratchpadAddress", None, "from_hex")?;
        let delegates = calls_in_block(&f.block).paths.iter().any(|p| p == "PublicKey::from_hex");
        s.push_str(&format!("/-- {rel} `ScratchpadAddress::from_hex` delegates to `PublicKey::from_hex` -/\ndef scratchpadDelegatesToPk : Bool := {}\n", lean_bool(delegates)));
        s.push_str(&format!("def scratchpadFromHexSites : List String := {}\n\n", lean_strs(&sites(&f.block, &no_env, false, false))));
    }
    // --- DataMapChunk::from_hex, str_to_addr
    {
        let rel = "autonomi/src/client/data/mod.rs";
        let file = parse_file(&repo.join(rel))?;
        let f = impl_fn(&file, "DataMapChunk", None, "from_hex")?;
        s.push_str(&format!("/-- {rel} `DataMapChunk::from_hex` / `to_hex` -/\ndef dataMapFromHexSites : List String := {}\n", lean_strs(&sites(&f.block, &no_env, false, false))));
        let f = impl_fn(&file, "DataMapChunk", None, "to_hex")?;
        s.push_str(&format!("def dataMapToHexSites : List String := {}\n", lean_strs(&sites(&f.block, &no_env, false, false))));
        let rel = "autonomi/src/client/address.rs";
        let file = parse_file(&repo.join(rel))?;
        let f = free_fn(&file, "str_to_addr")?;
        let c = calls_in_block(&f.block);
        if !(c.paths.iter().any(|p| p == "hex::decode") && c.methods.iter().any(|m| m == "try_into")) {
            return Err("str_to_addr: expected hex::decode followed by try_into".into());
        }
        s.push_str(&format!("/-- {rel} `str_to_addr` (hex::decode then `try_into::<[u8; XOR_NAME_LEN]>`) -/\ndef strToAddrSites : List String := {}\n\n", lean_strs(&sites(&f.block, &no_env, false, false))));
    }
    // --- decrypt_private_key
    {
        let rel = "ant-cli/src/wallet/encryption.rs";
        let file = parse_file(&repo.join(rel))?;
        let salt = const_value(&file, "SALT_LENGTH")?;
        let nonce = const_value(&file, "NONCE_LENGTH")?;
        let env = |n: &str| -> Option<u128> {
            match n {
                "SALT_LENGTH" => Some(salt),
                "NONCE_LENGTH" => Some(nonce),
                _ => None,
            }
        };
        let f = free_fn(&file, "decrypt_private_key")?;
        let steps = read_steps(&f.block, &env, "decrypt_private_key")?;
        let st = sites(&f.block, &env, true, false);
        let c = calls_in_block(&f.block);
        if !c.paths.iter().any(|p| p == "String::from_utf8") {
            return Err("decrypt_private_key: expected String::from_utf8 on the opened plaintext".into());
        }
        let utf8_checked = !st.iter().any(|x| x == "unwrap" || x == "expect");
        s.push_str(&format!("/-- {rel} -/\ndef saltLength : Nat := {salt}\ndef nonceLength : Nat := {nonce}\n"));
        s.push_str(&format!("/-- `decrypt_private_key`: guards and slices over the decoded bytes, in source order -/\ndef decryptSteps : List Step := {}\n", lean_steps(&steps)));
        s.push_str(&format!("def decryptSites : List String := {}\n", lean_strs(&st)));
        s.push_str(&format!("/-- the `String::from_utf8` result is mapped to an error (not `unwrap`/`expect`ed) -/\ndef decryptUtf8Checked : Bool := {}\n\n", lean_bool(utf8_checked)));
    }
    // --- PortRange, helpers
    {
        let rel = "ant-node-manager/src/add_services/config.rs";
        let file = parse_file(&repo.join(rel))?;
        let widths = enum_variant_widths(&file, "PortRange", "Range")?;
        let single = enum_variant_widths(&file, "PortRange", "Single")?;
        if widths.len() != 2 || widths[0] != widths[1] || single != vec![widths[0]] {
            return Err("PortRange: expected Single(uN) / Range(uN, uN)".into());
        }
        let pw = widths[0];
        s.push_str(&format!("/-- {rel}: `PortRange::Single(uN)` / `Range(uN, uN)` -/\ndef portWidth : Nat := {pw}\n"));
        // parse
        let f = impl_fn(&file, "PortRange", None, "parse")?;
        let mut pt = ParseTypes { tys: vec![], split: vec![] };
        pt.visit_block(&f.block);
        if pt.tys.is_empty() || pt.tys.iter().any(|t| uint_width(t) != Some(pw)) {
            return Err(format!("PortRange::parse: integer parses {:?} are not all u{pw}", pt.tys));
        }
        if pt.split.len() != 1 || !pt.split[0].starts_with('\'') {
            return Err(format!("PortRange::parse: expected one split on a char, found {:?}", pt.split));
        }
        let split_char = pt.split[0].trim_matches('\'').chars().next().ok_or("split char")? as u32;
        let mut cf = CondFinder { conds: vec![] };
        cf.visit_block(&f.block);
        let mut parts = None;
        let mut order = None;
        for c in &cf.conds {
            if let syn::Expr::Binary(b) = c {
                if is_len_call(&b.left) {
                    parts = Some((cmp_name(&b.op, false)?, eval_const(&b.right, &no_env)?));
                } else if toks(&b.left) == "start" && toks(&b.right) == "end" {
                    order = Some(cmp_name(&b.op, false)?);
                }
            }
        }
        let (pc, pn) = parts.ok_or("PortRange::parse: no `parts.len() <cmp> N` check")?;
        let oc = order.ok_or("PortRange::parse: no `start <cmp> end` check")?;
        s.push_str(&format!("/-- `PortRange::parse`: split character, the part-count check and the start/end check that reject -/\ndef parseSplitChar : Nat := {split_char}\ndef parsePartsReject : Cmp × Nat := (.{pc}, {pn})\ndef parseOrderReject : Cmp := .{oc}\n"));
        // parts[i] with literal i
        let mut ixf = IndexFinder { found: vec![], lens: 0 };
        ixf.visit_block(&f.block);
        let mut idxs = vec![];
        for ix in &ixf.found {
            if toks(&ix.expr) != "parts" {
                return Err(format!("PortRange::parse: index into `{}`", toks(&ix.expr)));
            }
            idxs.push(eval_const(&ix.index, &no_env).map_err(|e| format!("PortRange::parse: parts[..]: {e}"))?);
        }
        s.push_str(&format!("/-- `parts[i]` accesses after the part-count check -/\ndef parsePartIndexes : List Nat := [{}]\n", idxs.iter().map(|i| i.to_string()).collect::<Vec<_>>().join(", ")));
        s.push_str(&format!("def portRangeParseSites : List String := {}\n", lean_strs(&sites(&f.block, &no_env, true, false))));
        // validate
        let f = impl_fn(&file, "PortRange", None, "validate")?;
        let mut af = ArmFinder { range_binders: None };
        af.visit_block(&f.block);
        let binders = af.range_binders.ok_or("PortRange::validate: no `Self::Range(a, b)` arm")?;
        if binders.len() != 2 {
            return Err("PortRange::validate: Range arm does not bind two names".into());
        }
        let vars = vec![(binders[0].clone(), pw), (binders[1].clone(), pw)];
        let mut lf = LetFinder { name: "port_count", found: None };
        lf.visit_block(&f.block);
        let e = lf.found.ok_or("PortRange::validate: no `let port_count = …`")?;
        let (t, w) = aexp(&e, &vars).map_err(|e| format!("PortRange::validate: {e}"))?;
        s.push_str(&format!("/-- `PortRange::validate`: `let port_count = {}` (var 0 = start, var 1 = end), a u{w} -/\ndef validateCountExpr : AExp := {t}\n", toks(&e)));
        s.push_str(&format!("def validateSites : List String := {}\n", lean_strs(&sites(&f.block, &no_env, false, true))));

        let rel = "ant-node-manager/src/helpers.rs";
        let file = parse_file(&repo.join(rel))?;
        let f = free_fn(&file, "increment_port_option")?;
        let c = calls_in_block(&f.block);
        let checked = c.methods.iter().any(|m| m == "checked_add");
        let plain = c.binops.iter().any(|b| b == "+" || b == "+=");
        if checked == plain || c.methods.iter().any(|m| m.starts_with("wrapping_") || m.starts_with("saturating_") || m.starts_with("overflowing_")) {
            return Err("increment_port_option: expected exactly one of `+` / `checked_add`".into());
        }
        let sig = toks(&f.sig);
        let iw = ["u8", "u16", "u32", "u64"].iter().find(|t| sig.contains(&format!("Option<{t}>"))).and_then(|t| uint_width(t)).ok_or("increment_port_option: signature is not Option<uN>")?;
        s.push_str(&format!("/-- {rel} `increment_port_option`: operand width and whether the `+ 1` is `checked_add` -/\ndef incrementWidth : Nat := {iw}\ndef incrementChecked : Bool := {}\n", lean_bool(checked)));
        s.push_str(&format!("def incrementSites : List String := {}\n", lean_strs(&sites(&f.block, &no_env, false, true))));
        let f = free_fn(&file, "get_start_port_if_applicable")?;
        s.push_str(&format!("def startPortSites : List String := {}\n\n", lean_strs(&sites(&f.block, &no_env, false, false))));
    }
    // --- ant-bootstrap
    {
        let rel = "ant-bootstrap/src/lib.rs";
        let file = parse_file(&repo.join(rel))?;
        let sw = struct_field_width(&file, "BootstrapAddr", "success_count")?;
        let fw = struct_field_width(&file, "BootstrapAddr", "failure_count")?;
        let vars = vec![("success_count".to_string(), sw), ("failure_count".to_string(), fw)];
        let f = impl_fn(&file, "BootstrapAddr", None, "failure_rate")?;
        let mut af = AddFinder { found: vec![] };
        af.visit_block(&f.block);
        if af.found.is_empty() {
            return Err("BootstrapAddr::failure_rate: no integer sum found".into());
        }
        let mut terms = vec![];
        for e in &af.found {
            terms.push(aexp(e, &vars).map_err(|e| format!("BootstrapAddr::failure_rate: {e}"))?);
        }
        if terms.iter().any(|t| t != &terms[0]) {
            return Err("BootstrapAddr::failure_rate: differing integer sub-expressions".into());
        }
        s.push_str(&format!("/-- {rel}: counter width; `failure_rate`'s integer sub-expression `{}` (var 0 = success_count, var 1 = failure_count), a u{} -/\ndef counterWidth : Nat := {sw}\ndef failureSumExpr : AExp := {}\n", toks(&af.found[0]), terms[0].1, terms[0].0));
        s.push_str(&format!("def failureRateSites : List String := {}\n", lean_strs(&sites(&f.block, &no_env, false, true).into_iter().filter(|x| x != "arith:/").collect::<Vec<_>>())));
        let f = impl_fn(&file, "BootstrapAddr", None, "is_reliable")?;
        let c = toks(&f.block);
        let rel_cmp = if c == "{self.success_count>=self.failure_count}" { "ge" } else { return Err(format!("BootstrapAddr::is_reliable: unexpected body {c}")) };
        s.push_str(&format!("/-- `is_reliable`: success_count <cmp> failure_count -/\ndef reliableCmp : Cmp := .{rel_cmp}\n"));
        for (n, def) in [("craft_valid_multiaddr", "craftSites"), ("craft_valid_multiaddr_from_str", "craftFromStrSites")] {
            let f = free_fn(&file, n)?;
            s.push_str(&format!("def {def} : List String := {}\n", lean_strs(&sites(&f.block, &no_env, false, false))));
        }
        let f = impl_fn(&file, "BootstrapAddresses", None, "get_least_faulty")?;
        s.push_str(&format!("def leastFaultySites : List String := {}\n", lean_strs(&sites(&f.block, &no_env, false, false))));

        let rel = "ant-bootstrap/src/cache_store.rs";
        let file = parse_file(&repo.join(rel))?;
        for (ty, n, def) in [("BootstrapCacheStore", "load_cache_data", "loadCacheSites"), ("CacheData", "perform_cleanup", "cleanupSites"), ("CacheData", "try_remove_oldest_peers", "removeOldestSites")] {
            let f = impl_fn(&file, ty, None, n)?;
            let mut st = sites(&f.block, &no_env, false, false);
            if n == "try_remove_oldest_peers" {
                // `remove` is reported by name; here both receivers are hash maps (`HashMap::remove` returns an Option):
                // `self.peers` (field type read from the struct) and the local `peer_last_seen_map` (bound to `HashMap::new()`)
                struct Removes(Vec<String>);
                impl<'ast> Visit<'ast> for Removes {
                    fn visit_expr_method_call(&mut self, m: &'ast syn::ExprMethodCall) {
                        if m.method == "remove" {
                            self.0.push(toks(&m.receiver));
                        }
                        syn::visit::visit_expr_method_call(self, m);
                    }
                }
                let mut rm = Removes(vec![]);
                rm.visit_block(&f.block);
                let peers_is_map = file.items.iter().any(|it| matches!(it, syn::Item::Struct(st) if st.ident == "CacheData" && st.fields.iter().any(|fl| fl.ident.as_ref().map(|i| i == "peers").unwrap_or(false) && toks(&fl.ty).contains("HashMap<"))));
                let local_is_map = toks(&f.block).contains("letmutpeer_last_seen_map=HashMap::new();");
                for r in rm.0 {
                    if (r == "self.peers" && peers_is_map) || (r == "peer_last_seen_map" && local_is_map) {
                        if let Some(p) = st.iter().position(|x| x == "remove") {
                            st.remove(p);
                        }
                    }
                }
            }
            s.push_str(&format!("/-- {rel} `{ty}::{n}` -/\ndef {def} : List String := {}\n", lean_strs(&st)));
        }
        let f = impl_fn(&file, "CacheData", None, "perform_cleanup")?;
        let c = calls_in_block(&f.block);
        let sorts = c.methods.iter().any(|m| m == "sort_by_key") && c.methods.iter().any(|m| m == "failure_rate");
        s.push_str(&format!("/-- `perform_cleanup` sorts a peer's addresses by `failure_rate` when there are more than `max_addrs_per_peer` -/\ndef cleanupSortsByFailureRate : Bool := {}\n\n", lean_bool(sorts)));
    }
    // --- NodeRegistry
    {
        let rel = "ant-service-management/src/lib.rs";
        let file = parse_file(&repo.join(rel))?;
        let f = impl_fn(&file, "NodeRegistry", None, "load")?;
        let c = calls_in_block(&f.block);
        let empty_default = c.methods.iter().any(|m| m == "is_empty");
        let missing_default = c.methods.iter().any(|m| m == "exists");
        s.push_str(&format!("/-- {rel} `NodeRegistry::load`: a missing file / an empty file gives the default registry -/\ndef registryMissingIsDefault : Bool := {}\ndef registryEmptyIsDefault : Bool := {}\n", lean_bool(missing_default), lean_bool(empty_default)));
        s.push_str(&format!("def registryLoadSites : List String := {}\n", lean_strs(&sites(&f.block, &no_env, false, false))));
        // save: the file must be emptied before the new JSON is written (File::create, truncate(true) or set_len)
        let f = impl_fn(&file, "NodeRegistry", None, "save")?;
        let c = calls_in_block(&f.block);
        let body = toks(&f.block);
        let uses_create = c.paths.iter().any(|p| p.ends_with("File::create")) || body.contains("fs::write(");
        let uses_open_options = c.paths.iter().any(|p| p.ends_with("OpenOptions::new"));
        let truncates = if uses_open_options {
            body.contains(".truncate(true)") || c.methods.iter().any(|m| m == "set_len")
        } else if uses_create {
            true
        } else {
            return Err("NodeRegistry::save: neither File::create/fs::write nor OpenOptions found".into());
        };
        if !c.methods.iter().any(|m| m == "write_all") && !body.contains("fs::write(") {
            return Err("NodeRegistry::save: no write_all of the JSON".into());
        }
        s.push_str(&format!("/-- `NodeRegistry::save` empties the file before writing the JSON (`File::create` / `truncate(true)` / `set_len`) -/\ndef registrySaveTruncates : Bool := {}\n", lean_bool(truncates)));
        s.push_str(&format!("def registrySaveSites : List String := {}\n", lean_strs(&sites(&f.block, &no_env, false, false))));
        let f = impl_fn(&file, "NodeRegistry", None, "from_json")?;
        s.push_str(&format!("def registryFromJsonSites : List String := {}\n\n", lean_strs(&sites(&f.block, &no_env, false, false))));
    }
    // --- ant-cli wallet/fs.rs: names and contents read from the wallets folder
    {
        let rel = "ant-cli/src/wallet/fs.rs";
        let file = parse_file(&repo.join(rel))?;
        let ext = file
            .items
            .iter()
            .find_map(|it| match it {
                syn::Item::Const(c) if c.ident == "ENCRYPTED_PRIVATE_KEY_EXT" => match &*c.expr {
                    syn::Expr::Lit(l) => match &l.lit {
                        syn::Lit::Str(st) => Some(st.value()),
                        _ => None,
                    },
                    _ => None,
                },
                _ => None,
            })
            .ok_or("wallet/fs.rs: ENCRYPTED_PRIVATE_KEY_EXT is not a string constant")?;
        s.push_str(&format!("/-- {rel}: `ENCRYPTED_PRIVATE_KEY_EXT` = {ext:?} -/\ndef walletExt : List Nat := [{}]\n", ext.bytes().map(|b| b.to_string()).collect::<Vec<_>>().join(", ")));
        let f = free_fn(&file, "filter_wallet_file_extension")?;
        let body = toks(&f.block);
        let uses_replace = body == "{wallet_file.replace(ENCRYPTED_PRIVATE_KEY_EXT,\"\")}";
        s.push_str(&format!("/-- `filter_wallet_file_extension` is `wallet_file.replace(ENCRYPTED_PRIVATE_KEY_EXT, \"\")` -/\ndef filterUsesReplace : Bool := {}\n", lean_bool(uses_replace)));
        s.push_str(&format!("def walletFilterSites : List String := {}\n", lean_strs(&sites(&f.block, &no_env, false, false))));
        let f = free_fn(&file, "get_wallet_files")?;
        let c = calls_in_block(&f.block);
        if !(c.methods.iter().any(|m| m == "into_string") && c.paths.iter().any(|p| p == "RewardsAddress::from_hex") && c.paths.iter().any(|p| p == "filter_wallet_file_extension")) {
            return Err("get_wallet_files: expected into_string().ok(), filter_wallet_file_extension and RewardsAddress::from_hex".into());
        }
        s.push_str(&format!("def walletFilesSites : List String := {}\n", lean_strs(&sites(&f.block, &no_env, false, false))));
        // get_wallet_selection: `if idx < 1 || idx > files.len() { return Err }` then `files[idx - 1]`
        let f = free_fn(&file, "get_wallet_selection")?;
        let mut cf = CondFinder { conds: vec![] };
        cf.visit_block(&f.block);
        let mut low = None;
        let mut high = None;
        for c in &cf.conds {
            if let syn::Expr::Binary(b) = c {
                if matches!(b.op, syn::BinOp::Or(_)) {
                    for side in [&b.left, &b.right] {
                        if let syn::Expr::Binary(x) = &**side {
                            if toks(&x.left) == "selected_index" {
                                if is_len_call(&x.right) {
                                    high = Some(cmp_name(&x.op, false)?);
                                } else {
                                    low = Some((cmp_name(&x.op, false)?, eval_const(&x.right, &no_env)?));
                                }
                            }
                        }
                    }
                }
            }
        }
        let (lc, ln) = low.ok_or("get_wallet_selection: no `selected_index <cmp> N` bound check")?;
        let hc = high.ok_or("get_wallet_selection: no `selected_index <cmp> wallet_files.len()` bound check")?;
        let mut ixf = IndexFinder { found: vec![], lens: 0 };
        ixf.visit_block(&f.block);
        if ixf.found.len() != 1 || toks(&ixf.found[0].expr) != "wallet_files" {
            return Err("get_wallet_selection: expected exactly one index into wallet_files".into());
        }
        if !toks(&f.block).contains("parse::<usize>()") {
            return Err("get_wallet_selection: the selection is not parsed as usize".into());
        }
        let (t, _) = aexp(&ixf.found[0].index, &[("selected_index".to_string(), 64)]).map_err(|e| format!("get_wallet_selection: {e}"))?;
        s.push_str(&format!("/-- `get_wallet_selection`: the two rejecting bound checks and the index expression `{}` (var 0 = selected_index: usize) -/\ndef selectLowReject : Cmp × Nat := (.{lc}, {ln})\ndef selectHighReject : Cmp := .{hc}\ndef selectIndexExpr : AExp := {t}\n", toks(&ixf.found[0].index)));
        s.push_str(&format!("def walletSelectionSites : List String := {}\n", lean_strs(&sites(&f.block, &no_env, true, true))));
        let f = free_fn(&file, "list_wallets")?;
        let mut st = sites(&f.block, &no_env, false, false);
        // the 1-based row number `(index + 1)` of `.iter().enumerate()`: index < len <= isize::MAX, the sum cannot overflow usize
        let body = toks(&f.block);
        if body.contains("for(index,wallet_file)inwallet_files.iter().enumerate()") && body.matches("index+1").count() == 1 {
            if let Some(p) = st.iter().position(|x| x == "arith:+") {
                st.remove(p);
            }
        }
        s.push_str(&format!("def walletListSites : List String := {}\n", lean_strs(&st)));
        // select_wallet_address: `wallet_files[0]` only in the arm for exactly one file
        let f = free_fn(&file, "select_wallet_address")?;
        let mut ixf = IndexFinder { found: vec![], lens: 0 };
        ixf.visit_block(&f.block);
        let guarded = ixf.found.len() == 1 && toks(&f.block).contains("1=>Ok(filter_wallet_file_extension(&wallet_files[0]))");
        let mut st = sites(&f.block, &no_env, guarded, false);
        if !guarded && ixf.found.is_empty() {
            st.retain(|x| x != "index");
        }
        s.push_str(&format!("/-- `select_wallet_address` indexes `wallet_files[0]` only in the arm for `wallet_files.len() == 1` -/\ndef selectSingleGuarded : Bool := {}\ndef walletSelectAddressSites : List String := {}\n", lean_bool(guarded || ixf.found.is_empty()), lean_strs(&st)));
        let f = free_fn(&file, "load_private_key")?;
        s.push_str(&format!("def walletLoadKeySites : List String := {}\n", lean_strs(&sites(&f.block, &no_env, false, false))));
        let f = free_fn(&file, "load_wallet_from_address")?;
        // load_wallet_from_address: the only panic site allowed is the `expect` on the EVM network read from the
        // environment (configuration); the private key read from the wallet file must be mapped to an error
        let mut env_expect = false;
        let mut key_checked = None;
        for st in &f.block.stmts {
            if let syn::Stmt::Local(l) = st {
                if let Some(init) = &l.init {
                    let t = toks(&init.expr);
                    let unwrapped = t.contains(".expect(") || t.contains(".unwrap()");
                    if t.contains("get_evm_network_from_env()") {
                        env_expect = unwrapped;
                    }
                    if t.contains("Wallet::new_from_private_key(") {
                        key_checked = Some(!unwrapped);
                    }
                }
            }
        }
        let key_checked = key_checked.ok_or("load_wallet_from_address: no `let … = Wallet::new_from_private_key(..)` statement")?;
        s.push_str(&format!("/-- `load_wallet_from_address`: panic sites; whether the EVM network from the environment is `expect`ed (configuration) or mapped to an error; the result of `Wallet::new_from_private_key` on the file content is mapped to an error (not unwrapped) -/\ndef walletLoadFromAddressSites : List String := {}\ndef loadWalletEnvExpected : Bool := {}\ndef loadWalletKeyChecked : Bool := {}\n\n", lean_strs(&sites(&f.block, &no_env, false, false)), lean_bool(env_expect), lean_bool(key_checked)));
    }
    // --- ant-logging: LogFormat / LogOutputDest parse_from_str
    {
        let rel = "ant-logging/src/lib.rs";
        let file = parse_file(&repo.join(rel))?;
        struct StrArms(Vec<String>);
        impl<'ast> Visit<'ast> for StrArms {
            fn visit_arm(&mut self, a: &'ast syn::Arm) {
                if let syn::Pat::Lit(l) = &a.pat {
                    if let syn::Lit::Str(st) = &l.lit {
                        self.0.push(st.value());
                    }
                }
                syn::visit::visit_arm(self, a);
            }
        }
        for (ty, def, sdef) in [("LogFormat", "logFormatLiterals", "logFormatSites"), ("LogOutputDest", "logDestLiterals", "logDestSites")] {
            let f = impl_fn(&file, ty, None, "parse_from_str")?;
            let mut arms = StrArms(vec![]);
            arms.visit_block(&f.block);
            if arms.0.is_empty() {
                return Err(format!("{ty}::parse_from_str: no string literal arms"));
            }
            s.push_str(&format!("/-- {rel} `{ty}::parse_from_str`: the literals matched -/\ndef {def} : List String := {}\ndef {sdef} : List String := {}\n", lean_strs(&arms.0), lean_strs(&sites(&f.block, &no_env, false, false))));
        }
        s.push('\n');
    }
    // --- RecordHeader
    {
        let rel = "ant-protocol/src/storage/header.rs";
        let file = parse_file(&repo.join(rel))?;
        let size = const_value(&file, "SIZE")?;
        let env = |n: &str| -> Option<u128> { if n == "SIZE" { Some(size) } else { None } };
        let f = impl_fn(&file, "RecordHeader", None, "from_record")?;
        let steps = read_steps(&f.block, &env, "RecordHeader::from_record")?;
        s.push_str(&format!("/-- {rel} -/\ndef recordHeaderSize : Nat := {size}\n/-- `RecordHeader::from_record`: guard and slice over `record.value` -/\ndef fromRecordSteps : List Step := {}\n", lean_steps(&steps)));
        s.push_str(&format!("def fromRecordSites : List String := {}\n", lean_strs(&sites(&f.block, &env, true, false))));
        let f = impl_fn(&file, "RecordHeader", None, "try_deserialize")?;
        s.push_str(&format!("def tryDeserializeSites : List String := {}\n", lean_strs(&sites(&f.block, &env, false, false))));
        let f = free_fn(&file, "try_deserialize_record")?;
        let steps = read_steps(&f.block, &env, "try_deserialize_record")?;
        s.push_str(&format!("/-- `try_deserialize_record`: prefix handling (guard = negation of the `if` that selects the slice) -/\ndef deserializeRecordSteps : List Step := {}\n", lean_steps(&steps)));
        s.push_str(&format!("def deserializeRecordSites : List String := {}\n", lean_strs(&sites(&f.block, &env, true, false))));
        // RecordKind tags accepted by Deserialize
        let f = impl_fn(&file, "RecordKind", Some("Deserialize"), "deserialize")?;
        struct Arms(Vec<(u128, String)>);
        impl<'ast> Visit<'ast> for Arms {
            fn visit_arm(&mut self, a: &'ast syn::Arm) {
                if let syn::Pat::Lit(l) = &a.pat {
                    if let syn::Lit::Int(i) = &l.lit {
                        let body = toks(&a.body);
                        if let Some(k) = body.strip_prefix("Ok(Self::") {
                            self.0.push((i.base10_parse().unwrap_or(u128::MAX), k.trim_end_matches(')').to_string()));
                        }
                    }
                }
                syn::visit::visit_arm(self, a);
            }
        }
        let mut arms = Arms(vec![]);
        arms.visit_block(&f.block);
        if arms.0.is_empty() {
            return Err("RecordKind::deserialize: no integer arms".into());
        }
        let items: Vec<String> = arms.0.iter().map(|(n, k)| format!("({n}, {k:?})")).collect();
        s.push_str(&format!("/-- integers `RecordKind`'s `Deserialize` accepts -/\ndef recordKindTags : List (Nat × String) := [{}]\n", items.join(", ")));
    }
    ext::generate(repo, &mut s)?;
    r6::generate(repo, &mut s)?;
    s.push_str("end SafeNet.Gen.Parsers\n");
    Ok(s)
}
