use std::path::Path;
use syn::visit::Visit;

pub fn parse_file(p: &Path) -> Result<syn::File, String> {
    let src = std::fs::read_to_string(p).map_err(|e| format!("{}: {e}", p.display()))?;
    syn::parse_file(&src).map_err(|e| format!("{}: {e}", p.display()))
}

/// integer literal or simple constant expression (`*`, `+`, `-`, `/`, parens, casts), with named constants resolved through `env`
pub fn eval_const(e: &syn::Expr, env: &dyn Fn(&str) -> Option<u128>) -> Result<u128, String> {
    match e {
        syn::Expr::Lit(l) => match &l.lit {
            syn::Lit::Int(i) => i.base10_parse::<u128>().map_err(|e| e.to_string()),
            other => Err(format!("non-integer literal {other:?}")),
        },
        syn::Expr::Paren(p) => eval_const(&p.expr, env),
        syn::Expr::Group(p) => eval_const(&p.expr, env),
        syn::Expr::Cast(c) => eval_const(&c.expr, env),
        syn::Expr::Path(p) => {
            let name = p.path.segments.last().map(|s| s.ident.to_string()).unwrap_or_default();
            env(&name).ok_or_else(|| format!("unknown constant {name}"))
        }
        syn::Expr::Binary(b) => {
            let l = eval_const(&b.left, env)?;
            let r = eval_const(&b.right, env)?;
            match b.op {
                syn::BinOp::Mul(_) => l.checked_mul(r).ok_or_else(|| "overflow".to_string()),
                syn::BinOp::Add(_) => l.checked_add(r).ok_or_else(|| "overflow".to_string()),
                syn::BinOp::Sub(_) => l.checked_sub(r).ok_or_else(|| "underflow".to_string()),
                syn::BinOp::Div(_) => l.checked_div(r).ok_or_else(|| "div by zero".to_string()),
                _ => Err("unsupported operator in constant".to_string()),
            }
        }
        syn::Expr::Call(c) => {
            // Duration::from_secs(x) and friends: value of the single argument
            let f = quote::ToTokens::to_token_stream(&c.func).to_string().replace(' ', "");
            if (f.ends_with("from_secs") || f.ends_with("from_millis")) && c.args.len() == 1 {
                eval_const(&c.args[0], env)
            } else {
                Err(format!("unsupported call {f} in constant"))
            }
        }
        _ => Err(format!("unsupported constant expression {}", quote::ToTokens::to_token_stream(e))),
    }
}

/// all top-level (and inherent-impl) consts of a file: name -> expr
pub fn consts(file: &syn::File) -> Vec<(String, syn::Expr)> {
    let mut v = vec![];
    for it in &file.items {
        match it {
            syn::Item::Const(c) => v.push((c.ident.to_string(), (*c.expr).clone())),
            syn::Item::Impl(i) => {
                for ii in &i.items {
                    if let syn::ImplItem::Const(c) = ii {
                        v.push((c.ident.to_string(), c.expr.clone()));
                    }
                }
            }
            _ => {}
        }
    }
    v
}

pub fn const_value(file: &syn::File, name: &str) -> Result<u128, String> {
    let cs = consts(file);
    let env = |n: &str| -> Option<u128> {
        cs.iter().find(|(k, _)| k == n).and_then(|(_, e)| eval_const(e, &|_| None).ok())
    };
    let (_, e) = cs.iter().find(|(k, _)| k == name).ok_or_else(|| format!("const {name} not found"))?;
    eval_const(e, &env)
}

fn type_name(t: &syn::Type) -> String {
    match t {
        syn::Type::Path(p) => p.path.segments.last().map(|s| s.ident.to_string()).unwrap_or_default(),
        _ => String::new(),
    }
}

/// find `fn name` inside `impl [Trait for] Type` (trait_name None = inherent impl or any)
pub fn impl_fn<'a>(file: &'a syn::File, ty: &str, trait_name: Option<&str>, name: &str) -> Result<&'a syn::ImplItemFn, String> {
    for it in &file.items {
        if let syn::Item::Impl(i) = it {
            if type_name(&i.self_ty) != ty {
                continue;
            }
            let tn = i.trait_.as_ref().and_then(|(_, p, _)| p.segments.last()).map(|s| s.ident.to_string());
            match (trait_name, &tn) {
                (Some(want), Some(have)) if want == have => {}
                (None, None) => {}
                _ => continue,
            }
            for ii in &i.items {
                if let syn::ImplItem::Fn(f) = ii {
                    if f.sig.ident == name {
                        return Ok(f);
                    }
                }
            }
        }
    }
    Err(format!("fn {name} in impl {trait_name:?} for {ty} not found"))
}

pub fn free_fn<'a>(file: &'a syn::File, name: &str) -> Result<&'a syn::ItemFn, String> {
    for it in &file.items {
        if let syn::Item::Fn(f) = it {
            if f.sig.ident == name {
                return Ok(f);
            }
        }
    }
    Err(format!("fn {name} not found"))
}

#[derive(Default)]
pub struct Calls {
    pub methods: Vec<String>,
    pub binops: Vec<String>,
    pub macros: Vec<(String, String)>,
    pub paths: Vec<String>,
}

impl<'ast> Visit<'ast> for Calls {
    fn visit_expr_method_call(&mut self, m: &'ast syn::ExprMethodCall) {
        self.methods.push(m.method.to_string());
        syn::visit::visit_expr_method_call(self, m);
    }
    fn visit_expr_binary(&mut self, b: &'ast syn::ExprBinary) {
        self.binops.push(quote::ToTokens::to_token_stream(&b.op).to_string());
        syn::visit::visit_expr_binary(self, b);
    }
    fn visit_macro(&mut self, m: &'ast syn::Macro) {
        let name = m.path.segments.last().map(|s| s.ident.to_string()).unwrap_or_default();
        self.macros.push((name, m.tokens.to_string()));
        syn::visit::visit_macro(self, m);
    }
    fn visit_expr_path(&mut self, p: &'ast syn::ExprPath) {
        self.paths.push(quote::ToTokens::to_token_stream(&p.path).to_string().replace(' ', ""));
        syn::visit::visit_expr_path(self, p);
    }
}

pub fn calls_in_block(b: &syn::Block) -> Calls {
    let mut c = Calls::default();
    c.visit_block(b);
    c
}

pub fn header(src: &str) -> String {
    format!("-- GENERATED by rs2lean from {src} on every check run — do not edit.\n")
}

pub fn lean_bool(b: bool) -> &'static str {
    if b { "true" } else { "false" }
}

/// every PRIVATE function of the file (inherent-impl fns and free fns without a visibility qualifier): name -> body.
/// These are what a maintainer's "extract helper" refactoring produces; the translators look through them.
pub fn private_fns(file: &syn::File) -> Vec<(String, &syn::Block)> {
    let mut v = vec![];
    for it in &file.items {
        match it {
            syn::Item::Fn(f) => {
                if matches!(f.vis, syn::Visibility::Inherited) {
                    v.push((f.sig.ident.to_string(), &*f.block));
                }
            }
            syn::Item::Impl(i) if i.trait_.is_none() => {
                for ii in &i.items {
                    if let syn::ImplItem::Fn(f) = ii {
                        if matches!(f.vis, syn::Visibility::Inherited) {
                            v.push((f.sig.ident.to_string(), &f.block));
                        }
                    }
                }
            }
            _ => {}
        }
    }
    v
}

/// `start` plus the bodies of the private same-file helpers it calls (by name; up to three levels; names in `stop`
/// — the functions that are modelled in their own right — are never looked through)
pub fn with_private_helpers<'a>(file: &'a syn::File, start: &'a syn::Block, stop: &[&str]) -> Vec<&'a syn::Block> {
    let helpers = private_fns(file);
    let mut out: Vec<&'a syn::Block> = vec![start];
    let mut seen: Vec<String> = vec![];
    let mut frontier: Vec<&'a syn::Block> = vec![start];
    for _ in 0..3 {
        let mut next = vec![];
        for b in frontier {
            let c = calls_in_block(b);
            let mut names: Vec<String> = c.methods.clone();
            names.extend(c.paths.iter().map(|p| p.rsplit("::").next().unwrap_or("").to_string()));
            for n in names {
                if stop.contains(&n.as_str()) || seen.contains(&n) {
                    continue;
                }
                if let Some((_, body)) = helpers.iter().find(|(k, _)| *k == n) {
                    seen.push(n.clone());
                    out.push(*body);
                    next.push(*body);
                }
            }
        }
        frontier = next;
    }
    out
}

/// union of `calls_in_block` over several blocks
pub fn calls_in_blocks(blocks: &[&syn::Block]) -> Calls {
    let mut c = Calls::default();
    for b in blocks {
        c.visit_block(b);
    }
    c
}
