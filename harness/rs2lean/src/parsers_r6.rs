//! C17, audit round 6 (included by parsers.rs): consumers of accepted values.  A stored or typed value that its parser
//! accepts reaches arithmetic / indexing / `unwrap` further on: the data map handed to `self_encryption`, the `u16`
//! service numbering of `add_node`, the metrics URL's port, the log-file limits, the faucet's pid, `nodes[0]` of an
//! empty registry.  Flags are two-sided (`flag`): `true` only on positively recognising the checked shape, `false`
//! only on positively recognising the known unchecked one, anything else is UNTRANSLATABLE.
use super::ext::{flag, sites_def};
use super::*;

/// a source file of a registry crate at the version /repo/Cargo.lock pins
fn registry_file(repo: &PathBuf, krate: &str, rel: &str) -> Result<syn::File, String> {
    let ver = lock_version(repo, krate)?;
    let home = std::env::var("CARGO_HOME").unwrap_or_else(|_| format!("{}/.cargo", std::env::var("HOME").unwrap_or_else(|_| "/root".into())));
    let src = PathBuf::from(home).join("registry/src");
    for d in std::fs::read_dir(&src).map_err(|e| format!("{}: {e}", src.display()))? {
        let p = d.map_err(|e| e.to_string())?.path().join(format!("{krate}-{ver}/{rel}"));
        if p.exists() {
            return parse_file(&p);
        }
    }
    Err(format!("{krate}-{ver}/{rel} not found in the cargo registry"))
}

fn remove_one(v: &mut Vec<String>, what: &str) -> bool {
    match v.iter().position(|x| x == what) {
        Some(p) => {
            v.remove(p);
            true
        }
        None => false,
    }
}

/// position of the first top-level statement whose token text contains `needle`
fn stmt_pos(b: &syn::Block, needle: &str) -> Option<usize> {
    b.stmts.iter().position(|st| toks(st).contains(needle))
}

pub fn generate(repo: &PathBuf, s: &mut String) -> Result<(), String> {
    let no_env = |_: &str| -> Option<u128> { None };

    // --- the data map: autonomi `fetch_from_data_map` → self_encryption `decrypt_full_set`
    {
        let lib = registry_file(repo, "self_encryption", "src/lib.rs")?;
        let ver = lock_version(repo, "self_encryption")?;
        let n12 = free_fn(&lib, "get_n_1_n_2")?;
        if toks(&n12.block) != "{matchchunk_index{0=>(total_num_chunks-1,total_num_chunks-2),1=>(0,total_num_chunks-1),n=>(n-1,n-2),}}" {
            return Err(format!("self_encryption-{ver} get_n_1_n_2: not the shape that is modelled (`seN1N2`)"));
        }
        let pki = free_fn(&lib, "get_pad_key_and_iv")?;
        let pb = toks(&pki.block);
        for needle in ["let(n_1,n_2)=get_n_1_n_2(chunk_index,chunk_hashes.len());", "&chunk_hashes[chunk_index]", "&chunk_hashes[n_1]", "&chunk_hashes[n_2]"] {
            if !pb.contains(needle) {
                return Err(format!("self_encryption-{ver} get_pad_key_and_iv: expected `{needle}`"));
            }
        }
        let dfs = free_fn(&lib, "decrypt_full_set")?;
        let db = toks(&dfs.block);
        if !(db.contains("letsrc_hashes=extract_hashes(data_map);") && db.contains("decrypt::decrypt(src_hashes,&sorted_chunks)")) {
            return Err(format!("self_encryption-{ver} decrypt_full_set: unexpected body"));
        }
        let dec = registry_file(repo, "self_encryption", "src/decrypt.rs")?;
        let dc = free_fn(&dec, "decrypt_chunk")?;
        if !toks(&dc.block).contains("get_pad_key_and_iv(chunk_number,chunk_hashes)") {
            return Err(format!("self_encryption-{ver} decrypt_chunk: expected get_pad_key_and_iv(chunk_number, chunk_hashes)"));
        }
        let d = free_fn(&dec, "decrypt")?;
        if !toks(&d.block).contains("decrypt_chunk(c.index,&c.content,&src_hashes)") {
            return Err(format!("self_encryption-{ver} decrypt: expected decrypt_chunk(c.index, &c.content, &src_hashes)"));
        }
        s.push_str(&format!("\n/-- self_encryption {ver} (the version Cargo.lock pins, read from the cargo registry): `decrypt_full_set` → `decrypt` → `decrypt_chunk(c.index, ..)` → `get_pad_key_and_iv`, which indexes the data map's hash list by the STORED chunk index and by `get_n_1_n_2(index, len)` = `match index {{ 0 => (len - 1, len - 2), 1 => (0, len - 1), n => (n - 1, n - 2) }}` — no bounds or underflow check (the shape `seN1N2` models) -/\ndef sePadIndexUnchecked : Bool := true\n"));

        let rel = "autonomi/src/client/utils.rs";
        let file = parse_file(&repo.join(rel))?;
        let f = impl_fn(&file, "Client", None, "fetch_from_data_map")?;
        let body = toks(&f.block);
        if !body.contains("decrypt_full_set(data_map,&encrypted_chunks)") {
            return Err("fetch_from_data_map: expected decrypt_full_set(data_map, &encrypted_chunks)".into());
        }
        let guard_needle = "ifchunk_count<";
        let guarded = match stmt_pos(&f.block, guard_needle) {
            Some(g) => {
                // `let infos = data_map.infos(); let chunk_count = infos.len(); if chunk_count < N || infos.iter().any(|info| info.index >= chunk_count) { .. return Err(..) }`
                // as top-level statements before the first chunk is fetched and before decrypt_full_set
                let st = toks(&f.block.stmts[g]);
                let infos_at = stmt_pos(&f.block, "letinfos=data_map.infos();");
                let count_at = stmt_pos(&f.block, "letchunk_count=infos.len();");
                let fetch_at = stmt_pos(&f.block, "self.chunk_get(").or_else(|| stmt_pos(&f.block, "decrypt_full_set("));
                let ok = st.starts_with("ifchunk_count<")
                    && st.contains("||infos.iter().any(|info|info.index>=chunk_count){")
                    && st.contains("returnErr(")
                    && !st.contains("}else")
                    && matches!((infos_at, count_at, fetch_at), (Some(a), Some(b), Some(c)) if a < b && b < g && g < c);
                if !ok {
                    return Err("fetch_from_data_map: a `chunk_count` check that is not the recognised guard".into());
                }
                true
            }
            None => {
                if body.contains(".index>=") || body.contains(".index<") || body.contains("chunk_count") {
                    return Err("fetch_from_data_map: index checks in an unrecognised shape".into());
                }
                false
            }
        };
        let min = if guarded {
            let st = toks(&f.block.stmts[stmt_pos(&f.block, guard_needle).unwrap_or(0)]);
            let rest = &st["ifchunk_count<".len()..];
            let digits: String = rest.chars().take_while(|c| c.is_ascii_digit()).collect();
            digits.parse::<u128>().map_err(|_| "fetch_from_data_map: the minimum chunk count is not a literal".to_string())?
        } else {
            0
        };
        s.push_str(&format!("/-- {rel} `fetch_from_data_map`: before any chunk is fetched the data map is refused unless it has at least `dataMapMinChunks` chunks and every stored index is below the chunk count -/\ndef dataMapGuarded : Bool := {}\ndef dataMapMinChunks : Nat := {min}\n", lean_bool(guarded)));
        sites_def(s, "fetchFromDataMapSites", &sites(&f.block, &no_env, false, false));
        let g = impl_fn(&file, "Client", None, "fetch_from_data_map_chunk")?;
        let gb = toks(&g.block);
        if !(gb.contains("rmp_serde::from_slice(data_map_bytes)") && gb.contains("self.fetch_from_data_map(data_map).await?")) {
            return Err("fetch_from_data_map_chunk: expected rmp_serde::from_slice(data_map_bytes) and fetch_from_data_map(data_map).await?".into());
        }
        sites_def(s, "fetchFromDataMapChunkSites", &sites(&g.block, &no_env, false, false));
    }

    // --- add_node: u16 service numbering
    {
        let rel = "ant-node-manager/src/add_services/mod.rs";
        let file = parse_file(&repo.join(rel))?;
        let f = free_fn(&file, "add_node")?;
        let body = toks(&f.block);
        let cfg = parse_file(&repo.join("ant-node-manager/src/add_services/config.rs"))?;
        let w_count = struct_field_width(&cfg, "AddNodeServiceOptions", "count").or_else(|_| -> Result<u32, String> {
            // `count: Option<u16>`
            for it in &cfg.items {
                if let syn::Item::Struct(st) = it {
                    if st.ident == "AddNodeServiceOptions" {
                        for fld in &st.fields {
                            if fld.ident.as_ref().map(|i| i == "count").unwrap_or(false) {
                                let t = toks(&fld.ty);
                                if let Some(inner) = t.strip_prefix("Option<").and_then(|x| x.strip_suffix('>')) {
                                    return uint_width(inner).ok_or_else(|| format!("AddNodeServiceOptions.count: {t}"));
                                }
                            }
                        }
                    }
                }
            }
            Err("AddNodeServiceOptions.count not found".into())
        })?;
        let svc = parse_file(&repo.join("ant-service-management/src/node.rs"))?;
        let w_number = struct_field_width(&svc, "NodeServiceData", "number")?;
        if w_count != w_number {
            return Err(format!("add_node: count is u{w_count} but number is u{w_number}"));
        }
        // the arithmetic that is modelled, statement by statement
        let cur_at = stmt_pos(&f.block, "letcurrent_node_count=node_registry.nodes").ok_or("add_node: no `let current_node_count = node_registry.nodes…`")?;
        let target_at = stmt_pos(&f.block, "lettarget_node_count=current_node_count+options.count.unwrap_or(1);").ok_or("add_node: no `let target_node_count = current_node_count + options.count.unwrap_or(1);`")?;
        let first_at = stmt_pos(&f.block, "letmutnode_number=current_node_count+1;").ok_or("add_node: no `let mut node_number = current_node_count + 1;`")?;
        let loop_at = stmt_pos(&f.block, "whilenode_number<=target_node_count{").ok_or("add_node: no `while node_number <= target_node_count`")?;
        if !(cur_at < target_at && target_at < first_at && first_at < loop_at) || !toks(&f.block.stmts[loop_at]).contains("node_number+=1;") {
            return Err("add_node: numbering statements out of the modelled order".into());
        }
        let guard = "ifcurrent_node_count.checked_add(options.count.unwrap_or(1)).and_then(|target|target.checked_add(1)).is_none(){";
        let guarded = match stmt_pos(&f.block, guard) {
            Some(g) => {
                let st = toks(&f.block.stmts[g]);
                if !(st.starts_with(guard) && st.contains("returnErr(") && !st.contains("}else") && cur_at < g && g < target_at) {
                    return Err("add_node: the numbering guard is not between `current_node_count` and `target_node_count`, or does not return an error".into());
                }
                true
            }
            None => {
                if body.contains("checked_add") {
                    return Err("add_node: checked arithmetic in an unrecognised shape".into());
                }
                false
            }
        };
        s.push_str(&format!("\n/-- {rel} `add_node`: service numbers and `--count` are u{w_number}; `target = current + count`, `number = current + 1`, `while number <= target {{ …; number += 1 }}` are plain `+`; they are preceded by `if current.checked_add(count).and_then(|t| t.checked_add(1)).is_none() {{ return Err }}` -/\ndef nodeNumberWidth : Nat := {w_number}\ndef addNumberingGuarded : Bool := {}\n", lean_bool(guarded)));
        // everything else the scan reports in this long routine (its callees have their own tables)
        let mut st = sites(&f.block, &no_env, false, false);
        for _ in 0..2 {
            if !remove_one(&mut st, "arith:+") {
                return Err("add_node: fewer `+` than the two modelled".into());
            }
        }
        if !remove_one(&mut st, "arith:+=") {
            return Err("add_node: no `+=`".into());
        }
        sites_def(s, "addNodeSites", &st);
    }

    // --- ant-metrics: the port of an accepted metrics URL
    {
        let rel = "ant-metrics/src/main.rs";
        let file = parse_file(&repo.join(rel))?;
        let f = free_fn(&file, "build_prometheus_config")?;
        let body = toks(&f.block);
        let checked = flag(&body, &[".filter_map(|(node_id,url)|", "letport=url.port_or_known_default()?;"], &["url.port().expect("], "build_prometheus_config")?;
        s.push_str(&format!("\n/-- {rel} `build_prometheus_config`: a URL without an explicit port (`http://host:80/…` parses to port None) is given its scheme's default port or skipped, not `expect`ed -/\ndef promPortChecked : Bool := {}\n", lean_bool(checked)));
        sites_def(s, "promConfigSites", &sites(&f.block, &no_env, false, false));
        let l = free_fn(&file, "last_n_chars")?;
        sites_def(s, "lastNCharsSites", &sites(&l.block, &no_env, false, false));
    }

    // --- ant-logging: total number of log files
    {
        let rel = "ant-logging/src/layers.rs";
        let file = parse_file(&repo.join(rel))?;
        let f = impl_fn(&file, "TracingLayers", None, "fmt_layer")?;
        let body = toks(&f.block);
        let sat = flag(&body, &["max_compressed_log_files.saturating_add(max_uncompressed_log_files)"], &["max_compressed_log_files+max_uncompressed_log_files"], "fmt_layer")?;
        if !(body.contains("max_uncompressed_log_files.unwrap_or(MAX_UNCOMPRESSED_LOG_FILES)") && body.contains("std::cmp::max(max_uncompressed_log_files,MAX_LOG_FILES)")) {
            return Err("fmt_layer: expected the defaults MAX_UNCOMPRESSED_LOG_FILES / MAX_LOG_FILES".into());
        }
        let unc = const_value(&file, "MAX_UNCOMPRESSED_LOG_FILES")?;
        let tot = const_value(&file, "MAX_LOG_FILES")?;
        s.push_str(&format!("\n/-- {rel} `fmt_layer`: total log files = archived + plain (both `usize` from the command line or the registry) with `saturating_add`; the defaults -/\ndef logFilesAddSaturating : Bool := {}\ndef logMaxUncompressedDefault : Nat := {unc}\ndef logMaxFilesDefault : Nat := {tot}\n", lean_bool(sat)));
        let mut st = sites(&f.block, &no_env, false, false);
        if !sat && !remove_one(&mut st, "arith:+") {
            return Err("fmt_layer: the unchecked `+` was not seen by the scan".into());
        }
        sites_def(s, "fmtLayerSites", &st);
    }

    // --- ant-bootstrap: routines that consume the counters / addresses a cache file or ANT_PEERS supplied
    {
        s.push_str("\n/-- ant-bootstrap: `BootstrapCacheStore::get_sorted_addrs` (sort key `failure_rate() as u64`), `BootstrapAddr::sync` (saturating_add, reset at u32::MAX), `BootstrapAddr::update_status` (checked_add), `BootstrapAddresses::sync`, `PeersArgs::get_bootstrap_addr` / `get_addrs`: panic sites of each body -/\n");
        let cs = parse_file(&repo.join("ant-bootstrap/src/cache_store.rs"))?;
        let f = impl_fn(&cs, "BootstrapCacheStore", None, "get_sorted_addrs")?;
        if !toks(&f.block).contains("addrs.sort_by_key(|addr|addr.failure_rate()asu64);") {
            return Err("get_sorted_addrs: expected sort_by_key(|addr| addr.failure_rate() as u64)".into());
        }
        sites_def(s, "sortedAddrsSites", &sites(&f.block, &no_env, false, false));
        let lib = parse_file(&repo.join("ant-bootstrap/src/lib.rs"))?;
        let f = impl_fn(&lib, "BootstrapAddr", None, "sync")?;
        let b = toks(&f.block);
        if !(b.contains("self.success_count.saturating_add(other.success_count)") && b.contains("self.failure_count.saturating_add(other.failure_count)")) {
            return Err("BootstrapAddr::sync: expected saturating_add on both counters".into());
        }
        sites_def(s, "bootstrapAddrSyncSites", &sites(&f.block, &no_env, false, false));
        let f = impl_fn(&lib, "BootstrapAddr", None, "update_status")?;
        let b = toks(&f.block);
        if !(b.contains("self.success_count.checked_add(1)") && b.contains("self.failure_count.checked_add(1)")) {
            return Err("BootstrapAddr::update_status: expected checked_add(1) on both counters".into());
        }
        sites_def(s, "updateStatusSites", &sites(&f.block, &no_env, false, false));
        let f = impl_fn(&lib, "BootstrapAddresses", None, "sync")?;
        sites_def(s, "bootstrapAddressesSyncSites", &sites(&f.block, &no_env, false, false));
        let ip = parse_file(&repo.join("ant-bootstrap/src/initial_peers.rs"))?;
        let f = impl_fn(&ip, "PeersArgs", None, "get_bootstrap_addr")?;
        sites_def(s, "getBootstrapAddrSites", &sites(&f.block, &no_env, false, false));
        let f = impl_fn(&ip, "PeersArgs", None, "get_addrs")?;
        sites_def(s, "getAddrsSites", &sites(&f.block, &no_env, false, false));
        let f = impl_fn(&lib, "BootstrapAddr", None, "is_reliable")?;
        sites_def(s, "isReliableSites", &sites(&f.block, &no_env, false, false));
    }

    // --- LogOutputDest: the formatter (Display) next to the parser
    {
        let rel = "ant-logging/src/lib.rs";
        let file = parse_file(&repo.join(rel))?;
        let f = impl_fn(&file, "LogOutputDest", Some("Display"), "fmt")?;
        let mut lits = vec![];
        let mut path_lossy = false;
        for a in super::ext::arms(&f.block) {
            let pat = toks(&a.pat);
            let body = toks(&a.body);
            if let Some(v) = pat.strip_prefix("LogOutputDest::") {
                if let Some(l) = body.strip_prefix("write!(f,\"").and_then(|x| x.strip_suffix("\")")) {
                    if !l.contains('{') {
                        lits.push((v.to_string(), l.to_string()));
                        continue;
                    }
                }
                if v == "Path(p)" && body == "write!(f,\"{}\",p.to_string_lossy())" {
                    path_lossy = true;
                    continue;
                }
            }
            return Err(format!("LogOutputDest Display: unexpected arm `{pat} => {body}`"));
        }
        if !path_lossy || lits.len() != 2 {
            return Err("LogOutputDest Display: expected two literal arms and the lossy path arm".into());
        }
        let lit_of = |v: &str| -> Result<String, String> { lits.iter().find(|(x, _)| x == v).map(|(_, l)| l.clone()).ok_or_else(|| format!("LogOutputDest Display: no arm for {v}")) };
        let lb = |t: &str| format!("[{}]", t.bytes().map(|b| b.to_string()).collect::<Vec<_>>().join(", "));
        // the parser's keywords with what they give: 0 Stdout, 2 Stderr, 1 anything else (`data-dir`: a time-stamped directory)
        let p = impl_fn(&file, "LogOutputDest", None, "parse_from_str")?;
        let mut kws = vec![];
        for a in super::ext::arms(&p.block) {
            if let syn::Pat::Lit(l) = &a.pat {
                if let syn::Lit::Str(st) = &l.lit {
                    let body = toks(&a.body);
                    let kind = if body == "Ok(LogOutputDest::Stdout)" { 0 } else if body == "Ok(LogOutputDest::Stderr)" { 2 } else { 1 };
                    kws.push(format!("({}, {kind})", lb(&st.value())));
                }
            }
        }
        if !toks(&p.block).contains("value=>Ok(LogOutputDest::Path(PathBuf::from(value)))") {
            return Err("LogOutputDest::parse_from_str: expected the catch-all `value => Ok(LogOutputDest::Path(PathBuf::from(value)))`".into());
        }
        s.push_str(&format!("\n/-- {rel} `impl Display for LogOutputDest`: the text of `Stderr` and of `Stdout` (`Path(p)` prints `p.to_string_lossy()`); the keywords of `parse_from_str` as bytes with what they give (0 Stdout, 2 Stderr, 1 another value), every other text is `Path(text)` -/\ndef logDestDisplayStderr : List Nat := {}\ndef logDestDisplayStdout : List Nat := {}\ndef logDestKeywordBytes : List (List Nat × Nat) := [{}]\n", lb(&lit_of("Stderr")?), lb(&lit_of("Stdout")?), kws.join(", ")));
        sites_def(s, "logDestDisplaySites", &sites(&f.block, &no_env, false, false));
    }

    // --- antctl local kill: the faucet's pid; antctl upgrade: nodes[0] in a log statement
    {
        let rel = "ant-node-manager/src/local.rs";
        let file = parse_file(&repo.join(rel))?;
        let f = free_fn(&file, "kill_network")?;
        let body = toks(&f.block);
        let checked = flag(&body, &["faucet.pid.and_then(|pid|system.process(Pid::from(pidasusize)))"], &["system.process(Pid::from(faucet.pid.unwrap()asusize))"], "kill_network")?;
        s.push_str(&format!("\n/-- {rel} `kill_network`: a faucet entry whose `pid` is null has no process to kill (`and_then`), not `unwrap` -/\ndef faucetPidChecked : Bool := {}\n", lean_bool(checked)));
        let mut st = sites(&f.block, &no_env, false, false);
        if !checked && !remove_one(&mut st, "unwrap") {
            return Err("kill_network: the `unwrap` was not seen by the scan".into());
        }
        sites_def(s, "killNetworkSites", &st);

        let rel = "ant-node-manager/src/cmd/node.rs";
        let file = parse_file(&repo.join(rel))?;
        let f = free_fn(&file, "upgrade")?;
        let body = toks(&f.block);
        let checked = flag(&body, &["node_registry.nodes.first().and_then(|n|n.listen_addr.as_ref())"], &["node_registry.nodes[0].listen_addr"], "cmd::node::upgrade")?;
        s.push_str(&format!("/-- {rel} `upgrade`: the `debug!` after the refresh reads the first service with `first()`, not `nodes[0]` -/\ndef upgradeFirstNodeChecked : Bool := {}\n", lean_bool(checked)));
        let mut st = sites(&f.block, &no_env, false, false);
        if !checked && !remove_one(&mut st, "index") {
            return Err("cmd::node::upgrade: the `nodes[0]` was not seen by the scan".into());
        }
        // `node_registry.nodes[index]`: modelled (`upgradeIndexSites`) when every index is a `position` in that same list
        // and the list is not resized between `get_services_for_ops` and the loop that indexes
        let g = free_fn(&file, "get_services_for_ops")?;
        let gb = toks(&g.block);
        let pushes = gb.matches("service_indices.push(").count();
        let bound = gb.matches("ifletSome(index)=node_registry.nodes.iter().position(").count();
        let from_position = pushes > 0 && pushes == gb.matches("service_indices.push(index);").count() && pushes == bound && gb.contains("Ok(service_indices)") && !gb.contains("service_indices[");
        let at = stmt_pos(&f.block, "letservice_indices=get_services_for_ops(&node_registry,peer_ids,service_names)?;");
        let lp = stmt_pos(&f.block, "for&indexin&service_indices{");
        let tail_ok = match (at, lp) {
            (Some(a), Some(l)) if a < l => {
                let loop_toks = toks(&f.block.stmts[l]);
                let between: String = f.block.stmts[a + 1..=l].iter().map(toks).collect();
                loop_toks.matches("node_registry.nodes[").count() == 1
                    && loop_toks.contains("letnode=&mutnode_registry.nodes[index];")
                    && !["node_registry.nodes.push(", "node_registry.nodes.remove(", "node_registry.nodes.retain(", "node_registry.nodes.clear(", "node_registry.nodes.truncate(", "node_registry.nodes.pop(", "node_registry.nodes.drain(", "node_registry.nodes=", "node_registry=", "&mutnode_registry)", "&mutnode_registry,"].iter().any(|m| between.contains(m))
            }
            _ => false,
        };
        let modelled = from_position && tail_ok;
        if modelled && !remove_one(&mut st, "index") {
            return Err("cmd::node::upgrade: `nodes[index]` was not seen by the scan".into());
        }
        s.push_str(&format!("/-- `upgrade` indexes `node_registry.nodes[index]` once, inside `for &index in &service_indices`; `get_services_for_ops` pushes nothing but the result of `node_registry.nodes.iter().position(..)` ({pushes} pushes), and the list is neither resized nor replaced between the two -/\ndef upgradeIndexFromPosition : Bool := {}\n", lean_bool(modelled)));
        sites_def(s, "servicesForOpsSites", &sites(&g.block, &no_env, false, false));
        sites_def(s, "upgradeSites", &st);
    }
    Ok(())
}
