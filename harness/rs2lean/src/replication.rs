//! ant-networking/src/{cmd.rs, driver.rs, event/request_response.rs}, ant-protocol/src/lib.rs
//!   → lean/SafeNet/Gen/Replication.lean
//! What is read: K_VALUE (libp2p-kad), CLOSE_GROUP_SIZE, MIN_REPLICATION_INTERVAL_S, REPLICATION_TIMEOUT; the guard of the
//! `Cmd::Replicate` handler (closest-K membership, not self); the shape of `get_closest_k_value_local_peers` (self first,
//! then the nearest peers, cut at K_VALUE); that the handler passes the request's `holder`/`keys` on and filters against
//! the whole local index; that `try_interval_replication` lists the whole index unfiltered and sends it to every remaining
//! target; the comparison operators of the throttle and of the per-target timestamp; the selection step of
//! `get_replicate_candidates`.
//!
//! Recognition is by DATA FLOW, not by identifier: every function body is walked in source order with an environment that
//! maps each local (let / if-let / let-else / match-arm / for / closure binding, function parameter) to the canonical text
//! of what it is bound to, private same-file helpers are entered with their parameters bound to the call's arguments, log
//! macros are skipped, `.clone()` is dropped and comparisons are normalised to `<` / `<=`. Every emitted flag is two-sided:
//! `true` on positively recognising the checked shape, `false` on positively recognising the known weaker alternative,
//! anything else is a refusal (`Err`).
use crate::util::*;
use std::path::PathBuf;
use syn::visit::Visit;

fn toks<T: quote::ToTokens>(e: &T) -> String {
    quote::ToTokens::to_token_stream(e).to_string().replace(' ', "")
}

fn lean_cmp(name: &str, doc: &str, op: &str) -> Result<String, String> {
    let l = match op {
        "<" => "a < b",
        "<=" => "a ≤ b",
        ">" => "b < a",
        ">=" => "b ≤ a",
        o => return Err(format!("{name}: unsupported operator {o}")),
    };
    Ok(format!("/-- {doc}: source operator `{op}` -/\ndef {name} (a b : Nat) : Bool := decide ({l})\n"))
}

// ---------------------------------------------------------------------------------------------------------
// data-flow walker
// ---------------------------------------------------------------------------------------------------------
mod flow {
    use proc_macro2::{TokenStream, TokenTree};
    use std::collections::HashMap;
    use syn::visit::Visit;

    #[derive(Clone, Debug)]
    pub struct Fact {
        pub seq: usize,
        pub ctx: Vec<String>,
        pub text: String,
    }
    #[derive(Clone, Debug)]
    pub struct IfFact {
        pub seq: usize,
        pub ctx: Vec<String>,
        pub cond: String,
        /// the then-branch ends in `return` / `continue` / `break`
        pub diverges: bool,
        /// `Some((l, op, r))` with op in `<`, `<=`, `==`, `!=` when the condition is one comparison
        pub cmp: Option<(String, String, String)>,
    }
    #[derive(Clone, Debug)]
    pub struct StructFact {
        pub seq: usize,
        pub ctx: Vec<String>,
        pub name: String,
        pub fields: Vec<(String, String)>,
    }

    pub struct Walker {
        helpers: Vec<(String, syn::Signature, syn::Block)>,
        stop: Vec<String>,
        depth: usize,
        pub env: HashMap<String, String>,
        ctx: Vec<String>,
        seq: usize,
        closures: usize,
        pub calls: Vec<Fact>,
        pub ifs: Vec<IfFact>,
        pub cmps: Vec<(Vec<String>, String, String, String)>,
        pub fors: Vec<Fact>,
        pub structs: Vec<StructFact>,
        pub lets: Vec<(String, String)>,
        pub tail: Option<String>,
    }

    const LOGS: [&str; 6] = ["debug", "info", "warn", "error", "trace", "println"];

    fn subst(ts: TokenStream, env: &HashMap<String, String>, out: &mut String) {
        let v: Vec<TokenTree> = ts.into_iter().collect();
        for (i, t) in v.iter().enumerate() {
            match t {
                TokenTree::Group(g) => {
                    let (o, c) = match g.delimiter() {
                        proc_macro2::Delimiter::Parenthesis => ("(", ")"),
                        proc_macro2::Delimiter::Brace => ("{", "}"),
                        proc_macro2::Delimiter::Bracket => ("[", "]"),
                        proc_macro2::Delimiter::None => ("", ""),
                    };
                    out.push_str(o);
                    subst(g.stream(), env, out);
                    out.push_str(c);
                }
                TokenTree::Ident(id) => {
                    let name = id.to_string();
                    let prev_dot = i > 0 && matches!(&v[i - 1], TokenTree::Punct(p) if p.as_char() == '.');
                    // `a::b` path segment (not the single colon of `field: value`)
                    let prev_colon = i > 1
                        && matches!(&v[i - 1], TokenTree::Punct(p) if p.as_char() == ':')
                        && matches!(&v[i - 2], TokenTree::Punct(p) if p.as_char() == ':');
                    let next_colon = matches!(v.get(i + 1), Some(TokenTree::Punct(p)) if p.as_char() == ':');
                    let next_bang = matches!(v.get(i + 1), Some(TokenTree::Punct(p)) if p.as_char() == '!')
                        && !matches!(v.get(i + 2), Some(TokenTree::Punct(p)) if p.as_char() == '=');
                    match env.get(&name) {
                        Some(e) if !prev_dot && !prev_colon && !next_colon && !next_bang => out.push_str(e),
                        _ => {
                            // keep keywords apart from what follows
                            out.push_str(&name);
                            if ["let", "mut", "return", "in", "as", "move", "ref", "else", "if", "match", "for"].contains(&name.as_str()) {
                                out.push(' ');
                            }
                        }
                    }
                }
                TokenTree::Punct(p) => out.push(p.as_char()),
                TokenTree::Literal(l) => out.push_str(&l.to_string()),
            }
        }
    }

    fn strip_parens(s: &str) -> String {
        let mut s = s.trim().to_string();
        loop {
            if s.starts_with('(') && s.ends_with(')') {
                // only when the first paren closes at the end
                let mut d = 0;
                let mut closes_at_end = true;
                for (i, c) in s.char_indices() {
                    if c == '(' {
                        d += 1;
                    } else if c == ')' {
                        d -= 1;
                        if d == 0 && i != s.len() - 1 {
                            closes_at_end = false;
                            break;
                        }
                    }
                }
                if closes_at_end {
                    s = s[1..s.len() - 1].trim().to_string();
                    continue;
                }
            }
            return s;
        }
    }

    fn diverging(e: &syn::Expr) -> bool {
        matches!(e, syn::Expr::Return(_) | syn::Expr::Continue(_) | syn::Expr::Break(_))
    }
    fn block_diverges(b: &syn::Block) -> bool {
        match b.stmts.last() {
            Some(syn::Stmt::Expr(e, _)) => diverging(e),
            _ => false,
        }
    }
    fn block_tail(b: &syn::Block) -> Option<&syn::Expr> {
        match b.stmts.last() {
            Some(syn::Stmt::Expr(e, None)) => Some(e),
            _ => None,
        }
    }

    impl Walker {
        pub fn new(file: &syn::File, stop: &[&str]) -> Self {
            Walker {
                helpers: private_helpers(file),
                stop: stop.iter().map(|s| s.to_string()).collect(),
                depth: 0,
                env: HashMap::new(),
                ctx: vec![],
                seq: 0,
                closures: 0,
                calls: vec![],
                ifs: vec![],
                cmps: vec![],
                fors: vec![],
                structs: vec![],
                lets: vec![],
                tail: None,
            }
        }

        /// walk a function: parameters become `$1`, `$2`, … (`self` stays)
        pub fn walk_fn(&mut self, sig: &syn::Signature, block: &syn::Block) {
            let mut n = 0;
            for a in &sig.inputs {
                if let syn::FnArg::Typed(t) = a {
                    n += 1;
                    let src = format!("${n}");
                    self.bind_pat(&t.pat, &src);
                }
            }
            self.visit_block(block);
            self.tail = block_tail(block).map(|e| self.value_of(e));
        }

        pub fn canon<T: quote::ToTokens>(&self, t: &T) -> String {
            let mut out = String::new();
            let ts = quote::ToTokens::to_token_stream(t);
            // closure parameters inside the expression are renamed positionally ($c0, $c1, …)
            struct Cl(Vec<(String, String)>);
            impl<'ast> Visit<'ast> for Cl {
                fn visit_expr_closure(&mut self, c: &'ast syn::ExprClosure) {
                    for (i, p) in c.inputs.iter().enumerate() {
                        let mut q = p;
                        loop {
                            match q {
                                syn::Pat::Type(t) => q = &t.pat,
                                syn::Pat::Reference(r) => q = &r.pat,
                                _ => break,
                            }
                        }
                        if let syn::Pat::Ident(id) = q {
                            self.0.push((id.ident.to_string(), format!("$c{i}")));
                        }
                    }
                    syn::visit::visit_expr_closure(self, c);
                }
            }
            let mut env = self.env.clone();
            if let Ok(e) = syn::parse2::<syn::Expr>(ts.clone()) {
                let mut cl = Cl(vec![]);
                cl.visit_expr(&e);
                for (k, v) in cl.0 {
                    env.insert(k, v);
                }
            }
            subst(ts, &env, &mut out);
            strip_parens(&out.replace(".clone()", ""))
        }

        fn next(&mut self) -> usize {
            self.seq += 1;
            self.seq
        }

        fn bind_pat(&mut self, pat: &syn::Pat, src: &str) {
            match pat {
                syn::Pat::Ident(i) => {
                    self.env.insert(i.ident.to_string(), src.to_string());
                }
                syn::Pat::Type(t) => self.bind_pat(&t.pat, src),
                syn::Pat::Reference(r) => self.bind_pat(&r.pat, src),
                syn::Pat::Paren(p) => self.bind_pat(&p.pat, src),
                syn::Pat::TupleStruct(ts) => {
                    let c = ts.path.segments.last().map(|s| s.ident.to_string()).unwrap_or_default();
                    if ts.elems.len() == 1 {
                        let s = format!("{c}<{src}>");
                        self.bind_pat(&ts.elems[0], &s);
                    } else {
                        for (i, e) in ts.elems.iter().enumerate() {
                            let s = format!("{c}.{i}<{src}>");
                            self.bind_pat(e, &s);
                        }
                    }
                }
                syn::Pat::Tuple(t) => {
                    for (i, e) in t.elems.iter().enumerate() {
                        let s = format!("#{i}<{src}>");
                        self.bind_pat(e, &s);
                    }
                }
                syn::Pat::Struct(st) => {
                    let c = st.path.segments.last().map(|s| s.ident.to_string()).unwrap_or_default();
                    for f in &st.fields {
                        let m = match &f.member {
                            syn::Member::Named(i) => i.to_string(),
                            syn::Member::Unnamed(i) => i.index.to_string(),
                        };
                        let s = format!("{src}→{c}.{m}");
                        self.bind_pat(&f.pat, &s);
                    }
                }
                _ => {}
            }
        }

        /// canonical text of the VALUE of an expression: `if let P = E { tail } else { diverge }`, the corresponding
        /// `match`, blocks with a tail and calls of single-expression private helpers are looked through
        pub fn value_of(&mut self, e: &syn::Expr) -> String {
            match e {
                syn::Expr::Paren(p) => self.value_of(&p.expr),
                syn::Expr::If(i) => {
                    if let syn::Expr::Let(l) = &*i.cond {
                        if let Some(t) = block_tail(&i.then_branch) {
                            if i.then_branch.stmts.len() == 1 {
                                let s = self.value_of(&l.expr);
                                let saved = self.env.clone();
                                self.bind_pat(&l.pat, &s);
                                let v = self.value_of(t);
                                self.env = saved;
                                return v;
                            }
                        }
                    }
                    self.canon(e)
                }
                syn::Expr::Match(m) => {
                    let live: Vec<&syn::Arm> = m.arms.iter().filter(|a| !diverging(&a.body) && !matches!(&*a.body, syn::Expr::Block(b) if block_diverges(&b.block))).collect();
                    if live.len() == 1 && live[0].guard.is_none() {
                        let s = self.value_of(&m.expr);
                        let saved = self.env.clone();
                        self.bind_pat(&live[0].pat, &s);
                        let v = self.value_of(&live[0].body);
                        self.env = saved;
                        return v;
                    }
                    self.canon(e)
                }
                syn::Expr::Block(b) if b.block.stmts.len() == 1 => match block_tail(&b.block) {
                    Some(t) => self.value_of(t),
                    None => self.canon(e),
                },
                syn::Expr::MethodCall(m) => {
                    if let Some((sig, body)) = self.helper(&m.method.to_string()) {
                        if toks(&*m.receiver) == "self" && body.stmts.len() == 1 {
                            if let Some(t) = block_tail(&body) {
                                let args: Vec<String> = m.args.iter().map(|a| self.value_of(a)).collect();
                                return self.inline_value(&sig, t, &args);
                            }
                        }
                    }
                    self.canon(e)
                }
                syn::Expr::Call(c) => {
                    let name = toks(&*c.func).rsplit("::").next().unwrap_or("").to_string();
                    if let Some((sig, body)) = self.helper(&name) {
                        if body.stmts.len() == 1 {
                            if let Some(t) = block_tail(&body) {
                                let args: Vec<String> = c.args.iter().map(|a| self.value_of(a)).collect();
                                return self.inline_value(&sig, t, &args);
                            }
                        }
                    }
                    self.canon(e)
                }
                _ => self.canon(e),
            }
        }

        fn inline_value(&mut self, sig: &syn::Signature, tail: &syn::Expr, args: &[String]) -> String {
            let saved = self.env.clone();
            let mut n = 0;
            for a in &sig.inputs {
                if let syn::FnArg::Typed(t) = a {
                    if let Some(v) = args.get(n) {
                        let v = v.clone();
                        self.bind_pat(&t.pat, &v);
                    }
                    n += 1;
                }
            }
            let v = self.value_of(tail);
            self.env = saved;
            v
        }

        /// a PRIVATE same-file fn that is not modelled in its own right
        fn helper(&self, name: &str) -> Option<(syn::Signature, syn::Block)> {
            if self.stop.iter().any(|s| s == name) || self.depth >= 3 {
                return None;
            }
            self.helpers.iter().find(|(n, _, _)| n == name).map(|(_, s, b)| (s.clone(), b.clone()))
        }

        /// the facts inside a private helper, with its parameters bound to the arguments of this call
        fn enter_helper(&mut self, name: &str, args: Vec<String>) {
            if let Some((sig, body)) = self.helper(name) {
                let body = &body;
                let saved = self.env.clone();
                let mut n = 0;
                for a in &sig.inputs {
                    if let syn::FnArg::Typed(t) = a {
                        if let Some(v) = args.get(n) {
                            self.bind_pat(&t.pat, v);
                        }
                        n += 1;
                    }
                }
                self.depth += 1;
                self.ctx.push(format!("call:{name}"));
                self.visit_block(body);
                self.ctx.pop();
                self.depth -= 1;
                self.env = saved;
            }
        }
    }

    fn toks<T: quote::ToTokens>(e: &T) -> String {
        quote::ToTokens::to_token_stream(e).to_string().replace(' ', "")
    }

    impl<'ast> Visit<'ast> for Walker {
        fn visit_local(&mut self, l: &'ast syn::Local) {
            if let Some(init) = &l.init {
                self.visit_expr(&init.expr);
                if let Some((_, d)) = &init.diverge {
                    self.visit_expr(d);
                }
                let v = self.value_of(&init.expr);
                self.bind_pat(&l.pat, &v);
                if let syn::Pat::Ident(i) = &l.pat {
                    self.lets.push((i.ident.to_string(), v));
                } else if let syn::Pat::Type(t) = &l.pat {
                    if let syn::Pat::Ident(i) = &*t.pat {
                        self.lets.push((i.ident.to_string(), v));
                    }
                }
            }
        }

        fn visit_expr_if(&mut self, i: &'ast syn::ExprIf) {
            if let syn::Expr::Let(l) = &*i.cond {
                self.visit_expr(&l.expr);
                let s = self.value_of(&l.expr);
                let saved = self.env.clone();
                self.bind_pat(&l.pat, &s);
                self.ctx.push(format!("iflet:{}={s}", toks(&*l.pat)));
                self.visit_block(&i.then_branch);
                self.ctx.pop();
                self.env = saved;
                if let Some((_, e)) = &i.else_branch {
                    self.ctx.push(format!("elselet:{s}"));
                    self.visit_expr(e);
                    self.ctx.pop();
                }
                return;
            }
            self.visit_expr(&i.cond);
            let cond = self.canon(&*i.cond);
            let cmp = match &*i.cond {
                syn::Expr::Binary(b) => norm_cmp(&self.canon(&*b.left), &toks(&b.op), &self.canon(&*b.right)),
                _ => None,
            };
            let seq = self.next();
            self.ifs.push(IfFact { seq, ctx: self.ctx.clone(), cond: cond.clone(), diverges: block_diverges(&i.then_branch), cmp });
            self.ctx.push(format!("if:{cond}"));
            self.visit_block(&i.then_branch);
            self.ctx.pop();
            if let Some((_, e)) = &i.else_branch {
                self.ctx.push(format!("else:{cond}"));
                self.visit_expr(e);
                self.ctx.pop();
            }
        }

        fn visit_expr_match(&mut self, m: &'ast syn::ExprMatch) {
            self.visit_expr(&m.expr);
            let s = self.value_of(&m.expr);
            for a in &m.arms {
                let saved = self.env.clone();
                self.bind_pat(&a.pat, &s);
                self.ctx.push(format!("arm:{}", toks(&a.pat)));
                if let Some((_, g)) = &a.guard {
                    self.visit_expr(g);
                }
                self.visit_expr(&a.body);
                self.ctx.pop();
                self.env = saved;
            }
        }

        fn visit_expr_for_loop(&mut self, f: &'ast syn::ExprForLoop) {
            self.visit_expr(&f.expr);
            let it = self.canon(&*f.expr);
            let seq = self.next();
            self.fors.push(Fact { seq, ctx: self.ctx.clone(), text: it.clone() });
            let saved = self.env.clone();
            let s = format!("Each<{it}>");
            self.bind_pat(&f.pat, &s);
            self.ctx.push(format!("for:{it}"));
            self.visit_block(&f.body);
            self.ctx.pop();
            self.env = saved;
        }

        fn visit_expr_closure(&mut self, c: &'ast syn::ExprClosure) {
            self.closures += 1;
            let d = self.closures;
            let saved = self.env.clone();
            for (i, p) in c.inputs.iter().enumerate() {
                let s = format!("$c{i}");
                let _ = d;
                self.bind_pat(p, &s);
            }
            self.visit_expr(&c.body);
            self.env = saved;
        }

        fn visit_expr_method_call(&mut self, m: &'ast syn::ExprMethodCall) {
            let text = self.canon(m);
            let seq = self.next();
            self.calls.push(Fact { seq, ctx: self.ctx.clone(), text });
            let has_closure = m.args.iter().any(|a| matches!(a, syn::Expr::Closure(_)));
            self.visit_expr(&m.receiver);
            if has_closure {
                self.ctx.push(format!("in:{}.{}", self.canon(&*m.receiver), m.method));
            }
            for a in &m.args {
                self.visit_expr(a);
            }
            if has_closure {
                self.ctx.pop();
            }
            if toks(&*m.receiver) == "self" {
                let args: Vec<String> = m.args.iter().map(|a| self.value_of(a)).collect();
                self.enter_helper(&m.method.to_string(), args);
            }
        }

        fn visit_expr_call(&mut self, c: &'ast syn::ExprCall) {
            let text = self.canon(c);
            let seq = self.next();
            self.calls.push(Fact { seq, ctx: self.ctx.clone(), text });
            syn::visit::visit_expr_call(self, c);
            let name = toks(&*c.func).rsplit("::").next().unwrap_or("").to_string();
            let args: Vec<String> = c.args.iter().map(|a| self.value_of(a)).collect();
            self.enter_helper(&name, args);
        }

        fn visit_expr_binary(&mut self, b: &'ast syn::ExprBinary) {
            if let Some((l, op, r)) = norm_cmp(&self.canon(&*b.left), &toks(&b.op), &self.canon(&*b.right)) {
                self.cmps.push((self.ctx.clone(), l, op, r));
            }
            syn::visit::visit_expr_binary(self, b);
        }

        fn visit_expr_struct(&mut self, s: &'ast syn::ExprStruct) {
            let name = s.path.segments.last().map(|x| x.ident.to_string()).unwrap_or_default();
            let mut fields: Vec<(String, String)> = s
                .fields
                .iter()
                .map(|f| {
                    let m = match &f.member {
                        syn::Member::Named(i) => i.to_string(),
                        syn::Member::Unnamed(i) => i.index.to_string(),
                    };
                    (m, self.canon(&f.expr))
                })
                .collect();
            fields.sort();
            let seq = self.next();
            self.structs.push(StructFact { seq, ctx: self.ctx.clone(), name, fields });
            syn::visit::visit_expr_struct(self, s);
        }

        fn visit_macro(&mut self, m: &'ast syn::Macro) {
            let name = m.path.segments.last().map(|s| s.ident.to_string()).unwrap_or_default();
            if LOGS.contains(&name.as_str()) {
                return;
            }
            // other macros are opaque
        }
    }

    fn private_helpers(file: &syn::File) -> Vec<(String, syn::Signature, syn::Block)> {
        let mut v = vec![];
        for it in &file.items {
            match it {
                syn::Item::Fn(f) if matches!(f.vis, syn::Visibility::Inherited) => v.push((f.sig.ident.to_string(), f.sig.clone(), (*f.block).clone())),
                syn::Item::Impl(i) if i.trait_.is_none() => {
                    for ii in &i.items {
                        if let syn::ImplItem::Fn(f) = ii {
                            if matches!(f.vis, syn::Visibility::Inherited) {
                                v.push((f.sig.ident.to_string(), f.sig.clone(), f.block.clone()));
                            }
                        }
                    }
                }
                _ => {}
            }
        }
        v
    }

    /// comparisons normalised to `<`, `<=`, `==`, `!=` (operands swapped for `>` / `>=`)
    pub fn norm_cmp(l: &str, op: &str, r: &str) -> Option<(String, String, String)> {
        match op {
            "<" | "<=" | "==" | "!=" => Some((l.to_string(), op.to_string(), r.to_string())),
            ">" => Some((r.to_string(), "<".to_string(), l.to_string())),
            ">=" => Some((r.to_string(), "<=".to_string(), l.to_string())),
            _ => None,
        }
    }
}
fn k_value(repo: &PathBuf) -> Result<u128, String> {
    let lock = std::fs::read_to_string(repo.join("Cargo.lock")).map_err(|e| format!("Cargo.lock: {e}"))?;
    let mut ver = None;
    let mut lines = lock.lines();
    while let Some(l) = lines.next() {
        if l.trim() == "name = \"libp2p-kad\"" {
            if let Some(v) = lines.next() {
                ver = v.trim().strip_prefix("version = \"").and_then(|s| s.strip_suffix('"')).map(|s| s.to_string());
            }
            break;
        }
    }
    let ver = ver.ok_or("libp2p-kad not found in Cargo.lock")?;
    let home = std::env::var("CARGO_HOME").unwrap_or_else(|_| format!("{}/.cargo", std::env::var("HOME").unwrap_or_else(|_| "/root".into())));
    let src = PathBuf::from(home).join("registry/src");
    let mut found = None;
    for d in std::fs::read_dir(&src).map_err(|e| format!("{}: {e}", src.display()))? {
        let p = d.map_err(|e| e.to_string())?.path().join(format!("libp2p-kad-{ver}/src/lib.rs"));
        if p.exists() {
            found = Some(p);
        }
    }
    let p = found.ok_or(format!("libp2p-kad-{ver}/src/lib.rs not found in the cargo registry"))?;
    let file = parse_file(&p)?;
    for (n, e) in consts(&file) {
        if n == "K_VALUE" {
            struct Lits(Vec<u128>);
            impl<'ast> Visit<'ast> for Lits {
                fn visit_lit_int(&mut self, i: &'ast syn::LitInt) {
                    if let Ok(x) = i.base10_parse::<u128>() {
                        self.0.push(x);
                    }
                }
            }
            let mut l = Lits(vec![]);
            l.visit_expr(&e);
            if l.0.len() == 1 {
                return Ok(l.0[0]);
            }
            return Err(format!("K_VALUE: expected exactly one integer literal in `{}`", toks(&e)));
        }
    }
    Err("K_VALUE not found in libp2p-kad".into())
}


// ---------------------------------------------------------------------------------------------------------
// recognisers
// ---------------------------------------------------------------------------------------------------------
const SELF_ADDR: &str = "NetworkAddress::from_peer(self.self_peer_id)";
const STORE: &str = "self.swarm.behaviour_mut().kademlia.store_mut()";
const KAD: &str = "self.swarm.behaviour_mut().kademlia";
/// functions that are modelled in their own right: never looked through as helpers
const MODELLED: [&str; 6] = [
    "try_interval_replication",
    "get_replicate_candidates",
    "get_peers_in_range",
    "add_keys_to_replication_fetcher",
    "get_closest_k_value_local_peers",
    "handle_req_resp_events",
];

fn walk(file: &syn::File, f: &syn::ImplItemFn) -> flow::Walker {
    let mut w = flow::Walker::new(file, &MODELLED);
    w.walk_fn(&f.sig, &f.block);
    if std::env::var("RS2LEAN_DEBUG").map(|v| v == f.sig.ident.to_string()).unwrap_or(false) {
        for c in &w.calls {
            eprintln!("CALL {} {:?} {}", c.seq, c.ctx, c.text);
        }
        for i in &w.ifs {
            eprintln!("IF {} {:?} {} div={} cmp={:?}", i.seq, i.ctx, i.cond, i.diverges, i.cmp);
        }
        for c in &w.cmps {
            eprintln!("CMP {:?} {} {} {}", c.0, c.1, c.2, c.3);
        }
        for f in &w.fors {
            eprintln!("FOR {:?} {}", f.ctx, f.text);
        }
        for s in &w.structs {
            eprintln!("STRUCT {:?} {} {:?}", s.ctx, s.name, s.fields);
        }
        for l in &w.lets {
            eprintln!("LET {} = {}", l.0, l.1);
        }
        eprintln!("TAIL {:?}", w.tail);
    }
    w
}

/// `text` is exactly one call `prefix…)` (prefix ends with the opening parenthesis), nothing chained after it
fn whole_call(text: &str, prefix: &str) -> bool {
    if !text.starts_with(prefix) {
        return false;
    }
    let mut d = 1;
    for (i, c) in text[prefix.len()..].char_indices() {
        match c {
            '(' => d += 1,
            ')' => {
                d -= 1;
                if d == 0 {
                    return prefix.len() + i == text.len() - 1;
                }
            }
            _ => {}
        }
    }
    false
}

fn no_adaptors(s: &str) -> bool {
    ![".filter(", ".filter_map(", ".take(", ".skip(", ".take_while(", ".skip_while(", ".step_by("].iter().any(|a| s.contains(a))
}

struct Interval {
    throttle_op: String,
    fresh_op: String,
    skips_empty: bool,
}

fn read_interval(cmd: &syn::File) -> Result<Interval, String> {
    let f = impl_fn(cmd, "SwarmDriver", None, "try_interval_replication")?;
    let w = walk(cmd, f);
    let at = "try_interval_replication";
    let index = format!("{STORE}.record_addresses_ref()");
    let cands = format!("self.get_replicate_candidates(&{SELF_ADDR})");

    // throttle: a returning `if` whose condition compares `<last_replication>.elapsed()` with MIN_REPLICATION_INTERVAL_S
    let is_elapsed = |s: &str| s.ends_with(".elapsed()") && s.contains("self.last_replication");
    let thr: Vec<&flow::IfFact> = w
        .ifs
        .iter()
        .filter(|i| matches!(&i.cmp, Some((l, _, r)) if (is_elapsed(l) && r == "MIN_REPLICATION_INTERVAL_S") || (is_elapsed(r) && l == "MIN_REPLICATION_INTERVAL_S")))
        .collect();
    if thr.len() != 1 || !thr[0].diverges {
        return Err(format!("{at}: expected one returning `if` comparing last_replication.elapsed() with MIN_REPLICATION_INTERVAL_S, found {}", thr.len()));
    }
    let (l, op, _) = thr[0].cmp.clone().unwrap_or_default();
    // expressed as `elapsed OP minimum`
    let throttle_op = match (is_elapsed(&l), op.as_str()) {
        (true, "<") => "<",
        (true, "<=") => "<=",
        (false, "<") => ">",
        (false, "<=") => ">=",
        _ => return Err(format!("{at}: throttle comparison uses `{op}`")),
    }
    .to_string();
    if !["<", "<="].contains(&throttle_op.as_str()) {
        return Err(format!("{at}: the round is skipped when elapsed {throttle_op} minimum — not a throttle"));
    }

    // stale targets: `self.replication_targets.retain(|_, ts| *ts OP <Instant::now()>)`
    let fr: Vec<&(Vec<String>, String, String, String)> = w
        .cmps
        .iter()
        .filter(|(ctx, l, _, r)| ctx.iter().any(|c| c == "in:self.replication_targets.retain") && ((l == "*$c1" && r == "Instant::now()") || (r == "*$c1" && l == "Instant::now()")))
        .collect();
    if fr.len() != 1 {
        return Err(format!("{at}: expected `self.replication_targets.retain(|_, deadline| *deadline OP now)`, found {} such comparisons", fr.len()));
    }
    // expressed as `deadline OP now`
    let fresh_op = match (fr[0].1 == "*$c1", fr[0].2.as_str()) {
        (true, "<") => "<",
        (true, "<=") => "<=",
        (false, "<") => ">",
        (false, "<=") => ">=",
        _ => return Err(format!("{at}: target timestamp comparison uses `{}`", fr[0].2)),
    }
    .to_string();
    if ![">", ">="].contains(&fresh_op.as_str()) {
        return Err(format!("{at}: a target is kept when deadline {fresh_op} now — not an expiry"));
    }

    // candidates of self, minus the recently served ones
    let skip = format!("{cands}.retain(|$c0|!self.replication_targets.contains_key($c0))");
    if !w.calls.iter().any(|c| c.text == skip) {
        if w.calls.iter().any(|c| c.text.starts_with(&format!("{cands}.retain("))) {
            return Err(format!("{at}: the recently-served filter on the candidates is no longer `!self.replication_targets.contains_key(peer)`"));
        }
        return Err(format!("{at}: the targets are no longer `get_replicate_candidates(&self address)` filtered by replication_targets"));
    }

    // the advertised list: the whole index, unfiltered
    let list = format!("{index}.values().cloned().collect()");
    let reps: Vec<&flow::StructFact> = w.structs.iter().filter(|s| s.name == "Replicate").collect();
    if reps.len() != 1 {
        return Err(format!("{at}: expected one `Cmd::Replicate {{ .. }}`, found {}", reps.len()));
    }
    let field = |s: &flow::StructFact, n: &str| s.fields.iter().find(|(k, _)| k == n).map(|(_, v)| v.clone()).unwrap_or_default();
    let keys = field(reps[0], "keys");
    if keys != list {
        if keys.contains(&index) && !no_adaptors(&keys) {
            return Err(format!("{at}: the advertised key list is a FILTERED view of the index (`{keys}`): not every held record is advertised"));
        }
        return Err(format!("{at}: the advertised key list is `{keys}`, expected the whole index `{list}`"));
    }
    if field(reps[0], "holder") != SELF_ADDR {
        return Err(format!("{at}: the advertised holder is `{}`, expected this node's address", field(reps[0], "holder")));
    }

    // sent to every remaining target, each stamped with REPLICATION_TIMEOUT
    let loops: Vec<&flow::Fact> = w.fors.iter().filter(|f| f.text == cands).collect();
    if loops.len() != 1 {
        return Err(format!("{at}: expected one loop over the remaining targets, found {}", loops.len()));
    }
    let in_loop = |ctx: &Vec<String>| ctx.iter().any(|c| *c == format!("for:{cands}"));
    let each = format!("Each<{cands}>");
    let send = w.structs.iter().any(|s| s.name == "SendRequest" && in_loop(&s.ctx) && field(s, "peer") == each && field(s, "req").contains("Cmd::Replicate{") && field(s, "req").contains(&list));
    let queued = w.calls.iter().any(|c| in_loop(&c.ctx) && c.text.starts_with("self.queue_network_swarm_cmd(NetworkSwarmCmd::SendRequest{"));
    if !(send && queued) {
        return Err(format!("{at}: the loop no longer queues `SendRequest {{ req: the Replicate request, peer: each target }}`"));
    }
    let stamp = format!("self.replication_targets.insert({each},Instant::now()+REPLICATION_TIMEOUT)");
    if !w.calls.iter().any(|c| in_loop(&c.ctx) && c.text == stamp) {
        return Err(format!("{at}: a served target is no longer stamped with `now + REPLICATION_TIMEOUT` inside the send loop"));
    }

    // nothing is sent (and nothing stamped) when the index is empty?
    let guard = format!("if:!{list}.is_empty()");
    let guarded = loops[0].ctx.iter().any(|c| *c == guard);
    let mentions_empty = loops[0].ctx.iter().any(|c| c.contains(".is_empty()"));
    let skips_empty = if guarded {
        true
    } else if !mentions_empty && loops[0].ctx.iter().all(|c| !c.starts_with("if:") && !c.starts_with("else:")) {
        false
    } else {
        return Err(format!("{at}: the send loop sits under conditions {:?} that are neither `!list.is_empty()` nor absent", loops[0].ctx));
    };
    Ok(Interval { throttle_op, fresh_op, skips_empty })
}

fn read_candidates(cmd: &syn::File) -> Result<(), String> {
    let f = impl_fn(cmd, "SwarmDriver", None, "get_replicate_candidates")?;
    let w = walk(cmd, f);
    let at = "get_replicate_candidates";
    let allp_prefix = format!("{KAD}.get_closest_local_peers(&$1.as_kbucket_key())");
    let allp = w
        .lets
        .iter()
        .map(|(_, v)| v.clone())
        .find(|v| v.starts_with(&allp_prefix) && v.ends_with(".collect()") && no_adaptors(v))
        .ok_or(format!("{at}: no local is bound to all local peers closest to the target (`get_closest_local_peers(&target.as_kbucket_key())…collect()` without filter/take)"))?;
    let range = format!("Some<{STORE}.get_farthest_replication_distance()>");
    let inr = format!("get_peers_in_range(&{allp},$1,{range})");
    if !w.calls.iter().any(|c| c.text == inr) {
        return Err(format!("{at}: the in-range peers are no longer `get_peers_in_range(all local peers, target, the store's responsible range)`"));
    }
    let len = format!("{inr}.len()");
    let enough: Vec<&flow::IfFact> = w.ifs.iter().filter(|i| matches!(&i.cmp, Some((l, _, r)) if *l == len || *r == len)).collect();
    if enough.len() != 1 || !enough[0].diverges {
        return Err(format!("{at}: expected one returning `if` on the number of in-range peers, found {}", enough.len()));
    }
    match enough[0].cmp.clone() {
        // `len >= CLOSE_GROUP_SIZE` normalises to `CLOSE_GROUP_SIZE <= len`
        Some((l, op, r)) if l == "CLOSE_GROUP_SIZE" && op == "<=" && r == len => {}
        Some((l, op, r)) => return Err(format!("{at}: in-range peers are returned when `{l} {op} {r}`; the distance model assumes `peers_in_range.len() >= CLOSE_GROUP_SIZE`")),
        None => return Err(format!("{at}: unreadable fallback condition")),
    }
    let tail = w.tail.clone().unwrap_or_default();
    let ok_tail = [format!("{allp}.iter().take(CLOSE_GROUP_SIZE).cloned().collect()"), format!("{allp}.into_iter().take(CLOSE_GROUP_SIZE).collect()")];
    if !ok_tail.contains(&tail) {
        return Err(format!("{at}: the fallback is `{tail}`, expected the first CLOSE_GROUP_SIZE of the distance-sorted peers"));
    }
    // get_peers_in_range: one comparison distance(address, peer) OP range, `<=` or `<` (the operator itself is read by the Distance translator)
    let g = free_fn(cmd, "get_peers_in_range")?;
    let mut gw = flow::Walker::new(cmd, &MODELLED);
    gw.walk_fn(&g.sig, &g.block);
    let is_dist = |s: &str| s.starts_with("convert_distance_to_u256(&$2.distance(&NetworkAddress::from_peer(");
    let hits: Vec<&(Vec<String>, String, String, String)> = gw.cmps.iter().filter(|(_, l, _, r)| (is_dist(l) && r == "$3") || (is_dist(r) && l == "$3")).collect();
    if hits.len() != 1 || !is_dist(&hits[0].1) {
        return Err(format!("get_peers_in_range: expected one comparison `distance(address, peer) <= / < range`, found {}", hits.len()));
    }
    Ok(())
}

struct Handler {
    arm_passes_on: bool,
    checks_sender: bool,
    sender_must_equal: bool,
    checks_close: bool,
    rejects_self: bool,
    emits_event: bool,
}

fn read_handler(rr: &syn::File) -> Result<Handler, String> {
    // the `Cmd::Replicate { holder, keys }` arm
    let h = impl_fn(rr, "SwarmDriver", None, "handle_req_resp_events")?;
    let hw = walk(rr, h);
    let in_arm = |ctx: &Vec<String>| ctx.iter().any(|c| c.starts_with("arm:Request::Cmd(") && c.contains("Replicate{"));
    let arm_exists = hw.calls.iter().any(|c| in_arm(&c.ctx)) || hw.structs.iter().any(|s| in_arm(&s.ctx));
    if !arm_exists {
        return Err("handle_req_resp_events: no `Request::Cmd(Cmd::Replicate { .. })` arm found".into());
    }
    let passes: Vec<&flow::Fact> = hw.calls.iter().filter(|c| in_arm(&c.ctx) && whole_call(&c.text, "self.add_keys_to_replication_fetcher(")).collect();
    let arm_passes_on = match passes.len() {
        0 => false,
        1 => {
            let t = &passes[0].text;
            let inner = &t["self.add_keys_to_replication_fetcher(".len()..t.len() - 1];
            let args: Vec<&str> = inner.split(',').collect();
            if args.len() == 2 && args[0].ends_with("→Replicate.holder") && args[1].ends_with("→Replicate.keys") {
                true
            } else {
                return Err(format!("handle_req_resp_events: the Replicate arm calls add_keys_to_replication_fetcher({inner}), not with the request's holder and keys"));
            }
        }
        n => return Err(format!("handle_req_resp_events: the Replicate arm calls add_keys_to_replication_fetcher {n} times")),
    };
    // under which conditions the arm makes that call. Three shapes are read, anything else is not translated:
    //   * unconditionally (the request's authenticated sender is not looked at)                          -> no guard
    //   * `if holder.as_peer_id() == Some(peer) { .. }` with `peer` of `Event::Message { message, peer }` -> guard, `==`
    //   * the same with `!=` (acts exactly on the lists whose holder field is NOT the sender)             -> guard, `!=`
    let mentions_peer = hw.cmps.iter().any(|(ctx, l, _, r)| in_arm(ctx) && (l.contains("Message.peer") || r.contains("Message.peer")));
    let (checks_sender, sender_must_equal) = if arm_passes_on {
        let conds: Vec<&String> = passes[0].ctx.iter().filter(|c| !c.starts_with("arm:")).collect();
        match conds.len() {
            0 => {
                if mentions_peer {
                    return Err("handle_req_resp_events: the Replicate arm compares the sending peer, but not as `if holder.as_peer_id() == Some(peer) { add_keys_to_replication_fetcher(holder, keys) }`".into());
                }
                (false, true)
            }
            1 => {
                let c = conds[0].as_str();
                let is_holder = |x: &str| x.ends_with("→Replicate.holder.as_peer_id()") && x.matches("→Replicate.holder").count() == 1;
                let is_sender = |x: &str| x == "Some($1→Message.peer)";
                let read = |cond: &str, op: &str| -> bool {
                    let sides: Vec<&str> = cond.split(op).collect();
                    sides.len() == 2 && ((is_holder(sides[0]) && is_sender(sides[1])) || (is_sender(sides[0]) && is_holder(sides[1])))
                };
                match c.strip_prefix("if:") {
                    Some(cond) if !cond.contains("!=") && read(cond, "==") => (true, true),
                    Some(cond) if read(cond, "!=") => (true, false),
                    _ => return Err(format!("handle_req_resp_events: the Replicate arm calls add_keys_to_replication_fetcher under `{c}`, which is neither unconditional nor `if holder.as_peer_id() == Some(peer)` with the request's sending peer")),
                }
            }
            _ => return Err(format!("handle_req_resp_events: the Replicate arm calls add_keys_to_replication_fetcher under several conditions {:?}", conds)),
        }
    } else {
        // no call at all: the sender check cannot be read either way
        if mentions_peer {
            return Err("handle_req_resp_events: the Replicate arm compares the sending peer but never calls add_keys_to_replication_fetcher".into());
        }
        (false, true)
    };

    let f = impl_fn(rr, "SwarmDriver", None, "add_keys_to_replication_fetcher")?;
    let w = walk(rr, f);
    let at = "add_keys_to_replication_fetcher";
    let holder = "Some<$1.as_peer_id()>";
    let ck = "self.get_closest_k_value_local_peers()";
    let index = format!("{STORE}.record_addresses_ref()");
    let add = format!("self.replication_fetcher.add_keys({holder},$2,{index})");
    let adds: Vec<&flow::Fact> = w.calls.iter().filter(|c| whole_call(&c.text, "self.replication_fetcher.add_keys(")).collect();
    if adds.len() != 1 || adds[0].text != add {
        return Err(format!("{at}: expected one `replication_fetcher.add_keys(the sender's peer id, the incoming keys, the whole local index)`, found {:?}", adds.iter().map(|c| c.text.clone()).collect::<Vec<_>>()));
    }
    if adds[0].ctx.iter().any(|c| c.starts_with("if:") || c.starts_with("for:") || c.starts_with("arm:")) {
        return Err(format!("{at}: add_keys is only reached under {:?}", adds[0].ctx));
    }
    // guards: returning `if`s before add_keys whose condition is a `||` of recognised atoms
    let close_atom = format!("!{ck}.contains(&{holder})");
    let self_atoms = [format!("{holder}==self.self_peer_id"), format!("self.self_peer_id=={holder}")];
    let mut checks_close = false;
    let mut rejects_self = false;
    for i in w.ifs.iter().filter(|i| i.diverges && i.seq < adds[0].seq && i.ctx.is_empty()) {
        for atom in i.cond.split("||") {
            if atom == close_atom {
                checks_close = true;
            } else if self_atoms.iter().any(|a| a == atom) {
                rejects_self = true;
            }
        }
    }
    let mentions_close = w.calls.iter().any(|c| c.text.contains("get_closest_k_value_local_peers")) || w.ifs.iter().any(|i| i.cond.contains("get_closest_k_value_local_peers"));
    if !checks_close && mentions_close {
        return Err(format!("{at}: the closest-K list is used, but not as `if !closest.contains(&holder) {{ return }}` before add_keys"));
    }
    let mentions_self = w.cmps.iter().any(|(_, l, _, r)| (l == holder && r == "self.self_peer_id") || (r == holder && l == "self.self_peer_id"));
    if !rejects_self && mentions_self {
        return Err(format!("{at}: the holder is compared with self, but not as `if holder == self {{ return }}` before add_keys"));
    }
    // the event
    let ev = format!("self.send_event(NetworkEvent::KeysToFetchForReplication({add}))");
    let evs: Vec<&flow::Fact> = w.calls.iter().filter(|c| whole_call(&c.text, "self.send_event(") && c.text.contains("KeysToFetchForReplication")).collect();
    let emits_event = if evs.is_empty() {
        false
    } else if evs.iter().any(|c| c.text == ev && c.seq > adds[0].seq && c.ctx.iter().all(|x| *x == format!("else:{add}.is_empty()") || *x == format!("if:!{add}.is_empty()"))) {
        true
    } else {
        return Err(format!("{at}: KeysToFetchForReplication is sent, but not as `send_event(KeysToFetchForReplication(result of add_keys))` when that result is non-empty"));
    };
    Ok(Handler { arm_passes_on, checks_sender, sender_must_equal, checks_close, rejects_self, emits_event })
}

fn read_closest(drv: &syn::File) -> Result<(), String> {
    let f = impl_fn(drv, "SwarmDriver", None, "get_closest_k_value_local_peers")?;
    let w = walk(drv, f);
    let tail = w.tail.clone().unwrap_or_default();
    let ok = ["std::iter::once(self.self_peer_id)", "iter::once(self.self_peer_id)", "once(self.self_peer_id)"].iter().any(|p| {
        let pre = format!("{p}.chain({KAD}.get_closest_local_peers(&self.self_peer_id.into())");
        tail.starts_with(&pre) && tail.ends_with(").take(K_VALUE.get()).collect()") && no_adaptors(&tail[pre.len()..tail.len() - ".take(K_VALUE.get()).collect()".len()])
    });
    if !ok {
        return Err(format!("get_closest_k_value_local_peers: result is `{tail}`, expected `once(self).chain(peers nearest to self).take(K_VALUE.get()).collect()`"));
    }
    Ok(())
}

/// ant-node/src/replication.rs, the task spawned by `fetch_replication_keys_without_wait`: what happens after
/// `store_replicated_in_record` returned. Two-sided:
/// * `true`: the `else` (= Ok) branch of `if let Err(..) = node.store_replicated_in_record(record).await` holds the ONLY
///   `notify_fetch_completed` call of the function, `node.network().notify_fetch_completed(k, t)` with `(k, t)` bound by
///   `if let Some((k, t)) = x`, `x` being `Self::fetched_record_type(&record).map(|t| (record.key.clone(), t))` computed
///   before the store call, and the helper maps Chunk ↦ Chunk, Scratchpad ↦ Scratchpad, Transaction | Register ↦
///   NonChunk(XorName::from_content(&record.value)), anything else ↦ None (what the `PutLocalRecord` handler derives);
/// * `false`: no `notify_fetch_completed` / `fetched_record_type` anywhere in the file and the `if let Err` is there;
/// * anything else is refused.
fn read_fetch_task(file: &syn::File) -> Result<bool, String> {
    let f = impl_fn(file, "Node", None, "fetch_replication_keys_without_wait")?;
    struct Ifs<'a>(Vec<&'a syn::ExprIf>);
    impl<'ast> Visit<'ast> for Ifs<'ast> {
        fn visit_expr_if(&mut self, i: &'ast syn::ExprIf) {
            if let syn::Expr::Let(l) = &*i.cond {
                if toks(&l.expr).contains(".store_replicated_in_record(") {
                    self.0.push(i);
                }
            }
            syn::visit::visit_expr_if(self, i);
        }
    }
    let mut ifs = Ifs(vec![]);
    ifs.visit_block(&f.block);
    let whole_fn = toks(&f.block);
    if ifs.0.len() != 1 || whole_fn.matches("store_replicated_in_record(").count() != 1 {
        return Err(format!(
            "fetch_replication_keys_without_wait: expected exactly one `if let Err(..) = node.store_replicated_in_record(record).await`, found {}",
            ifs.0.len()
        ));
    }
    let i = ifs.0[0];
    let syn::Expr::Let(l) = &*i.cond else { unreachable!() };
    if !toks(&l.pat).starts_with("Err(") || toks(&l.expr) != "node.store_replicated_in_record(record).await" {
        return Err(format!("fetch_replication_keys_without_wait: unexpected test `{}` = `{}`", toks(&l.pat), toks(&l.expr)));
    }
    let whole_file = toks(file);
    let n_file = whole_file.matches("notify_fetch_completed").count();
    let n_helper_uses = whole_file.matches("fetched_record_type").count();
    if n_file == 0 && n_helper_uses == 0 {
        return Ok(false);
    }
    // repaired shape
    let err_branch = toks(&i.then_branch);
    let ok_branch = match &i.else_branch {
        Some((_, e)) => toks(&**e),
        None => return Err("fetch_replication_keys_without_wait: notify_fetch_completed present but the store test has no else branch".into()),
    };
    if n_file != 1 || err_branch.contains("notify_fetch_completed") || ok_branch.matches("notify_fetch_completed").count() != 1 {
        return Err("fetch_replication_keys_without_wait: notify_fetch_completed must occur exactly once, in the Ok branch of the store test".into());
    }
    // `if let Some((k, t)) = x { node.network().notify_fetch_completed(k, t); }` inside the Ok branch
    struct Notes(Vec<(String, String, String)>);
    impl<'ast> Visit<'ast> for Notes {
        fn visit_expr_if(&mut self, i: &'ast syn::ExprIf) {
            if let syn::Expr::Let(l) = &*i.cond {
                self.0.push((toks(&l.pat), toks(&l.expr), toks(&i.then_branch)));
            }
            syn::visit::visit_expr_if(self, i);
        }
    }
    let mut notes = Notes(vec![]);
    if let Some((_, e)) = &i.else_branch {
        notes.visit_expr(e);
    }
    let hit: Vec<&(String, String, String)> = notes.0.iter().filter(|(_, _, body)| body.contains("notify_fetch_completed")).collect();
    if hit.len() != 1 {
        return Err("fetch_replication_keys_without_wait: the notify_fetch_completed call is not inside one `if let Some((key, type)) = ..`".into());
    }
    let (pat, src, body) = hit[0];
    let inner = pat.strip_prefix("Some((").and_then(|x| x.strip_suffix("))")).ok_or(format!("unexpected pattern {pat}"))?;
    let names: Vec<&str> = inner.split(',').collect();
    if names.len() != 2 || !body.contains(&format!("node.network().notify_fetch_completed({},{});", names[0], names[1])) {
        return Err(format!("fetch_replication_keys_without_wait: notify_fetch_completed is not called with the pair bound by `{pat}`"));
    }
    // `let x = Self::fetched_record_type(&record).map(|t| (record.key.clone(), t));` before the store test
    let want = format!("let{src}=Self::fetched_record_type(&record).map(|t|(record.key.clone(),t));");
    let at_let = whole_fn.find(&want);
    let at_store = whole_fn.find("node.store_replicated_in_record(record).await");
    match (at_let, at_store) {
        (Some(a), Some(b)) if a < b => {}
        _ => return Err(format!("fetch_replication_keys_without_wait: `{src}` is not `Self::fetched_record_type(&record).map(|t| (record.key.clone(), t))` computed before the store call")),
    }
    if n_helper_uses != 2 {
        return Err("fetched_record_type: expected one definition and one use".into());
    }
    // the helper
    let h = impl_fn(file, "Node", None, "fetched_record_type")?;
    let sig = toks(&h.sig);
    if sig != "fnfetched_record_type(record:&Record)->Option<RecordType>" {
        return Err(format!("fetched_record_type: unexpected signature {sig}"));
    }
    // braces and commas are layout here (one expression per arm)
    let body: String = toks(&h.block).chars().filter(|c| !matches!(c, '{' | '}' | ',')).collect();
    let want_body = "matchRecordHeader::from_record(record).ok()?.kindRecordKind::Chunk=>Some(RecordType::Chunk)RecordKind::Scratchpad=>Some(RecordType::Scratchpad)RecordKind::Transaction|RecordKind::Register=>Some(RecordType::NonChunk(XorName::from_content(&record.value)))_=>None";
    if body != want_body {
        return Err(format!("fetched_record_type: unrecognised body {body}"));
    }
    Ok(true)
}

pub fn generate(repo: &PathBuf) -> Result<String, String> {
    let k = k_value(repo)?;
    let proto = parse_file(&repo.join("ant-protocol/src/lib.rs"))?;
    let cgs = const_value(&proto, "CLOSE_GROUP_SIZE")?;

    let cmd_rel = "ant-networking/src/cmd.rs";
    let cmd = parse_file(&repo.join(cmd_rel))?;
    let min_interval = const_value(&cmd, "MIN_REPLICATION_INTERVAL_S")?;
    let repl_timeout = const_value(&cmd, "REPLICATION_TIMEOUT")?;
    for n in ["MIN_REPLICATION_INTERVAL_S", "REPLICATION_TIMEOUT"] {
        let e = consts(&cmd).into_iter().find(|(k, _)| k == n).map(|(_, e)| toks(&e)).unwrap_or_default();
        if !e.starts_with("Duration::from_secs(") {
            return Err(format!("{n}: expected Duration::from_secs(..), got {e}"));
        }
    }
    let iv = read_interval(&cmd)?;
    let (throttle_op, fresh_op, sends_only_nonempty) = (iv.throttle_op, iv.fresh_op, iv.skips_empty);
    read_candidates(&cmd)?;

    let rr_rel = "ant-networking/src/event/request_response.rs";
    let rr = parse_file(&repo.join(rr_rel))?;
    let hd = read_handler(&rr)?;
    let (arm_passes_on, checks_close, rejects_self, emits_event) = (hd.arm_passes_on, hd.checks_close, hd.rejects_self, hd.emits_event);
    let (checks_sender, sender_must_equal) = (hd.checks_sender, hd.sender_must_equal);

    let drv = parse_file(&repo.join("ant-networking/src/driver.rs"))?;
    read_closest(&drv)?;

    let node_repl_rel = "ant-node/src/replication.rs";
    let node_repl = parse_file(&repo.join(node_repl_rel))?;
    let fetch_task_notifies = read_fetch_task(&node_repl)?;

    let mut s = header(&format!("{cmd_rel}, {rr_rel}, ant-networking/src/driver.rs, ant-protocol/src/lib.rs, {node_repl_rel}"));
    s.push_str("namespace SafeNet.Gen.Replication\n");
    s.push_str(&format!("/-- libp2p-kad `K_VALUE`: `get_closest_k_value_local_peers` = self followed by the nearest known peers, cut at this length -/\ndef kValue : Nat := {k}\n"));
    s.push_str(&format!("/-- `CLOSE_GROUP_SIZE` -/\ndef closeGroupSize : Nat := {cgs}\n"));
    s.push_str(&format!("/-- `MIN_REPLICATION_INTERVAL_S` in seconds -/\ndef minReplicationInterval : Nat := {min_interval}\n"));
    s.push_str(&format!("/-- `REPLICATION_TIMEOUT` in seconds -/\ndef replicationTimeout : Nat := {repl_timeout}\n"));
    s.push_str(&lean_cmp("replTooSoon", "try_interval_replication: `last_replication.elapsed() OP MIN_REPLICATION_INTERVAL_S` skips the round (a = elapsed, b = minimum)", &throttle_op)?);
    s.push_str(&lean_cmp("targetStillFresh", "try_interval_replication: `*timestamp OP now` keeps a recently served target (a = its deadline, b = clock)", &fresh_op)?);
    s.push_str(&format!("/-- the `Cmd::Replicate` arm hands the request's `holder` and `keys` to `add_keys_to_replication_fetcher` -/\ndef replicateArmPassesOn : Bool := {}\n", lean_bool(arm_passes_on)));
    s.push_str(&format!("/-- the `Cmd::Replicate` arm makes that call only `if holder.as_peer_id() == Some(peer)`, `peer` being the authenticated sender of the request (false: the call is unconditional, the sender is not looked at) -/\ndef replicateChecksSender : Bool := {}\n", lean_bool(checks_sender)));
    s.push_str(&format!("/-- operator of that comparison: true = `==` (acts on a list only when its holder field is the sender), false = `!=` -/\ndef replicateSenderMustEqual : Bool := {}\n", lean_bool(sender_must_equal)));
    s.push_str(&format!("/-- the handler returns early unless the holder is among `get_closest_k_value_local_peers()` -/\ndef replicateChecksCloseness : Bool := {}\n", lean_bool(checks_close)));
    s.push_str(&format!("/-- the handler returns early when the holder is this node -/\ndef replicateRejectsSelf : Bool := {}\n", lean_bool(rejects_self)));
    s.push_str(&format!("/-- a non-empty result of `add_keys` is announced as `KeysToFetchForReplication` -/\ndef replicateEmitsFetchEvent : Bool := {}\n", lean_bool(emits_event)));
    s.push_str(&format!("/-- `try_interval_replication` sends nothing (and stamps no target) when the index is empty -/\ndef intervalSkipsEmptyIndex : Bool := {}\n", lean_bool(sends_only_nonempty)));
    s.push_str(&format!("/-- the fetch task of `fetch_replication_keys_without_wait` reports the fetch complete (`notify_fetch_completed(record.key, <record type of the fetched bytes>)`) whenever `store_replicated_in_record` returned Ok — also when nothing was stored (false: it only logs, a copy that changes nothing leaves its in-flight entry until FETCH_TIMEOUT) -/\ndef fetchTaskNotifiesCompletion : Bool := {}\n", lean_bool(fetch_task_notifies)));
    s.push_str("end SafeNet.Gen.Replication\n");
    Ok(s)
}
