//! ant-networking/src/{cmd.rs, driver.rs, event/request_response.rs}, ant-protocol/src/lib.rs
//!   → lean/SafeNet/Gen/Replication.lean
//! What is read: K_VALUE (libp2p-kad), CLOSE_GROUP_SIZE, MIN_REPLICATION_INTERVAL_S, REPLICATION_TIMEOUT; the guard of the
//! `Cmd::Replicate` handler (closest-K membership, not self, joined by `||`, followed by `return`); the shape of
//! `get_closest_k_value_local_peers` (self first, then the nearest peers, cut at K_VALUE); that the handler passes the
//! request's `holder`/`keys` on and filters against the whole local index; that `try_interval_replication` lists the
//! whole index unfiltered and sends it to every remaining target; the comparison operators of the throttle, of the
//! per-target timestamp, of `get_peers_in_range` and of the close-group fallback in `get_replicate_candidates`.
use crate::util::*;
use std::path::PathBuf;
use syn::visit::Visit;

fn toks<T: quote::ToTokens>(e: &T) -> String {
    quote::ToTokens::to_token_stream(e).to_string().replace(' ', "")
}

#[derive(Default)]
struct Bins {
    v: Vec<(String, String, String)>,
}
impl<'ast> Visit<'ast> for Bins {
    fn visit_expr_binary(&mut self, b: &'ast syn::ExprBinary) {
        self.v.push((toks(&*b.left), toks(&b.op), toks(&*b.right)));
        syn::visit::visit_expr_binary(self, b);
    }
}
fn bins(b: &syn::Block) -> Vec<(String, String, String)> {
    let mut v = Bins::default();
    v.visit_block(b);
    v.v
}

fn one_cmp(what: &str, v: &[(String, String, String)], l: &dyn Fn(&str) -> bool, r: &dyn Fn(&str) -> bool) -> Result<String, String> {
    let hits: Vec<&(String, String, String)> =
        v.iter().filter(|(a, op, b)| l(a) && r(b) && ["<", "<=", ">", ">=", "==", "!="].contains(&op.as_str())).collect();
    if hits.len() != 1 {
        return Err(format!("{what}: expected exactly one comparison of the searched shape, found {}", hits.len()));
    }
    Ok(hits[0].1.clone())
}

fn lean_cmp(name: &str, doc: &str, op: &str) -> Result<String, String> {
    let l = match op {
        "<" => "a < b",
        "<=" => "a ≤ b",
        ">" => "b < a",
        ">=" => "b ≤ a",
        o => return Err(format!("{name}: unsupported operator {o}")),
    };
    Ok(format!("/-- {doc}: source operator `{op}` -/\ndef {name} (a b : Nat) : Bool := decide ({l})\n"))
}

fn k_value(repo: &PathBuf) -> Result<u128, String> {
    let lock = std::fs::read_to_string(repo.join("Cargo.lock")).map_err(|e| format!("Cargo.lock: {e}"))?;
    let mut ver = None;
    let mut lines = lock.lines();
    while let Some(l) = lines.next() {
        if l.trim() == "name = \"libp2p-kad\"" {
            if let Some(v) = lines.next() {
                ver = v.trim().strip_prefix("version = \"").and_then(|s| s.strip_suffix('"')).map(|s| s.to_string());
            }
            break;
        }
    }
    let ver = ver.ok_or("libp2p-kad not found in Cargo.lock")?;
    let home = std::env::var("CARGO_HOME").unwrap_or_else(|_| format!("{}/.cargo", std::env::var("HOME").unwrap_or_else(|_| "/root".into())));
    let src = PathBuf::from(home).join("registry/src");
    let mut found = None;
    for d in std::fs::read_dir(&src).map_err(|e| format!("{}: {e}", src.display()))? {
        let p = d.map_err(|e| e.to_string())?.path().join(format!("libp2p-kad-{ver}/src/lib.rs"));
        if p.exists() {
            found = Some(p);
        }
    }
    let p = found.ok_or(format!("libp2p-kad-{ver}/src/lib.rs not found in the cargo registry"))?;
    let file = parse_file(&p)?;
    for (n, e) in consts(&file) {
        if n == "K_VALUE" {
            struct Lits(Vec<u128>);
            impl<'ast> Visit<'ast> for Lits {
                fn visit_lit_int(&mut self, i: &'ast syn::LitInt) {
                    if let Ok(x) = i.base10_parse::<u128>() {
                        self.0.push(x);
                    }
                }
            }
            let mut l = Lits(vec![]);
            l.visit_expr(&e);
            if l.0.len() == 1 {
                return Ok(l.0[0]);
            }
            return Err(format!("K_VALUE: expected exactly one integer literal in `{}`", toks(&e)));
        }
    }
    Err("K_VALUE not found in libp2p-kad".into())
}

/// the body of the match arm of `handle_req_resp_events` whose pattern mentions `Cmd::Replicate`
fn replicate_arm(f: &syn::ImplItemFn) -> Result<String, String> {
    struct Arms(Vec<(String, String)>);
    impl<'ast> Visit<'ast> for Arms {
        fn visit_arm(&mut self, a: &'ast syn::Arm) {
            self.0.push((toks(&a.pat), toks(&*a.body)));
            syn::visit::visit_arm(self, a);
        }
    }
    let mut a = Arms(vec![]);
    a.visit_block(&f.block);
    let hits: Vec<&(String, String)> = a.0.iter().filter(|(p, _)| p.contains("Cmd::Replicate{holder,keys}") && p.starts_with("Request::Cmd(")).collect();
    if hits.len() != 1 {
        return Err(format!("handle_req_resp_events: expected one `Request::Cmd(..Cmd::Replicate {{ holder, keys }})` arm, found {}", hits.len()));
    }
    Ok(hits[0].1.clone())
}

pub fn generate(repo: &PathBuf) -> Result<String, String> {
    let k = k_value(repo)?;
    let proto = parse_file(&repo.join("ant-protocol/src/lib.rs"))?;
    let cgs = const_value(&proto, "CLOSE_GROUP_SIZE")?;

    let cmd_rel = "ant-networking/src/cmd.rs";
    let cmd = parse_file(&repo.join(cmd_rel))?;
    let min_interval = const_value(&cmd, "MIN_REPLICATION_INTERVAL_S")?;
    let repl_timeout = const_value(&cmd, "REPLICATION_TIMEOUT")?;
    for n in ["MIN_REPLICATION_INTERVAL_S", "REPLICATION_TIMEOUT"] {
        let e = consts(&cmd).into_iter().find(|(k, _)| k == n).map(|(_, e)| toks(&e)).unwrap_or_default();
        if !e.starts_with("Duration::from_secs(") {
            return Err(format!("{n}: expected Duration::from_secs(..), got {e}"));
        }
    }

    // ---- try_interval_replication
    let tir = impl_fn(&cmd, "SwarmDriver", None, "try_interval_replication")?;
    let tb = bins(&tir.block);
    let throttle_op = one_cmp("try_interval_replication/throttle", &tb, &|l| l == "last_replication.elapsed()", &|r| r == "MIN_REPLICATION_INTERVAL_S")?;
    let fresh_op = one_cmp("try_interval_replication/targets", &tb, &|l| l == "*timestamp", &|r| r == "now")?;
    let src = toks(&tir.block);
    let lists_whole_index = src.contains("letall_records:Vec<_>=self.swarm.behaviour_mut().kademlia.store_mut().record_addresses_ref().values().cloned().collect();");
    if !lists_whole_index {
        return Err("try_interval_replication: `all_records` is no longer `store_mut().record_addresses_ref().values().cloned().collect()` (the unfiltered index)".into());
    }
    let sends_all = src.contains("letrequest=Request::Cmd(Cmd::Replicate{holder:NetworkAddress::from_peer(self.self_peer_id),keys:all_records,});")
        && src.contains("forpeer_idinreplicate_targets{self.queue_network_swarm_cmd(NetworkSwarmCmd::SendRequest{req:request.clone(),peer:peer_id,sender:None,});");
    if !sends_all {
        return Err("try_interval_replication: the request is no longer `Cmd::Replicate { holder: self, keys: all_records }` sent to every replicate target".into());
    }
    let targets_from_self = src.contains("letself_addr=NetworkAddress::from_peer(self.self_peer_id);letmutreplicate_targets=self.get_replicate_candidates(&self_addr);");
    let skips_recent = src.contains("replicate_targets.retain(|peer_id|!self.replication_targets.contains_key(peer_id));");
    let stamps = src.contains("self.replication_targets.insert(peer_id,now+REPLICATION_TIMEOUT)");
    if !(targets_from_self && skips_recent && stamps) {
        return Err("try_interval_replication: target selection changed shape (candidates of self, minus recently served, stamped with REPLICATION_TIMEOUT)".into());
    }
    let sends_only_nonempty = src.contains("if!all_records.is_empty(){");

    // ---- get_replicate_candidates / get_peers_in_range
    let grc = impl_fn(&cmd, "SwarmDriver", None, "get_replicate_candidates")?;
    let gb = bins(&grc.block);
    let enough_op = one_cmp("get_replicate_candidates/fallback", &gb, &|l| l == "peers_in_range.len()", &|r| r == "CLOSE_GROUP_SIZE")?;
    let gsrc = toks(&grc.block);
    if !gsrc.contains("closest_k_peers.iter().take(CLOSE_GROUP_SIZE).cloned().collect()") || !gsrc.contains("get_farthest_replication_distance()") {
        return Err("get_replicate_candidates: fallback is no longer the first CLOSE_GROUP_SIZE of the distance-sorted peers / range source changed".into());
    }
    let gpr = free_fn(&cmd, "get_peers_in_range")?;
    let in_range_op = one_cmp("get_peers_in_range", &bins(&gpr.block), &|l| l == "distance", &|r| r == "range")?;

    // ---- Cmd::Replicate handler
    let rr_rel = "ant-networking/src/event/request_response.rs";
    let rr = parse_file(&repo.join(rr_rel))?;
    let h = impl_fn(&rr, "SwarmDriver", None, "handle_req_resp_events")?;
    let arm = replicate_arm(h)?;
    let arm_passes_on = arm.contains("self.add_keys_to_replication_fetcher(holder,keys);");
    let add = impl_fn(&rr, "SwarmDriver", None, "add_keys_to_replication_fetcher")?;
    let asrc = toks(&add.block);
    // the guard: `if !closest_k_peers.contains(&holder) || holder == self.self_peer_id { ...; return; }`
    let closest_from = asrc.contains("letclosest_k_peers=self.get_closest_k_value_local_peers();");
    struct Ifs(Vec<(String, String)>);
    impl<'ast> Visit<'ast> for Ifs {
        fn visit_expr_if(&mut self, i: &'ast syn::ExprIf) {
            self.0.push((toks(&*i.cond), toks(&i.then_branch)));
            syn::visit::visit_expr_if(self, i);
        }
    }
    let mut ifs = Ifs(vec![]);
    ifs.visit_block(&add.block);
    let returning: Vec<&(String, String)> = ifs.0.iter().filter(|(_, t)| t.ends_with("return;}")).collect();
    let mut checks_close = false;
    let mut rejects_self = false;
    for (c, _) in &returning {
        let parts: Vec<&str> = c.split("||").collect();
        if parts.iter().any(|p| *p == "!closest_k_peers.contains(&holder)") && closest_from {
            checks_close = true;
        }
        if parts.iter().any(|p| *p == "holder==self.self_peer_id") {
            rejects_self = true;
        }
    }
    let filters_against_index = asrc.contains("letall_keys=self.swarm.behaviour_mut().kademlia.store_mut().record_addresses_ref();")
        && asrc.contains("self.replication_fetcher.add_keys(holder,incoming_keys,all_keys)");
    if !filters_against_index {
        return Err("add_keys_to_replication_fetcher: no longer `replication_fetcher.add_keys(holder, incoming_keys, <whole local index>)`".into());
    }
    let emits_event = asrc.contains("self.send_event(NetworkEvent::KeysToFetchForReplication(keys_to_fetch))");

    // ---- get_closest_k_value_local_peers
    let drv = parse_file(&repo.join("ant-networking/src/driver.rs"))?;
    let ck = impl_fn(&drv, "SwarmDriver", None, "get_closest_k_value_local_peers")?;
    let csrc = toks(&ck.block);
    let self_first_cut_at_k = csrc.contains("std::iter::once(self.self_peer_id).chain(peers).take(K_VALUE.get()).collect()")
        && csrc.contains("get_closest_local_peers(&self_peer_id)");
    if !self_first_cut_at_k {
        return Err("get_closest_k_value_local_peers: no longer `once(self).chain(nearest peers).take(K_VALUE.get())`".into());
    }

    let mut s = header(&format!("{cmd_rel}, {rr_rel}, ant-networking/src/driver.rs, ant-protocol/src/lib.rs"));
    s.push_str("namespace SafeNet.Gen.Replication\n");
    s.push_str(&format!("/-- libp2p-kad `K_VALUE`: `get_closest_k_value_local_peers` = self followed by the nearest known peers, cut at this length -/\ndef kValue : Nat := {k}\n"));
    s.push_str(&format!("/-- `CLOSE_GROUP_SIZE` -/\ndef closeGroupSize : Nat := {cgs}\n"));
    s.push_str(&format!("/-- `MIN_REPLICATION_INTERVAL_S` in seconds -/\ndef minReplicationInterval : Nat := {min_interval}\n"));
    s.push_str(&format!("/-- `REPLICATION_TIMEOUT` in seconds -/\ndef replicationTimeout : Nat := {repl_timeout}\n"));
    s.push_str(&lean_cmp("replTooSoon", "try_interval_replication: `last_replication.elapsed() OP MIN_REPLICATION_INTERVAL_S` skips the round (a = elapsed, b = minimum)", &throttle_op)?);
    s.push_str(&lean_cmp("targetStillFresh", "try_interval_replication: `*timestamp OP now` keeps a recently served target (a = its deadline, b = clock)", &fresh_op)?);
    // the selection step itself is modelled in SafeNet.Distance (operator of get_peers_in_range from Gen.Distance.inRangeLe);
    // what that model fixes by construction is checked here
    if enough_op != ">=" {
        return Err(format!("get_replicate_candidates: `peers_in_range.len() {enough_op} CLOSE_GROUP_SIZE`, the distance model assumes `>=`"));
    }
    if !["<=", "<"].contains(&in_range_op.as_str()) {
        return Err(format!("get_peers_in_range: `distance {in_range_op} range` is neither `<=` nor `<`"));
    }
    if !gsrc.contains("letpeers_in_range=get_peers_in_range(&closest_k_peers,target,responsible_range);") {
        return Err("get_replicate_candidates: the in-range peers are no longer `get_peers_in_range(all local peers closest first, target, range)`".into());
    }
    s.push_str(&format!("/-- the `Cmd::Replicate` arm hands the request's `holder` and `keys` to `add_keys_to_replication_fetcher` -/\ndef replicateArmPassesOn : Bool := {}\n", lean_bool(arm_passes_on)));
    s.push_str(&format!("/-- the handler returns early unless the holder is among `get_closest_k_value_local_peers()` -/\ndef replicateChecksCloseness : Bool := {}\n", lean_bool(checks_close)));
    s.push_str(&format!("/-- the handler returns early when the holder is this node -/\ndef replicateRejectsSelf : Bool := {}\n", lean_bool(rejects_self)));
    s.push_str(&format!("/-- a non-empty result of `add_keys` is announced as `KeysToFetchForReplication` -/\ndef replicateEmitsFetchEvent : Bool := {}\n", lean_bool(emits_event)));
    s.push_str(&format!("/-- `try_interval_replication` sends nothing (and stamps no target) when the index is empty -/\ndef intervalSkipsEmptyIndex : Bool := {}\n", lean_bool(sends_only_nonempty)));
    s.push_str("end SafeNet.Gen.Replication\n");
    Ok(s)
}
