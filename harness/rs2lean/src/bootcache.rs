//! C18: constants, comparators and the atomic-write shape of the bootstrap cache
//! (`ant-bootstrap/src/{config.rs,lib.rs,cache_store.rs}`) -> `Gen/BootCache.lean`.
use crate::util::*;
use std::path::PathBuf;
use syn::visit::Visit;

fn toks<T: quote::ToTokens>(t: &T) -> String {
    quote::ToTokens::to_token_stream(t).to_string().replace(' ', "")
}

/// all binary comparisons of a block as (left, op, right) token strings; all method calls as (receiver, method, args)
#[derive(Default)]
struct Shapes {
    cmps: Vec<(String, String, String)>,
    calls: Vec<(String, String, String)>,
}
impl<'ast> Visit<'ast> for Shapes {
    fn visit_expr_binary(&mut self, b: &'ast syn::ExprBinary) {
        let op = toks(&b.op);
        if ["<", "<=", ">", ">=", "==", "!="].contains(&op.as_str()) {
            self.cmps.push((toks(&b.left), op, toks(&b.right)));
        }
        syn::visit::visit_expr_binary(self, b);
    }
    fn visit_expr_method_call(&mut self, m: &'ast syn::ExprMethodCall) {
        let args: Vec<String> = m.args.iter().map(toks).collect();
        self.calls.push((toks(&m.receiver), m.method.to_string(), args.join(",")));
        syn::visit::visit_expr_method_call(self, m);
    }
}
fn shapes(b: &syn::Block) -> Shapes {
    let mut s = Shapes::default();
    s.visit_block(b);
    s
}

/// remove `info!(..);` / `warn!(..)` / `debug!(..)` / `trace!(..)` / `error!(..)` from a space-free token string
/// (string literals are skipped over when matching the closing parenthesis)
fn strip_log_macros(s: &str) -> String {
    let b: Vec<char> = s.chars().collect();
    let mut out = String::new();
    let mut i = 0;
    'outer: while i < b.len() {
        for name in ["info!(", "warn!(", "debug!(", "trace!(", "error!("] {
            let n: Vec<char> = name.chars().collect();
            let prev_ident = i > 0 && (b[i - 1].is_alphanumeric() || b[i - 1] == '_');
            if !prev_ident && b[i..].starts_with(&n) {
                let mut j = i + n.len();
                let mut depth = 1;
                while j < b.len() && depth > 0 {
                    match b[j] {
                        '"' => {
                            j += 1;
                            while j < b.len() && b[j] != '"' {
                                if b[j] == '\\' {
                                    j += 1;
                                }
                                j += 1;
                            }
                        }
                        '(' => depth += 1,
                        ')' => depth -= 1,
                        _ => {}
                    }
                    j += 1;
                }
                if j < b.len() && b[j] == ';' {
                    j += 1;
                }
                i = j;
                continue 'outer;
            }
        }
        out.push(b[i]);
        i += 1;
    }
    out
}

fn lean_cmp(op: &str, l: &str, r: &str) -> Result<String, String> {
    Ok(match op {
        ">=" => format!("decide ({l} ≥ {r})"),
        ">" => format!("decide ({l} > {r})"),
        "<=" => format!("decide ({l} ≤ {r})"),
        "<" => format!("decide ({l} < {r})"),
        "==" => format!("decide ({l} = {r})"),
        "!=" => format!("decide ({l} ≠ {r})"),
        o => return Err(format!("unsupported comparator {o}")),
    })
}

pub fn generate(repo: &PathBuf) -> Result<String, String> {
    // ---- config.rs: the three limits and that the default configurations use them
    let cfg = parse_file(&repo.join("ant-bootstrap/src/config.rs"))?;
    let max_peers = const_value(&cfg, "MAX_PEERS")?;
    let max_addrs = const_value(&cfg, "MAX_ADDRS_PER_PEER")?;
    let expiry = const_value(&cfg, "ADDR_EXPIRY_DURATION")?;
    let expiry_src = consts(&cfg).into_iter().find(|(k, _)| k == "ADDR_EXPIRY_DURATION").map(|(_, e)| toks(&e)).unwrap_or_default();
    if !expiry_src.starts_with("Duration::from_secs(") {
        return Err(format!("config.rs: ADDR_EXPIRY_DURATION is not Duration::from_secs(..): {expiry_src}"));
    }
    let mut defaults = true;
    for f in ["default_config", "empty"] {
        let body = toks(&impl_fn(&cfg, "BootstrapCacheConfig", None, f)?.block);
        for want in ["addr_expiry_duration:ADDR_EXPIRY_DURATION", "max_peers:MAX_PEERS", "max_addrs_per_peer:MAX_ADDRS_PER_PEER"] {
            if !body.contains(want) {
                defaults = false;
            }
        }
    }

    // ---- lib.rs: is_reliable's comparator, counter width, failure_rate's quotient
    let lib = parse_file(&repo.join("ant-bootstrap/src/lib.rs"))?;
    let rel = impl_fn(&lib, "BootstrapAddr", None, "is_reliable")?;
    let rs = shapes(&rel.block);
    if rs.cmps.len() != 1 || rel.block.stmts.len() != 1 {
        return Err(format!("lib.rs: is_reliable is not a single comparison: {}", toks(&rel.block)));
    }
    let (l, op, r) = &rs.cmps[0];
    let reliable = match (l.as_str(), r.as_str()) {
        ("self.success_count", "self.failure_count") => lean_cmp(op, "succ", "fail")?,
        ("self.failure_count", "self.success_count") => lean_cmp(op, "fail", "succ")?,
        _ => return Err(format!("lib.rs: is_reliable compares {l} {op} {r}")),
    };
    let mut bits = None;
    for it in &lib.items {
        if let syn::Item::Struct(s) = it {
            if s.ident == "BootstrapAddr" {
                let mut tys = vec![];
                for f in s.fields.iter() {
                    let n = f.ident.as_ref().map(|i| i.to_string()).unwrap_or_default();
                    if n == "success_count" || n == "failure_count" {
                        tys.push(toks(&f.ty));
                    }
                }
                if tys.len() == 2 && tys[0] == tys[1] {
                    bits = match tys[0].as_str() {
                        "u8" => Some(8),
                        "u16" => Some(16),
                        "u32" => Some(32),
                        "u64" => Some(64),
                        _ => None,
                    };
                }
            }
        }
    }
    let bits = bits.ok_or("lib.rs: BootstrapAddr.success_count/failure_count are not the same unsigned integer type")?;
    let fr = toks(&impl_fn(&lib, "BootstrapAddr", None, "failure_rate")?.block);
    let sum_ok = fr.contains("self.success_count+self.failure_count")
        || fr.contains("u64::from(self.success_count)+u64::from(self.failure_count)")
        || fr.contains("self.success_countasu64+self.failure_countasu64")
        || fr.contains("self.success_countasf64+self.failure_countasf64");
    if !(fr.contains("self.failure_countasf64/") && sum_ok && fr.contains("0.0")) {
        return Err(format!("lib.rs: failure_rate is not failure_count / (success_count + failure_count) with 0.0 for no samples: {fr}"));
    }
    // update_status / sync: the overflow handling the model copies
    let us = shapes(&impl_fn(&lib, "BootstrapAddr", None, "update_status")?.block);
    if us.calls.iter().filter(|(_, m, a)| m == "checked_add" && a == "1").count() != 2 {
        return Err("lib.rs: update_status does not use checked_add(1) on both counters".into());
    }
    let sy = shapes(&impl_fn(&lib, "BootstrapAddr", None, "sync")?.block);
    if sy.calls.iter().filter(|(_, m, _)| m == "saturating_add").count() != 2
        || !sy.cmps.iter().any(|(l, o, r)| l == "self.last_seen" && o == "==" && r == "other.last_seen")
    {
        return Err("lib.rs: BootstrapAddr::sync is not `equal timestamps => return; saturating_add both counters`".into());
    }

    // ---- cache_store.rs: clean-up comparators, eviction loop, atomic write, load cleans
    let cs = parse_file(&repo.join("ant-bootstrap/src/cache_store.rs"))?;
    let pc = impl_fn(&cs, "CacheData", None, "perform_cleanup")?;
    let ps = shapes(&pc.block);
    let exp: Vec<_> = ps.cmps.iter().filter(|(_, _, r)| r == "cfg.addr_expiry_duration").collect();
    if exp.len() != 1 || exp[0].0 != "duration" {
        return Err("cache_store.rs: perform_cleanup: expected exactly one comparison `duration <op> cfg.addr_expiry_duration`".into());
    }
    let not_expired = lean_cmp(&exp[0].1, "age", "expiry")?;
    let pcs = toks(&pc.block);
    if !pcs.contains("bootstrap_addr.is_reliable()&&has_not_expired") || !pcs.contains("now.duration_since(bootstrap_addr.last_seen)") {
        return Err("cache_store.rs: perform_cleanup: retain condition is not `is_reliable() && has_not_expired` over now.duration_since(last_seen)".into());
    }
    if !pcs.contains("retain(|_,bootstrap_addresses|!bootstrap_addresses.0.is_empty())") {
        return Err("cache_store.rs: perform_cleanup: peers with no addresses are not removed as expected".into());
    }
    let over: Vec<_> = ps.cmps.iter().filter(|(_, _, r)| r == "cfg.max_addrs_per_peer").collect();
    if over.len() != 1 || over[0].0 != "bootstrap_addresses.0.len()" {
        return Err("cache_store.rs: perform_cleanup: expected `bootstrap_addresses.0.len() <op> cfg.max_addrs_per_peer`".into());
    }
    let addrs_over = lean_cmp(&over[0].1, "len", "max")?;
    if !ps.calls.iter().any(|(r, m, a)| r == "bootstrap_addresses.0" && m == "truncate" && a == "cfg.max_addrs_per_peer") {
        return Err("cache_store.rs: perform_cleanup: addresses are not capped by truncate(cfg.max_addrs_per_peer)".into());
    }
    let sort_key_trunc = ps.calls.iter().any(|(_, m, a)| m == "sort_by_key" && a == "|addr|addr.failure_rate()asu64");
    if !sort_key_trunc {
        return Err("cache_store.rs: perform_cleanup: sort key is not `addr.failure_rate() as u64`".into());
    }
    if !pcs.ends_with("self.try_remove_oldest_peers(cfg);}") {
        return Err("cache_store.rs: perform_cleanup does not end with try_remove_oldest_peers(cfg)".into());
    }
    let tr = impl_fn(&cs, "CacheData", None, "try_remove_oldest_peers")?;
    let ts = shapes(&tr.block);
    let pov: Vec<_> = ts.cmps.iter().filter(|(_, _, r)| r.contains("max_peers")).collect();
    if pov.len() != 2 || pov.iter().any(|(l, _, r)| l != "self.peers.len()" || r != "cfg.max_peers") || pov[0].1 != pov[1].1 {
        return Err(format!("cache_store.rs: try_remove_oldest_peers: expected `self.peers.len() <op> cfg.max_peers` twice (if, while), found {pov:?}"));
    }
    let peers_over = lean_cmp(&pov[0].1, "len", "max")?;
    let trs = toks(&tr.block);
    if !trs.contains("max_by_key(|(_,last_seen)|**last_seen)") || !trs.contains("ifelapsed<latest_seen") {
        return Err("cache_store.rs: try_remove_oldest_peers: not `evict max_by_key(last_seen)` over the smallest elapsed time per peer".into());
    }
    let wr = toks(&impl_fn(&cs, "BootstrapCacheStore", None, "write")?.block);
    let atomic = wr.contains("AtomicWriteFile::options().open(&self.cache_path)")
        && wr.contains("file.commit()")
        && !wr.contains("fs::write")
        && !wr.contains("File::create")
        && !wr.contains("OpenOptions")
        && !wr.contains("fs::File");
    let ld = toks(&impl_fn(&cs, "BootstrapCacheStore", None, "load_cache_data")?.block);
    let load_cleans = ld.contains("data.perform_cleanup(cfg)");
    if !ld.contains("serde_json::from_str::<CacheData>(&contents)") {
        return Err("cache_store.rs: load_cache_data does not parse the whole file with serde_json::from_str::<CacheData>".into());
    }
    // sync_and_flush_to_disk: the statements IN ORDER (log macros removed): disabled-guard; [snapshot of the memory];
    // load + merge; clean-up only under `if with_cleanup`; write, returning on error [after restoring the snapshot];
    // clear (so only after a successful write); Ok(())
    let fl_fn = impl_fn(&cs, "BootstrapCacheStore", None, "sync_and_flush_to_disk")?;
    let fl_stmts: Vec<String> = fl_fn.block.stmts.iter().map(|st| strip_log_macros(&toks(st))).filter(|t| !t.is_empty()).collect();
    let classify = |t: &str| -> Option<&'static str> {
        Some(match t {
            "ifself.config.disable_cache_writing{returnOk(());}" => "guard",
            "letunmerged=self.data.clone();" => "snapshot",
            "ifletOk(data_from_file)=Self::load_cache_data(&self.config){self.data.sync(&data_from_file);}else{}"
            | "ifletOk(data_from_file)=Self::load_cache_data(&self.config){self.data.sync(&data_from_file);}" => "load-merge",
            "ifwith_cleanup{self.data.perform_cleanup(&self.config);self.data.try_remove_oldest_peers(&self.config);}" => "cleanup-guarded",
            "self.write().inspect_err(|e|{})?;" | "self.write()?;" => "write-or-return",
            "ifletErr(e)=self.write(){self.data=unmerged;returnErr(e);}" => "write-or-restore-return",
            "self.data.peers.clear();" => "clear",
            "Ok(())" => "ok",
            _ => return None,
        })
    };
    let mut fl_shape = vec![];
    for t in &fl_stmts {
        match classify(t) {
            Some(k) => fl_shape.push(k),
            None => return Err(format!("cache_store.rs: sync_and_flush_to_disk: unexpected statement `{t}`")),
        }
    }
    let flush_fail_keeps_memory = match fl_shape.as_slice() {
        ["guard", "load-merge", "cleanup-guarded", "write-or-return", "clear", "ok"] => false,
        ["guard", "snapshot", "load-merge", "cleanup-guarded", "write-or-restore-return", "clear", "ok"] => true,
        other => return Err(format!("cache_store.rs: sync_and_flush_to_disk: unexpected statement order {other:?}")),
    };
    if !toks(&fl_fn.sig).contains("with_cleanup:bool") {
        return Err("cache_store.rs: sync_and_flush_to_disk(with_cleanup: bool) expected".into());
    }

    // ---- initial_peers.rs: how the start-up path (`PeersArgs::get_bootstrap_addr`) consumes the result of load_cache_data
    let ip = parse_file(&repo.join("ant-bootstrap/src/initial_peers.rs"))?;
    let gb = toks(&impl_fn(&ip, "PeersArgs", None, "get_bootstrap_addr")?.block);
    let n_loads = gb.matches("load_cache_data(").count();
    let startup_ignores = if n_loads == 1 && gb.contains("ifletOk(data)=BootstrapCacheStore::load_cache_data(&cfg){") {
        true // any failure to load the cache is skipped over
    } else if n_loads == 1
        && (gb.contains("load_cache_data(&cfg)?")
            || (gb.contains("matchBootstrapCacheStore::load_cache_data(&cfg){") && (gb.contains("=>returnErr(") || gb.contains("=>Err("))))
    {
        false // some load errors are returned to the caller
    } else {
        return Err("initial_peers.rs: get_bootstrap_addr: cannot tell how the result of load_cache_data is consumed".into());
    };
    for want in ["ifself.first{", "Self::read_bootstrap_addr_from_env()", "ifself.local||cfg!(feature=\"local\")", "if!self.ignore_cache{", "self.get_bootstrap_cache_path()?", "Err(Error::NoBootstrapPeersFound)"] {
        if !gb.contains(want) {
            return Err(format!("initial_peers.rs: get_bootstrap_addr: step `{want}` not found"));
        }
    }

    // ---- ant-networking/src/driver.rs: the periodic save (inside `tokio::select!`, so read from the token stream of the
    // whole file): clone the store, swap in a fresh empty one, spawn the flush of the old one, only log its error;
    // then scale the interval
    let drv = toks(&parse_file(&repo.join("ant-networking/src/driver.rs"))?);
    if drv.matches("sync_and_flush_to_disk(").count() != 1 {
        return Err("driver.rs: expected exactly one call of sync_and_flush_to_disk".into());
    }
    let seq = [
        "letconfig=bootstrap_cache.config().clone();",
        "letmutold_cache=bootstrap_cache.clone();",
        "letnew=matchBootstrapCacheStore::new(config){Ok(new)=>new,Err(err)=>{",
        "*bootstrap_cache=new;",
        "spawn(asyncmove{ifletErr(err)=old_cache.sync_and_flush_to_disk(",
        "letscaled=current_interval.period().as_secs().saturating_mul(bootstrap_cache.config().cache_save_scaling_factor);",
        "letnew_duration=Duration::from_secs(std::cmp::min(scaled,max_cache_save_duration.as_secs()));",
        "*current_interval=interval(new_duration);",
    ];
    let mut pos = 0usize;
    for want in seq {
        match drv[pos..].find(want) {
            Some(k) => pos += k + want.len(),
            None => return Err(format!("driver.rs: periodic bootstrap-cache save: step `{want}` not found (in this order)")),
        }
    }
    let after_call = &drv[drv.find("old_cache.sync_and_flush_to_disk(").unwrap() + "old_cache.sync_and_flush_to_disk(".len()..];
    let periodic_cleans = if after_call.starts_with("true){error!(") {
        true
    } else if after_call.starts_with("false){error!(") {
        false
    } else {
        return Err("driver.rs: periodic bootstrap-cache save: the flush is not `if let Err(err) = old_cache.sync_and_flush_to_disk(<bool literal>) { error!(..) }`".into());
    };

    let mut s = header("ant-bootstrap/src/{config.rs,lib.rs,cache_store.rs,initial_peers.rs}, ant-networking/src/driver.rs");
    s.push_str("namespace SafeNet.Gen.BootCache\n");
    s.push_str(&format!("/-- `MAX_PEERS` (config.rs) -/\ndef maxPeers : Nat := {max_peers}\n"));
    s.push_str(&format!("/-- `MAX_ADDRS_PER_PEER` (config.rs) -/\ndef maxAddrsPerPeer : Nat := {max_addrs}\n"));
    s.push_str(&format!("/-- `ADDR_EXPIRY_DURATION` in seconds (config.rs) -/\ndef addrExpirySecs : Nat := {expiry}\n"));
    s.push_str(&format!("/-- `default_config()`/`empty()` initialise the three limits from these constants -/\ndef defaultsUseConsts : Bool := {}\n", lean_bool(defaults)));
    s.push_str(&format!("/-- `BootstrapAddr::is_reliable`: `{l} {op} {r}` -/\ndef reliableCmp (succ fail : Nat) : Bool := {reliable}\n"));
    s.push_str(&format!("/-- `perform_cleanup`: an address is kept when `duration {} cfg.addr_expiry_duration` -/\ndef notExpiredCmp (age expiry : Nat) : Bool := {not_expired}\n", exp[0].1));
    s.push_str(&format!("/-- `perform_cleanup`: addresses are capped when `len {} cfg.max_addrs_per_peer`, by `truncate(cfg.max_addrs_per_peer)` -/\ndef addrsOverCmp (len max : Nat) : Bool := {addrs_over}\n", over[0].1));
    s.push_str(&format!("/-- `try_remove_oldest_peers`: peers are evicted while `self.peers.len() {} cfg.max_peers` -/\ndef peersOverCmp (len max : Nat) : Bool := {peers_over}\n", pov[0].1));
    s.push_str(&format!("/-- width in bits of `success_count` / `failure_count` -/\ndef counterBits : Nat := {bits}\n"));
    s.push_str(&format!("/-- the sort key of `perform_cleanup` is `addr.failure_rate() as u64` (float truncated to an integer) -/\ndef sortKeyTruncatesRate : Bool := {}\n", lean_bool(sort_key_trunc)));
    s.push_str("/-- `failure_rate` divides `failure_count` by the sum of both counters -/\ndef rateIsFailOverTotal : Bool := true\n");
    s.push_str(&format!("/-- `BootstrapCacheStore::write` goes through `AtomicWriteFile::options().open(&self.cache_path)` … `commit()` and nothing else touches the path -/\ndef writeAtomic : Bool := {}\n", lean_bool(atomic)));
    s.push_str(&format!("/-- `load_cache_data` runs `perform_cleanup` on what it parsed -/\ndef loadCleans : Bool := {}\n", lean_bool(load_cleans)));
    s.push_str(&format!("/-- `PeersArgs::get_bootstrap_addr` consumes `load_cache_data` with `if let Ok(data) = …`: no load error reaches the caller -/\ndef startupIgnoresLoadError : Bool := {}\n", lean_bool(startup_ignores)));
    s.push_str(&format!("/-- `sync_and_flush_to_disk` is, in this order: disabled-guard; {}load + `sync`; `perform_cleanup` only under `if with_cleanup`; `write`, returning on error{}; `peers.clear()` (so only after a successful write). `true`: a failed write leaves the in-memory cache as it was before the merge; `false`: it leaves the merge (memory ∪ file) -/\ndef flushFailKeepsMemory : Bool := {}\n", if flush_fail_keeps_memory { "snapshot of the memory; " } else { "" }, if flush_fail_keeps_memory { " after restoring the snapshot" } else { "" }, lean_bool(flush_fail_keeps_memory)));
    s.push_str(&format!("/-- driver.rs, periodic save: `old_cache = cache.clone(); cache = BootstrapCacheStore::new(config); spawn(old_cache.sync_and_flush_to_disk(<this literal>))`, the error only logged; then the interval is scaled to `min(period.as_secs().saturating_mul(cache_save_scaling_factor), max)` -/\ndef periodicFlushCleans : Bool := {}\n", lean_bool(periodic_cleans)));
    s.push_str("end SafeNet.Gen.BootCache\n");
    Ok(s)
}
