//! C20 helper: the clap-derive surface of antnode (`Opt`, flattened `PeersArgs`, `EvmNetworkCommand`)
//! and ant-node's shipped default features. Closed list of attribute keys; anything else is an error.
use crate::upgrade::{lean_str, toks};
use ::quote::ToTokens;
use crate::util::*;
use std::path::PathBuf;

#[derive(Clone, Debug, PartialEq)]
enum Arity {
    Flag,
    One,
    Many,
}

#[derive(Clone, Debug)]
struct Decl {
    id: String,
    field: String,
    long: String,
    arity: Arity,
    required: bool,
    delimiter: bool,
    conflicts: Vec<String>,
    required_if_eq: Vec<(String, String)>,
    feature: Option<(bool, String)>,
    group: String,
}

enum FieldKind {
    Arg(Decl),
    Flatten(String),
    Subcommand(String),
}

fn kebab(s: &str) -> String {
    // clap's default `rename_all = "kebab-case"` (heck): snake_case and CamelCase identifiers
    let mut o = String::new();
    for (i, c) in s.chars().enumerate() {
        if c == '_' {
            o.push('-');
        } else if c.is_uppercase() {
            if i > 0 && !o.ends_with('-') {
                o.push('-');
            }
            o.extend(c.to_lowercase());
        } else {
            o.push(c);
        }
    }
    o
}

fn lit_string(e: &syn::Expr) -> Option<String> {
    if let syn::Expr::Lit(l) = e {
        match &l.lit {
            syn::Lit::Str(s) => return Some(s.value()),
            syn::Lit::Char(c) => return Some(c.value().to_string()),
            _ => {}
        }
    }
    None
}

fn last_type_ident(t: &syn::Type) -> (String, Option<syn::Type>) {
    if let syn::Type::Path(p) = t {
        if let Some(seg) = p.path.segments.last() {
            let inner = if let syn::PathArguments::AngleBracketed(a) = &seg.arguments {
                a.args.iter().find_map(|g| if let syn::GenericArgument::Type(t) = g { Some(t.clone()) } else { None })
            } else {
                None
            };
            return (seg.ident.to_string(), inner);
        }
    }
    (String::new(), None)
}

fn cfg_feature(attrs: &[syn::Attribute], what: &str) -> Result<Option<(bool, String)>, String> {
    let mut out = None;
    for a in attrs {
        if !a.path().is_ident("cfg") {
            continue;
        }
        let m: syn::Meta = a.parse_args().map_err(|e| format!("{what}: cfg: {e}"))?;
        let got = match &m {
            syn::Meta::NameValue(nv) if nv.path.is_ident("feature") => lit_string(&nv.value).map(|f| (true, f)),
            syn::Meta::List(l) if l.path.is_ident("not") => {
                let inner: syn::Meta = l.parse_args().map_err(|e| format!("{what}: cfg(not): {e}"))?;
                match &inner {
                    syn::Meta::NameValue(nv) if nv.path.is_ident("feature") => lit_string(&nv.value).map(|f| (false, f)),
                    _ => None,
                }
            }
            _ => None,
        };
        match got {
            Some(g) if out.is_none() => out = Some(g),
            _ => return Err(format!("{what}: unsupported cfg `{}`", toks(&m))),
        }
    }
    Ok(out)
}

const IGNORED_KEYS: &[&str] = &["value_name", "verbatim_doc_comment", "value_parser", "help", "long_help", "hide", "display_order", "help_heading"];

fn field_decl(f: &syn::Field, group: &str) -> Result<FieldKind, String> {
    let field = f.ident.as_ref().ok_or("tuple field in clap struct")?.to_string();
    let what = format!("{group}.{field}");
    let feature = cfg_feature(&f.attrs, &what)?;
    let (ty, inner) = last_type_ident(&f.ty);
    let mut long: Option<String> = None;
    let mut has_long = false;
    let mut id: Option<String> = None;
    let mut has_default = false;
    let mut delimiter = false;
    let mut conflicts = vec![];
    let mut req_if = vec![];
    let mut has_short = false;
    for a in &f.attrs {
        let an = a.path().segments.last().map(|s| s.ident.to_string()).unwrap_or_default();
        match an.as_str() {
            "doc" | "cfg" | "expect" | "allow" | "serde" => continue,
            "clap" | "arg" | "command" => {}
            other => return Err(format!("{what}: unknown attribute #[{other}]")),
        }
        let metas = a
            .parse_args_with(syn::punctuated::Punctuated::<syn::Meta, syn::Token![,]>::parse_terminated)
            .map_err(|e| format!("{what}: attribute arguments: {e}"))?;
        for m in metas {
            let key = m.path().segments.last().map(|s| s.ident.to_string()).unwrap_or_default();
            match (&m, key.as_str()) {
                (syn::Meta::Path(_), "flatten") => return Ok(FieldKind::Flatten(ty)),
                (syn::Meta::Path(_), "subcommand") => {
                    let t = if ty == "Option" { inner.as_ref().map(|t| last_type_ident(t).0).unwrap_or_default() } else { ty.clone() };
                    return Ok(FieldKind::Subcommand(t));
                }
                (syn::Meta::Path(_), "long") => has_long = true,
                (syn::Meta::NameValue(nv), "long") => {
                    has_long = true;
                    long = Some(lit_string(&nv.value).ok_or_else(|| format!("{what}: long = non-literal"))?);
                }
                (syn::Meta::Path(_), "short") | (syn::Meta::NameValue(_), "short") => has_short = true,
                (syn::Meta::NameValue(nv), "name") | (syn::Meta::NameValue(nv), "id") => {
                    id = Some(lit_string(&nv.value).ok_or_else(|| format!("{what}: name = non-literal"))?);
                }
                (syn::Meta::NameValue(_), "default_value") | (syn::Meta::NameValue(_), "default_value_t") | (syn::Meta::Path(_), "default_value_t") => has_default = true,
                (syn::Meta::NameValue(nv), "value_delimiter") => {
                    if lit_string(&nv.value).as_deref() != Some(",") {
                        return Err(format!("{what}: value_delimiter other than ','"));
                    }
                    delimiter = true;
                }
                (syn::Meta::NameValue(nv), "conflicts_with") => {
                    conflicts.push(lit_string(&nv.value).ok_or_else(|| format!("{what}: conflicts_with = non-literal"))?);
                }
                (syn::Meta::List(l), "required_if_eq") => {
                    let args = l
                        .parse_args_with(syn::punctuated::Punctuated::<syn::Expr, syn::Token![,]>::parse_terminated)
                        .map_err(|e| format!("{what}: required_if_eq: {e}"))?;
                    if args.len() != 2 {
                        return Err(format!("{what}: required_if_eq arity"));
                    }
                    req_if.push((
                        lit_string(&args[0]).ok_or_else(|| format!("{what}: required_if_eq non-literal"))?,
                        lit_string(&args[1]).ok_or_else(|| format!("{what}: required_if_eq non-literal"))?,
                    ));
                }
                (_, k) if IGNORED_KEYS.contains(&k) => {}
                (_, k) => return Err(format!("{what}: clap attribute key `{k}` is not handled")),
            }
        }
    }
    if !has_long {
        return Err(format!("{what}: argument without `long` ({}) is not handled", if has_short { "short only" } else { "positional" }));
    }
    let id = id.unwrap_or_else(|| field.clone());
    let long = long.unwrap_or_else(|| kebab(&id));
    let (arity, required) = match ty.as_str() {
        "bool" => (Arity::Flag, false),
        "Vec" => (Arity::Many, false),
        "Option" => (Arity::One, false),
        _ => (Arity::One, !has_default),
    };
    if delimiter && arity != Arity::Many {
        return Err(format!("{what}: value_delimiter on a non-Vec argument"));
    }
    Ok(FieldKind::Arg(Decl { id, field, long, arity, required, delimiter, conflicts, required_if_eq: req_if, feature, group: group.to_string() }))
}

fn find_struct<'a>(file: &'a syn::File, name: &str) -> Result<&'a syn::ItemStruct, String> {
    file.items
        .iter()
        .find_map(|i| if let syn::Item::Struct(s) = i { if s.ident == name { Some(s) } else { None } } else { None })
        .ok_or_else(|| format!("struct {name} not found"))
}
fn find_enum<'a>(file: &'a syn::File, name: &str) -> Result<&'a syn::ItemEnum, String> {
    file.items
        .iter()
        .find_map(|i| if let syn::Item::Enum(s) = i { if s.ident == name { Some(s) } else { None } } else { None })
        .ok_or_else(|| format!("enum {name} not found"))
}

fn derives(attrs: &[syn::Attribute], name: &str) -> bool {
    attrs.iter().any(|a| a.path().is_ident("derive") && toks(a).contains(name))
}

fn lean_decl(d: &Decl) -> String {
    let ar = match d.arity {
        Arity::Flag => ".flag",
        Arity::One => ".one",
        Arity::Many => ".many",
    };
    let feat = match &d.feature {
        None => "none".to_string(),
        Some((pos, f)) => format!("some ({}, {})", lean_bool(*pos), lean_str(f)),
    };
    format!(
        "{{ id := {}, field := {}, long := {}, arity := {ar}, required := {}, delimiter := {}, conflicts := [{}], requiredIfEq := [{}], feature := {feat}, group := {} }}",
        lean_str(&d.id),
        lean_str(&d.field),
        lean_str(&d.long),
        lean_bool(d.required),
        lean_bool(d.delimiter),
        d.conflicts.iter().map(|c| lean_str(c)).collect::<Vec<_>>().join(", "),
        d.required_if_eq.iter().map(|(a, b)| format!("({}, {})", lean_str(a), lean_str(b))).collect::<Vec<_>>().join(", "),
        lean_str(&d.group)
    )
}

fn lean_decls(ds: &[Decl], indent: &str) -> String {
    ds.iter().map(|d| format!("{indent}{}", lean_decl(d))).collect::<Vec<_>>().join(",\n")
}

pub fn surface(repo: &PathBuf) -> Result<String, String> {
    let main = parse_file(&repo.join("ant-node/src/bin/antnode/main.rs"))?;
    let sub = parse_file(&repo.join("ant-node/src/bin/antnode/subcommands.rs"))?;
    let peers = parse_file(&repo.join("ant-bootstrap/src/initial_peers.rs"))?;

    let opt = find_struct(&main, "Opt")?;
    if !derives(&opt.attrs, "Parser") {
        return Err("Opt does not derive clap::Parser".into());
    }
    let opt_debug = derives(&opt.attrs, "Debug");
    let pa = find_struct(&peers, "PeersArgs")?;
    if !derives(&pa.attrs, "Args") {
        return Err("PeersArgs does not derive clap::Args".into());
    }
    // struct-level attributes of Opt: only the known ones
    for a in &opt.attrs {
        let an = a.path().segments.last().map(|s| s.ident.to_string()).unwrap_or_default();
        if an == "command" || an == "clap" {
            let t = toks(a).replace(' ', "");
            for part in ["rename_all", "args_conflicts_with_subcommands", "subcommand_negates_reqs", "subcommand_precedence_over_arg", "allow_hyphen_values", "infer_long_args", "infer_subcommands", "trailing_var_arg", "allow_external_subcommands"] {
                if t.contains(part) {
                    return Err(format!("Opt: struct-level clap setting `{part}` is not handled"));
                }
            }
        }
    }

    let mut top: Vec<Decl> = vec![];
    let mut subs: Vec<(String, String, Vec<Decl>)> = vec![];
    let mut sub_optional = true;
    let mut seen_sub = false;
    for f in &opt.fields {
        match field_decl(f, "Opt")? {
            FieldKind::Arg(d) => top.push(d),
            FieldKind::Flatten(ty) => {
                if ty != "PeersArgs" {
                    return Err(format!("Opt: flatten of `{ty}` is not handled"));
                }
                for pf in &pa.fields {
                    match field_decl(pf, "PeersArgs")? {
                        FieldKind::Arg(d) => top.push(d),
                        _ => return Err("PeersArgs: nested flatten/subcommand".into()),
                    }
                }
            }
            FieldKind::Subcommand(ty) => {
                if seen_sub {
                    return Err("Opt: two subcommand fields".into());
                }
                seen_sub = true;
                sub_optional = last_type_ident(&f.ty).0 == "Option";
                let en = find_enum(&sub, &ty)?;
                if !derives(&en.attrs, "Subcommand") {
                    return Err(format!("{ty} does not derive clap::Subcommand"));
                }
                for v in &en.variants {
                    let vn = v.ident.to_string();
                    let mut cli = kebab(&vn);
                    for a in &v.attrs {
                        let an = a.path().segments.last().map(|s| s.ident.to_string()).unwrap_or_default();
                        match an.as_str() {
                            "doc" | "allow" => {}
                            "command" | "clap" => {
                                let metas = a
                                    .parse_args_with(syn::punctuated::Punctuated::<syn::Meta, syn::Token![,]>::parse_terminated)
                                    .map_err(|e| format!("{ty}::{vn}: {e}"))?;
                                for m in metas {
                                    match &m {
                                        syn::Meta::NameValue(nv) if nv.path.is_ident("name") => {
                                            cli = lit_string(&nv.value).ok_or_else(|| format!("{ty}::{vn}: name = non-literal"))?;
                                        }
                                        o => return Err(format!("{ty}::{vn}: variant attribute `{}` is not handled", toks(o))),
                                    }
                                }
                            }
                            o => return Err(format!("{ty}::{vn}: attribute #[{o}]")),
                        }
                    }
                    let mut ds = vec![];
                    match &v.fields {
                        syn::Fields::Unit => {}
                        syn::Fields::Named(n) => {
                            for vf in &n.named {
                                match field_decl(vf, &vn)? {
                                    FieldKind::Arg(d) => ds.push(d),
                                    _ => return Err(format!("{ty}::{vn}: nested flatten/subcommand")),
                                }
                            }
                        }
                        syn::Fields::Unnamed(_) => return Err(format!("{ty}::{vn}: tuple variant is not handled")),
                    }
                    subs.push((cli, vn, ds));
                }
            }
        }
    }
    if !seen_sub {
        return Err("Opt: no subcommand field".into());
    }

    // EvmNetworkCommand → EvmNetwork (`Into<EvmNetwork>`): Self::X … => EvmNetwork::Y
    let into = impl_fn(&sub, "EvmNetworkCommand", Some("Into"), "into")?;
    let mut into_tbl = vec![];
    {
        struct M(Vec<syn::ExprMatch>);
        impl<'ast> syn::visit::Visit<'ast> for M {
            fn visit_expr_match(&mut self, m: &'ast syn::ExprMatch) {
                self.0.push(m.clone());
            }
        }
        let mut m = M(vec![]);
        syn::visit::Visit::visit_block(&mut m, &into.block);
        if m.0.len() != 1 {
            return Err("EvmNetworkCommand::into: expected one match".into());
        }
        for arm in &m.0[0].arms {
            let from = match &arm.pat {
                syn::Pat::Path(p) => p.path.segments.last().unwrap().ident.to_string(),
                syn::Pat::Struct(p) => p.path.segments.last().unwrap().ident.to_string(),
                syn::Pat::TupleStruct(p) => p.path.segments.last().unwrap().ident.to_string(),
                o => return Err(format!("EvmNetworkCommand::into: arm `{}`", toks(o))),
            };
            let body = toks(&arm.body).replace(' ', "");
            let to = if let Some(rest) = body.strip_prefix("EvmNetwork::") {
                if rest.starts_with("new_custom(") {
                    "Custom".to_string()
                } else if rest.chars().all(|c| c.is_alphanumeric()) {
                    rest.to_string()
                } else {
                    return Err(format!("EvmNetworkCommand::into: body `{body}`"));
                }
            } else {
                return Err(format!("EvmNetworkCommand::into: body `{body}`"));
            };
            into_tbl.push((from, to));
        }
    }

    // which field of the command ends up in which field of `CustomNetwork`:
    // `Self::EvmCustom { a, b, c } => EvmNetwork::new_custom(&x0, &x1, &x2)`  (subcommands.rs)
    // `fn new_custom(p0, p1, p2) { Self::Custom(CustomNetwork::new(y0, y1, y2)) }`, `fn new(q0, q1, q2) { Self { field: ..q.. } }`  (evmlib)
    let custom_into = custom_field_flow(repo, &m_arms_of(into)?)?;

    // default features of ant-node
    let cargo = std::fs::read_to_string(repo.join("ant-node/Cargo.toml")).map_err(|e| e.to_string())?;
    let mut in_features = false;
    let mut defaults: Option<Vec<String>> = None;
    for line in cargo.lines() {
        let l = line.trim();
        if l.starts_with('[') {
            in_features = l == "[features]";
            continue;
        }
        if in_features && l.starts_with("default") && l.contains('=') {
            let rhs = l.split_once('=').unwrap().1.trim();
            if !(rhs.starts_with('[') && rhs.ends_with(']')) {
                return Err("ant-node/Cargo.toml: multi-line default feature list is not handled".into());
            }
            defaults = Some(rhs[1..rhs.len() - 1].split(',').map(|x| x.trim().trim_matches('"').to_string()).filter(|x| !x.is_empty()).collect());
        }
    }
    let defaults = defaults.ok_or("ant-node/Cargo.toml: no default feature list")?;

    let mut s = String::new();
    s.push_str(&format!("/-- top-level long options of antnode (`Opt` with `PeersArgs` flattened), in declaration order -/\ndef topDecls : List Decl := [\n{}\n]\n", lean_decls(&top, "  ")));
    s.push_str("/-- subcommands of `EvmNetworkCommand`: (word on the command line, variant, its options) -/\ndef subcommands : List (String × String × List Decl) := [\n");
    for (i, (cli, vn, ds)) in subs.iter().enumerate() {
        s.push_str(&format!("  ({}, {}, [\n{}\n  ]){}\n", lean_str(cli), lean_str(vn), lean_decls(ds, "    "), if i + 1 < subs.len() { "," } else { "" }));
    }
    s.push_str("]\n");
    s.push_str(&format!("/-- the subcommand field of `Opt` is an `Option` -/\ndef subcommandOptional : Bool := {}\n", lean_bool(sub_optional)));
    s.push_str(&format!("/-- `Opt` derives `Debug` (needed by the dump hook) -/\ndef optDerivesDebug : Bool := {}\n", lean_bool(opt_debug)));
    s.push_str(&format!(
        "/-- `impl Into<EvmNetwork> for EvmNetworkCommand`: command variant ↦ network variant -/\ndef evmCommandInto : List (String × String) := [{}]\n",
        into_tbl.iter().map(|(a, b)| format!("({}, {})", lean_str(a), lean_str(b))).collect::<Vec<_>>().join(", ")
    ));
    s.push_str(&format!(
        "/-- data flow of `impl Into<EvmNetwork>` for the custom network through `Network::new_custom` and `CustomNetwork::new`: (field of `CustomNetwork`, field of `EvmNetworkCommand::EvmCustom` it is built from) -/\ndef evmCustomInto : List (String × String) := [{}]\n",
        custom_into.iter().map(|(a, b)| format!("({}, {})", lean_str(a), lean_str(b))).collect::<Vec<_>>().join(", ")
    ));
    s.push_str(&format!(
        "/-- `default = [..]` of ant-node/Cargo.toml: the shipped feature set -/\ndef defaultFeatures : List String := [{}]\n",
        defaults.iter().map(|d| lean_str(d)).collect::<Vec<_>>().join(", ")
    ));
    Ok(s)
}

fn m_arms_of(f: &syn::ImplItemFn) -> Result<Vec<syn::Arm>, String> {
    struct M(Vec<syn::ExprMatch>);
    impl<'ast> syn::visit::Visit<'ast> for M {
        fn visit_expr_match(&mut self, m: &'ast syn::ExprMatch) {
            self.0.push(m.clone());
        }
    }
    let mut m = M(vec![]);
    syn::visit::Visit::visit_block(&mut m, &f.block);
    if m.0.len() != 1 {
        return Err("EvmNetworkCommand::into: expected one match".into());
    }
    Ok(m.0[0].arms.clone())
}

/// identifiers passed (possibly by reference / clone / as_str) as the arguments of the one call to `callee` inside `e`
fn call_arg_idents(e: &dyn quote::ToTokens, callee: &str, what: &str) -> Result<Vec<String>, String> {
    struct C<'a>(&'a str, Vec<syn::ExprCall>);
    impl<'ast, 'a> syn::visit::Visit<'ast> for C<'a> {
        fn visit_expr_call(&mut self, c: &'ast syn::ExprCall) {
            if toks(&c.func).replace(' ', "").ends_with(self.0) {
                self.1.push(c.clone());
            }
            syn::visit::visit_expr_call(self, c);
        }
    }
    let expr: syn::Expr = syn::parse2(e.to_token_stream()).map_err(|x| format!("{what}: {x}"))?;
    let mut c = C(callee, vec![]);
    syn::visit::Visit::visit_expr(&mut c, &expr);
    if c.1.len() != 1 {
        return Err(format!("{what}: expected exactly one call of {callee}, found {}", c.1.len()));
    }
    let mut out = vec![];
    for a in &c.1[0].args {
        let mut cur = a;
        loop {
            match cur {
                syn::Expr::Reference(r) => cur = &r.expr,
                syn::Expr::Paren(p) => cur = &p.expr,
                syn::Expr::MethodCall(m) if m.args.is_empty() && ["clone", "as_str", "to_string", "as_ref"].contains(&m.method.to_string().as_str()) => cur = &m.receiver,
                _ => break,
            }
        }
        match cur {
            syn::Expr::Path(p) if p.path.segments.len() == 1 => out.push(p.path.segments[0].ident.to_string()),
            o => return Err(format!("{what}: argument `{}` of {callee} is not a plain variable", toks(o))),
        }
    }
    Ok(out)
}

fn param_names(sig: &syn::Signature) -> Vec<String> {
    sig.inputs
        .iter()
        .filter_map(|a| if let syn::FnArg::Typed(t) = a { Some(toks(&t.pat).replace(' ', "")) } else { None })
        .collect()
}

fn custom_field_flow(repo: &PathBuf, arms: &[syn::Arm]) -> Result<Vec<(String, String)>, String> {
    // 1. the EvmCustom arm: binding variable -> command field, and the variables handed to new_custom
    let arm = arms
        .iter()
        .find(|a| toks(&a.body).replace(' ', "").contains("new_custom("))
        .ok_or("EvmNetworkCommand::into: no arm calls EvmNetwork::new_custom")?;
    let mut var_field: Vec<(String, String)> = vec![];
    match &arm.pat {
        syn::Pat::Struct(ps) => {
            for fp in &ps.fields {
                let field = match &fp.member {
                    syn::Member::Named(i) => i.to_string(),
                    _ => return Err("EvmCustom: tuple field".into()),
                };
                let var = match &*fp.pat {
                    syn::Pat::Ident(i) => i.ident.to_string(),
                    o => return Err(format!("EvmCustom: field pattern `{}`", toks(o))),
                };
                var_field.push((var, field));
            }
        }
        o => return Err(format!("EvmNetworkCommand::into: custom arm pattern `{}`", toks(o))),
    }
    let passed = call_arg_idents(&arm.body, "new_custom", "EvmNetworkCommand::into")?;
    // 2. new_custom(p..) -> CustomNetwork::new(y..)
    let evm = parse_file(&repo.join("evmlib/src/lib.rs"))?;
    let new_custom = impl_fn(&evm, "Network", None, "new_custom")?;
    let p = param_names(&new_custom.sig);
    let y = call_arg_idents(&new_custom.block, "CustomNetwork::new", "Network::new_custom")?;
    // 3. CustomNetwork::new(q..) -> Self { field: ..q.. }
    let cn_new = impl_fn(&evm, "CustomNetwork", None, "new")?;
    let q = param_names(&cn_new.sig);
    if passed.len() != p.len() || y.len() != q.len() {
        return Err("custom network constructors: argument counts differ".into());
    }
    struct S(Vec<syn::ExprStruct>);
    impl<'ast> syn::visit::Visit<'ast> for S {
        fn visit_expr_struct(&mut self, s: &'ast syn::ExprStruct) {
            self.0.push(s.clone());
        }
    }
    let mut st = S(vec![]);
    syn::visit::Visit::visit_block(&mut st, &cn_new.block);
    if st.0.len() != 1 {
        return Err("CustomNetwork::new: expected one struct literal".into());
    }
    let mut out = vec![];
    for f in &st.0[0].fields {
        let field = match &f.member {
            syn::Member::Named(i) => i.to_string(),
            _ => return Err("CustomNetwork: tuple field".into()),
        };
        let text = toks(&f.expr);
        let words: Vec<&str> = text.split(|c: char| !(c.is_alphanumeric() || c == '_')).collect();
        let used: Vec<usize> = (0..q.len()).filter(|i| words.contains(&q[*i].as_str())).collect();
        if used.len() != 1 {
            return Err(format!("CustomNetwork::new: field {field} is built from {} parameters", used.len()));
        }
        // q[j] receives y[j], which is parameter p[i] of new_custom, which receives passed[i]
        let yj = &y[used[0]];
        let i = p.iter().position(|x| x == yj).ok_or_else(|| format!("Network::new_custom passes `{yj}`, not one of its parameters"))?;
        let var = &passed[i];
        let cmd_field = var_field.iter().find(|(v, _)| v == var).map(|(_, f)| f.clone()).ok_or_else(|| format!("EvmNetworkCommand::into: `{var}` is not a field of EvmCustom"))?;
        out.push((field, cmd_field));
    }
    Ok(out)
}
