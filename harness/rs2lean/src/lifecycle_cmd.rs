//! C19: the command layer of `antctl` (`ant-node-manager/src/cmd/node.rs`) and of `antctld`
//! (`src/bin/daemon/main.rs::restart_handler`), read as flags: for every command whether it runs the partial registry
//! refresh between loading the registry and selecting the services, and whether it saves the registry after an
//! operation that returned `Ok` / `Err`. Every flag is read two-sidedly: the `true` shape and the `false` shape are
//! both recognised, anything else (a save at another place, a `?` in front of the save inside its arm, a refresh after
//! the selection, ..) is UNTRANSLATABLE. Statement order matters: positions are compared, not mere presence.
use crate::util::*;
use quote::ToTokens;
use std::path::PathBuf;

fn toks<T: ToTokens>(t: &T) -> String {
    t.to_token_stream().to_string().replace(' ', "")
}

pub struct Cmd {
    pub refresh_first: bool,
    pub saves_on_ok: bool,
    pub saves_on_err: bool,
}

const SAVE: &str = "node_registry.save()?;";
const REFRESH: &str =
    "refresh_node_registry(&mutnode_registry,&ServiceController{},verbosity!=VerbosityLevel::Minimal,false,false,).await?;";

/// does the statement contain a `?` operator (outside macro arguments: `debug!("{x:?}")` is not one)
fn has_try(st: &syn::Stmt) -> bool {
    struct V(bool);
    impl<'ast> syn::visit::Visit<'ast> for V {
        fn visit_expr_try(&mut self, _e: &'ast syn::ExprTry) {
            self.0 = true;
        }
    }
    let mut v = V(false);
    syn::visit::Visit::visit_stmt(&mut v, st);
    v.0
}

fn count(hay: &str, needle: &str) -> usize {
    hay.matches(needle).count()
}

/// Does a block save as one of its top-level statements, with no `?` in front of it (true); does it not mention a
/// save at all (false); anything else is an error.
fn block_saves(what: &str, stmts: &[syn::Stmt]) -> Result<bool, String> {
    let t: Vec<String> = stmts.iter().map(toks).collect();
    let all: String = t.concat();
    let at: Vec<usize> = t.iter().enumerate().filter(|(_, s)| *s == SAVE).map(|(i, _)| i).collect();
    match (at.as_slice(), count(&all, "node_registry.save")) {
        ([], 0) => Ok(false),
        ([k], 1) => {
            if stmts[..*k].iter().any(has_try) {
                Err(format!("{what}: a `?` in front of `node_registry.save()?` can skip the save"))
            } else {
                Ok(true)
            }
        }
        _ => Err(format!("{what}: `node_registry.save` occurs at an unexpected place")),
    }
}

/// A command of the shape `load; [refresh;] select; for index { .. match service_manager.<method>(..).await { Ok => .., Err => .. } }`.
fn loop_cmd(file: &syn::File, fname: &str, method: &str) -> Result<Cmd, String> {
    let f = free_fn(file, fname)?;
    let t: Vec<String> = f.block.stmts.iter().map(toks).collect();
    let body = toks(&f.block);
    let pos = |pred: &dyn Fn(&str) -> bool, what: &str| -> Result<usize, String> {
        let v: Vec<usize> = t.iter().enumerate().filter(|(_, s)| pred(s)).map(|(i, _)| i).collect();
        if v.len() == 1 { Ok(v[0]) } else { Err(format!("cmd::node::{fname}: expected exactly one top-level {what}, found {}", v.len())) }
    };
    let load_at = pos(&|s| s.starts_with("letmutnode_registry=NodeRegistry::load("), "`let mut node_registry = NodeRegistry::load(..)`")?;
    let sel_at = pos(&|s| s.starts_with("letservice_indices=get_services_for_ops(&node_registry,"), "`let service_indices = get_services_for_ops(&node_registry, ..)`")?;
    let refresh_at: Vec<usize> = t.iter().enumerate().filter(|(_, s)| s.starts_with("refresh_node_registry(")).map(|(i, _)| i).collect();
    let refresh_first = match (refresh_at.as_slice(), count(&body, "refresh_node_registry")) {
        ([], 0) => false,
        ([k], 1) if load_at < *k && *k < sel_at && t[*k] == REFRESH => true,
        _ => return Err(format!("cmd::node::{fname}: the registry refresh is not the partial refresh between load and service selection")),
    };
    if load_at > sel_at {
        return Err(format!("cmd::node::{fname}: services are selected before the registry is loaded"));
    }
    // the loop over the selected services
    let loops: Vec<&syn::ExprForLoop> = f
        .block
        .stmts
        .iter()
        .enumerate()
        .filter_map(|(i, st)| match st {
            syn::Stmt::Expr(syn::Expr::ForLoop(l), _) if i > sel_at && toks(&l.expr) == "&service_indices" => Some(l),
            _ => None,
        })
        .collect();
    if loops.len() != 1 {
        return Err(format!("cmd::node::{fname}: expected one `for &index in &service_indices` loop after the selection"));
    }
    let call = format!("service_manager.{method}(");
    let matches: Vec<&syn::ExprMatch> = loops[0]
        .body
        .stmts
        .iter()
        .filter_map(|st| match st {
            syn::Stmt::Expr(syn::Expr::Match(m), _) => {
                let s = toks(&m.expr);
                (s.starts_with(&call) && s.ends_with(".await")).then_some(m)
            }
            _ => None,
        })
        .collect();
    if matches.len() != 1 || count(&body, &call) != 1 {
        return Err(format!("cmd::node::{fname}: expected exactly one `match service_manager.{method}(..).await` in the loop"));
    }
    let m = matches[0];
    let arm = |prefix: &str| -> Result<bool, String> {
        let arms: Vec<&syn::Arm> = m.arms.iter().filter(|a| toks(&a.pat).starts_with(prefix)).collect();
        if arms.len() != 1 || m.arms.len() != 2 {
            return Err(format!("cmd::node::{fname}: the match on the result does not have exactly an Ok and an Err arm"));
        }
        match arms[0].body.as_ref() {
            syn::Expr::Block(b) => block_saves(&format!("cmd::node::{fname} {prefix}..) arm"), &b.block.stmts),
            _ => Err(format!("cmd::node::{fname}: the {prefix}..) arm is not a block")),
        }
    };
    let saves_on_ok = arm("Ok(")?;
    let saves_on_err = arm("Err(")?;
    let expected = saves_on_ok as usize + saves_on_err as usize;
    if count(&body, "node_registry.save") != expected {
        return Err(format!("cmd::node::{fname}: `node_registry.save` occurs outside the arms of the result match"));
    }
    Ok(Cmd { refresh_first, saves_on_ok, saves_on_err })
}

/// `call(..).await?; [node_registry.save()?;]` among the statements `t`: the error returns in front of the save.
fn call_then_save(what: &str, stmts: &[syn::Stmt], call_prefix: &str) -> Result<Cmd, String> {
    let t: Vec<String> = stmts.iter().map(toks).collect();
    let at: Vec<usize> = t
        .iter()
        .enumerate()
        .filter(|(_, s)| s.contains(call_prefix))
        .map(|(i, _)| i)
        .collect();
    if at.len() != 1 {
        return Err(format!("{what}: expected exactly one statement calling `{call_prefix}..)`"));
    }
    let k = at[0];
    if !t[k].ends_with(".await?;") {
        return Err(format!("{what}: the result of `{call_prefix}..)` is not propagated with `?` at once"));
    }
    let all: String = t.concat();
    let saves: Vec<usize> = t.iter().enumerate().filter(|(_, s)| *s == SAVE).map(|(i, _)| i).collect();
    let saves_on_ok = match (saves.as_slice(), count(&all, "node_registry.save")) {
        ([], 0) => false,
        ([j], 1) if *j > k && !stmts[k + 1..*j].iter().any(has_try) => true,
        _ => return Err(format!("{what}: `node_registry.save` occurs at an unexpected place")),
    };
    if count(&all, "refresh_node_registry") != 0 {
        return Err(format!("{what}: unexpected registry refresh"));
    }
    Ok(Cmd { refresh_first: false, saves_on_ok, saves_on_err: false })
}

pub struct Layer {
    pub add: Cmd,
    pub start: Cmd,
    pub stop: Cmd,
    pub remove: Cmd,
    pub upgrade: Cmd,
    pub status: Cmd,
    pub daemon_restart: Cmd,
}

pub const REL_CMD: &str = "ant-node-manager/src/cmd/node.rs";
pub const REL_DAEMON: &str = "ant-node-manager/src/bin/daemon/main.rs";

pub fn read(repo: &PathBuf) -> Result<Layer, String> {
    let file = parse_file(&repo.join(REL_CMD))?;
    let start = loop_cmd(&file, "start", "start")?;
    let stop = loop_cmd(&file, "stop", "stop")?;
    let remove = loop_cmd(&file, "remove", "remove")?;
    let upgrade = loop_cmd(&file, "upgrade", "upgrade")?;

    let add_fn = free_fn(&file, "add")?;
    let add = call_then_save("cmd::node::add", &add_fn.block.stmts, "=add_node(options,&mutnode_registry,")?;

    // `status`: everything happens inside `if !node_registry.nodes.is_empty() { .. }`
    let status_fn = free_fn(&file, "status")?;
    let blocks: Vec<&syn::Block> = status_fn
        .block
        .stmts
        .iter()
        .filter_map(|st| match st {
            syn::Stmt::Expr(syn::Expr::If(i), _) if toks(&i.cond) == "!node_registry.nodes.is_empty()" && i.else_branch.is_none() => Some(&i.then_branch),
            _ => None,
        })
        .collect();
    let sbody = toks(&status_fn.block);
    if blocks.len() != 1 || count(&sbody, "status_report(") != 1 {
        return Err("cmd::node::status: expected one `if !node_registry.nodes.is_empty() { status_report(..) .. }`".into());
    }
    let status = call_then_save("cmd::node::status", &blocks[0].stmts, "status_report(&mutnode_registry,")?;
    if count(&sbody, "node_registry.save") != status.saves_on_ok as usize {
        return Err("cmd::node::status: `node_registry.save` occurs outside the status block".into());
    }

    // antctld: restart_handler
    let dfile = parse_file(&repo.join(REL_DAEMON))?;
    let handler = impl_fn(&dfile, "AntCtlDaemon", None, "restart_handler")?;
    let t: Vec<String> = handler.block.stmts.iter().map(toks).collect();
    let call = "rpc::restart_node_service(&mutnode_registry,peer_id,retain_peer_id).await";
    let t: Vec<&str> = t.iter().map(|s| s.as_str()).collect();
    let bound = format!("letres={call};");
    let direct = format!("{call}?;");
    let daemon_restart = match t.as_slice() {
        [a, s, r] if *a == bound && *s == SAVE && *r == "res" => Cmd { refresh_first: false, saves_on_ok: true, saves_on_err: true },
        [a, s, r] if *a == direct && *s == SAVE && *r == "Ok(())" => Cmd { refresh_first: false, saves_on_ok: true, saves_on_err: false },
        [a, r] if *a == bound && *r == "res" => Cmd { refresh_first: false, saves_on_ok: false, saves_on_err: false },
        [a, r] if *a == direct && *r == "Ok(())" => Cmd { refresh_first: false, saves_on_ok: false, saves_on_err: false },
        [a] if *a == call => Cmd { refresh_first: false, saves_on_ok: false, saves_on_err: false },
        _ => return Err("daemon restart_handler: unexpected shape (expected `let res = rpc::restart_node_service(..).await; node_registry.save()?; res`)".into()),
    };
    Ok(Layer { add, start, stop, remove, upgrade, status, daemon_restart })
}

pub fn emit(l: &Layer) -> String {
    let mut s = String::new();
    let mut flag = |name: &str, doc: &str, v: bool| {
        s.push_str(&format!("/-- {doc} -/\ndef {name} : Bool := {}\n", lean_bool(v)));
    };
    for (n, c, what) in [
        ("start", &l.start, "cmd::node::start"),
        ("stop", &l.stop, "cmd::node::stop"),
        ("remove", &l.remove, "cmd::node::remove"),
        ("upgrade", &l.upgrade, "cmd::node::upgrade"),
    ] {
        flag(&format!("{n}RefreshFirst"), &format!("`{what}` runs `refresh_node_registry(.., full_refresh = false, is_local_network = false)` between loading the registry and selecting the services"), c.refresh_first);
        flag(&format!("{n}SavesOnOk"), &format!("`{what}` saves the registry in the `Ok` arm of `match service_manager.{n}(..).await`"), c.saves_on_ok);
        flag(&format!("{n}SavesOnErr"), &format!("`{what}` saves the registry in the `Err` arm of `match service_manager.{n}(..).await`"), c.saves_on_err);
    }
    flag("addSavesOnOk", "`cmd::node::add` saves the registry after `add_node(..).await?` returned `Ok`", l.add.saves_on_ok);
    flag("addSavesOnErr", "`cmd::node::add` saves the registry after `add_node` returned an error (false: the `?` returns first)", l.add.saves_on_err);
    flag("statusSavesOnOk", "`cmd::node::status` saves the registry after `status_report(..).await?` returned `Ok`", l.status.saves_on_ok);
    flag("statusSavesOnErr", "`cmd::node::status` saves the registry after `status_report` returned an error (false: the `?` returns first)", l.status.saves_on_err);
    flag("daemonRestartSavesOnOk", "antctld's `restart_handler` saves the registry after `restart_node_service` returned `Ok`", l.daemon_restart.saves_on_ok);
    flag("daemonRestartSavesOnErr", "antctld's `restart_handler` saves the registry after `restart_node_service` returned an error", l.daemon_restart.saves_on_err);
    s
}
