//! C17, coverage round 2 (included by parsers.rs): the routines that parse program output, the environment, config and
//! user-data files, HTTP responses, log files and paths.  Emits, into `Gen/Parsers.lean`:
//!   * constants and tables read from the source (searched character, slice offsets after `starts_with`, split
//!     characters, part counts, literal tables of `match` arms and `==` chains) as byte lists (so `decide` can run on them),
//!   * checked-ness flags: `true` only on positively recognising the checked shape, `false` only on positively
//!     recognising the known unchecked alternative, anything else is UNTRANSLATABLE,
//!   * per routine the list of syntactic panic sites that are not modelled.
use super::*;

fn lean_bytes(s: &str) -> String {
    format!("[{}]", s.bytes().map(|b| b.to_string()).collect::<Vec<_>>().join(", "))
}

fn lit_str(e: &syn::Expr) -> Option<String> {
    match e {
        syn::Expr::Lit(l) => match &l.lit {
            syn::Lit::Str(s) => Some(s.value()),
            _ => None,
        },
        syn::Expr::Reference(r) => lit_str(&r.expr),
        syn::Expr::Paren(p) => lit_str(&p.expr),
        _ => None,
    }
}

fn lit_char(e: &syn::Expr) -> Option<char> {
    match e {
        syn::Expr::Lit(l) => match &l.lit {
            syn::Lit::Char(c) => Some(c.value()),
            _ => None,
        },
        _ => None,
    }
}

/// method calls `name(args)` anywhere in a block
struct MethodCalls<'a> {
    name: &'a str,
    found: Vec<syn::ExprMethodCall>,
}
impl<'ast, 'a> Visit<'ast> for MethodCalls<'a> {
    fn visit_expr_method_call(&mut self, m: &'ast syn::ExprMethodCall) {
        if m.method == self.name {
            self.found.push(m.clone());
        }
        syn::visit::visit_expr_method_call(self, m);
    }
}
fn method_calls(b: &syn::Block, name: &str) -> Vec<syn::ExprMethodCall> {
    let mut v = MethodCalls { name, found: vec![] };
    v.visit_block(b);
    v.found
}

struct AllArms(Vec<syn::Arm>);
impl<'ast> Visit<'ast> for AllArms {
    fn visit_arm(&mut self, a: &'ast syn::Arm) {
        self.0.push(a.clone());
        syn::visit::visit_arm(self, a);
    }
}
pub(super) fn arms(b: &syn::Block) -> Vec<syn::Arm> {
    let mut v = AllArms(vec![]);
    v.visit_block(b);
    v.0
}

struct AllIfs(Vec<syn::ExprIf>);
impl<'ast> Visit<'ast> for AllIfs {
    fn visit_expr_if(&mut self, i: &'ast syn::ExprIf) {
        self.0.push(i.clone());
        syn::visit::visit_expr_if(self, i);
    }
}

fn str_const(file: &syn::File, name: &str) -> Result<String, String> {
    for (n, e) in consts(file) {
        if n == name {
            return lit_str(&e).ok_or_else(|| format!("{name} is not a string constant"));
        }
    }
    Err(format!("const {name} not found"))
}

/// the one split character of `x.split('c')` calls, in source order
fn split_chars(b: &syn::Block, method: &str) -> Vec<char> {
    method_calls(b, method).iter().filter_map(|m| m.args.last().and_then(lit_char)).collect()
}

/// index expressions that are not the full range `[..]`
fn partial_indexes(b: &syn::Block) -> usize {
    let mut f = IndexFinder { found: vec![], lens: 0 };
    f.visit_block(b);
    f.found.iter().filter(|ix| toks(&ix.index) != "..").count()
}

pub(super) fn sites_def(s: &mut String, name: &str, v: &[String]) {
    s.push_str(&format!("def {name} : List String := {}\n", lean_strs(v)));
}

/// `true` on `yes`, `false` on `no`, UNTRANSLATABLE otherwise
pub(super) fn flag(body: &str, yes: &[&str], no: &[&str], what: &str) -> Result<bool, String> {
    let y = yes.iter().all(|p| body.contains(p));
    let n = no.iter().all(|p| body.contains(p));
    match (y, n) {
        (true, false) => Ok(true),
        (false, true) => Ok(false),
        _ => Err(format!("{what}: neither the checked nor the unchecked shape recognised")),
    }
}

pub fn generate(repo: &PathBuf, s: &mut String) -> Result<(), String> {
    let no_env = |_: &str| -> Option<u128> { None };

    // --- get_bin_version
    {
        let rel = "ant-node-manager/src/helpers.rs";
        let file = parse_file(&repo.join(rel))?;
        let f = free_fn(&file, "get_bin_version")?;
        let mut ixf = IndexFinder { found: vec![], lens: 0 };
        ixf.visit_block(&f.block);
        if ixf.found.len() != 1 || toks(&ixf.found[0].expr) != "first_line" {
            return Err("get_bin_version: expected exactly one slice, of `first_line`".into());
        }
        let skip = match &*ixf.found[0].index {
            syn::Expr::Range(r) if r.end.is_none() => match r.start.as_deref() {
                Some(syn::Expr::Binary(b)) if matches!(b.op, syn::BinOp::Add(_)) && toks(&b.left) == "v_pos" => eval_const(&b.right, &no_env)?,
                Some(p) if toks(p) == "v_pos" => 0,
                _ => return Err("get_bin_version: the slice does not start at `v_pos + N`".into()),
            },
            _ => return Err("get_bin_version: the slice is not `first_line[v_pos + N..]`".into()),
        };
        let finds = method_calls(&f.block, "find");
        if finds.len() != 1 || toks(&finds[0].receiver) != "first_line" {
            return Err("get_bin_version: expected exactly one `first_line.find(..)`".into());
        }
        let ch = finds[0].args.first().and_then(lit_char).ok_or("get_bin_version: find() of a non-char")?;
        if !toks(&f.block).contains("ifletSome(v_pos)=first_line.find(") {
            return Err("get_bin_version: `v_pos` is not bound by `if let Some(v_pos) = first_line.find(..)`".into());
        }
        let mut af = AddFinder { found: vec![] };
        af.visit_block(&f.block);
        if af.found.len() > 1 {
            return Err("get_bin_version: more arithmetic than the slice offset".into());
        }
        s.push_str(&format!("\n/-- {rel} `get_bin_version`: the character searched in the first output line, and the constant added to its byte position to start the version slice (`first_line[v_pos + N..]`) -/\ndef versionFindChar : Nat := {}\ndef versionSliceSkip : Nat := {skip}\n", ch as u32));
        sites_def(s, "binVersionSites", &sites(&f.block, &no_env, true, true));
    }
    // --- antctl parse_environment_variables
    {
        let rel = "ant-node-manager/src/bin/cli/main.rs";
        let file = parse_file(&repo.join(rel))?;
        let f = free_fn(&file, "parse_environment_variables")?;
        let sp = method_calls(&f.block, "splitn");
        if sp.len() != 1 || sp[0].args.len() != 2 {
            return Err("parse_environment_variables: expected one splitn(n, c)".into());
        }
        let n = eval_const(&sp[0].args[0], &no_env)?;
        let c = lit_char(&sp[0].args[1]).ok_or("parse_environment_variables: splitn on a non-char")?;
        let mut cf = CondFinder { conds: vec![] };
        cf.visit_block(&f.block);
        let mut parts = None;
        for c in &cf.conds {
            if let syn::Expr::Binary(b) = c {
                if is_len_call(&b.left) {
                    parts = Some((cmp_name(&b.op, false)?, eval_const(&b.right, &no_env)?));
                }
            }
        }
        let (pc, pn) = parts.ok_or("parse_environment_variables: no `parts.len() <cmp> N` check")?;
        let mut ixf = IndexFinder { found: vec![], lens: 0 };
        ixf.visit_block(&f.block);
        let mut idxs = vec![];
        for ix in &ixf.found {
            if toks(&ix.expr) != "parts" {
                return Err(format!("parse_environment_variables: index into `{}`", toks(&ix.expr)));
            }
            idxs.push(eval_const(&ix.index, &no_env)?);
        }
        s.push_str(&format!("/-- {rel} `parse_environment_variables`: `splitn(N, c)`, the rejecting part-count check, the `parts[i]` accesses -/\ndef envSplitN : Nat := {n}\ndef envSplitChar : Nat := {}\ndef envPartsReject : Cmp × Nat := (.{pc}, {pn})\ndef envPartIndexes : List Nat := [{}]\n", c as u32, idxs.iter().map(|i| i.to_string()).collect::<Vec<_>>().join(", ")));
        sites_def(s, "envVarSites", &sites(&f.block, &no_env, true, false));
    }
    // --- ant-logging get_logging_targets
    {
        let rel = "ant-logging/src/layers.rs";
        let file = parse_file(&repo.join(rel))?;
        let f = free_fn(&file, "get_logging_targets")?;
        let kw = [str_const(&file, "ALL_ANT_LOGS")?, str_const(&file, "VERBOSE_ANT_LOGS")?];
        let body = toks(&f.block);
        if !(body.contains("crate_log_level==ALL_ANT_LOGS") && body.contains("crate_log_level==VERBOSE_ANT_LOGS")) {
            return Err("get_logging_targets: keyword comparisons not found".into());
        }
        let sc = split_chars(&f.block, "split");
        if sc.len() != 2 {
            return Err(format!("get_logging_targets: expected two split(char) calls, found {sc:?}"));
        }
        let dflt = method_calls(&f.block, "unwrap_or").iter().find_map(|m| m.args.first().and_then(lit_str)).ok_or("get_logging_targets: no default level")?;
        let g = free_fn(&file, "get_log_level_from_str")?;
        if !toks(&g.block).contains("log_level.to_lowercase()") {
            return Err("get_log_level_from_str: the level is not lower-cased".into());
        }
        let names: Vec<String> = arms(&g.block).iter().filter_map(|a| match &a.pat {
            syn::Pat::Lit(l) => match &l.lit { syn::Lit::Str(st) => Some(st.value()), _ => None },
            _ => None,
        }).collect();
        if names.is_empty() {
            return Err("get_log_level_from_str: no literal arms".into());
        }
        s.push_str(&format!("\n/-- {rel} `get_logging_targets` / `get_log_level_from_str`: keywords {kw:?}, separators, accepted level names {names:?}, default level {dflt:?} -/\ndef logKeywords : List (List Nat) := [{}]\ndef logItemSplitChar : Nat := {}\ndef logLevelSplitChar : Nat := {}\ndef logLevelNames : List (List Nat) := [{}]\ndef logDefaultLevel : List Nat := {}\n",
            kw.iter().map(|k| lean_bytes(k)).collect::<Vec<_>>().join(", "), sc[0] as u32, sc[1] as u32, names.iter().map(|k| lean_bytes(k)).collect::<Vec<_>>().join(", "), lean_bytes(&dflt)));
        sites_def(s, "logTargetsSites", &sites(&f.block, &no_env, false, false));
        sites_def(s, "logLevelSites", &sites(&g.block, &no_env, false, false));
    }
    // --- node-launchpad config.rs
    {
        let rel = "node-launchpad/src/config.rs";
        let file = parse_file(&repo.join(rel))?;
        // key names
        let f = free_fn(&file, "parse_key_code_with_modifiers")?;
        let mut table = vec![];
        let mut guarded = None;
        for a in arms(&f.block) {
            match &a.pat {
                syn::Pat::Lit(l) => {
                    let syn::Lit::Str(st) = &l.lit else { continue };
                    let body = toks(&a.body);
                    let adds_shift = body.contains("modifiers.insert(KeyModifiers::SHIFT)");
                    let code_at = body.rfind("KeyCode::").ok_or_else(|| format!("parse_key_code_with_modifiers: arm {:?} without a KeyCode", st.value()))?;
                    let code = body[code_at + "KeyCode::".len()..].trim_end_matches('}').to_string();
                    let canon = if let Some(n) = code.strip_prefix("F(").and_then(|x| x.strip_suffix(')')) {
                        format!("f{n}")
                    } else if let Some(c) = code.strip_prefix("Char('").and_then(|x| x.strip_suffix("')")) {
                        let ch = if c.is_empty() { ' ' } else { c.chars().next().unwrap_or(' ') }; // `' '` loses its blank in the token text
                        format!("c{}", ch as u32)
                    } else if code.chars().all(|c| c.is_ascii_alphanumeric()) {
                        code.to_lowercase()
                    } else {
                        return Err(format!("parse_key_code_with_modifiers: unexpected key code `{code}`"));
                    };
                    table.push((st.value(), canon, adds_shift));
                }
                syn::Pat::Ident(_) if a.guard.is_some() => {
                    let g = a.guard.as_ref().map(|(_, e)| toks(e)).unwrap_or_default();
                    let body = toks(&a.body);
                    if body.contains(".chars().next().unwrap()") {
                        guarded = Some(g == "c.len()==1");
                    }
                }
                _ => {}
            }
        }
        if table.is_empty() {
            return Err("parse_key_code_with_modifiers: no literal arms".into());
        }
        let unwraps = method_calls(&f.block, "unwrap").len();
        let guarded = match (guarded, unwraps) {
            (Some(g), 1) => g,
            (None, 0) => true,
            _ => false,
        };
        s.push_str(&format!("\n/-- {rel}: key names of `parse_key_code_with_modifiers` (literal, canonical key code, adds SHIFT), modifier prefixes of `extract_modifiers` with the slice offset used after `starts_with` and the modifier bit (SHIFT 1, CONTROL 2, ALT 4) -/\ndef keyTable : List (List Nat × String × Bool) := [{}]\n",
            table.iter().map(|(l, c, sh)| format!("({}, {c:?}, {})", lean_bytes(l), lean_bool(*sh))).collect::<Vec<_>>().join(", ")));
        let mut code_sites = sites(&f.block, &no_env, false, false);
        if guarded && unwraps == 1 {
            if let Some(p) = code_sites.iter().position(|x| x == "unwrap") {
                code_sites.remove(p);
            }
        }
        // modifier prefixes
        let m = free_fn(&file, "extract_modifiers")?;
        let mut prefixes = vec![];
        for a in arms(&m.block) {
            let Some((_, g)) = &a.guard else { continue };
            let syn::Expr::MethodCall(mc) = &**g else { return Err("extract_modifiers: unexpected arm guard".into()) };
            if mc.method != "starts_with" {
                return Err("extract_modifiers: arm guard is not starts_with".into());
            }
            let lit = mc.args.first().and_then(lit_str).ok_or("extract_modifiers: starts_with of a non-literal")?;
            let syn::Expr::Block(bl) = &*a.body else { return Err("extract_modifiers: arm body is not a block".into()) };
            let mut ixf = IndexFinder { found: vec![], lens: 0 };
            ixf.visit_block(&bl.block);
            if ixf.found.len() != 1 || toks(&ixf.found[0].expr) != toks(&mc.receiver) {
                return Err("extract_modifiers: expected one slice of the matched text per arm".into());
            }
            let (lo, hi) = range_bounds(ixf.found[0], &no_env).map_err(|e| format!("extract_modifiers: {e}"))?;
            if hi.is_some() {
                return Err("extract_modifiers: slice with an upper bound".into());
            }
            let body = toks(&a.body);
            let bit = if body.contains("KeyModifiers::CONTROL") { 2 } else if body.contains("KeyModifiers::ALT") { 4 } else if body.contains("KeyModifiers::SHIFT") { 1 } else { return Err("extract_modifiers: unknown modifier".into()) };
            prefixes.push((lit, lo.unwrap_or(0), bit));
        }
        if prefixes.is_empty() {
            return Err("extract_modifiers: no prefix arms".into());
        }
        s.push_str(&format!("def keyModPrefixes : List (List Nat × Nat × Nat) := [{}]\n", prefixes.iter().map(|(l, o, b)| format!("({}, {o}, {b})", lean_bytes(l))).collect::<Vec<_>>().join(", ")));
        s.push_str(&format!("/-- the `chars().next().unwrap()` of the single-character arm is guarded by `c.len() == 1` -/\ndef keyCharUnwrapGuarded : Bool := {}\n", lean_bool(guarded)));
        let e = free_fn(&file, "parse_key_event")?;
        if !toks(&e.block).contains("raw.to_ascii_lowercase()") {
            return Err("parse_key_event: the key string is not ASCII-lower-cased".into());
        }
        sites_def(s, "keyEventSites", &sites(&e.block, &no_env, false, false));
        sites_def(s, "keyModifierSites", &sites(&m.block, &no_env, true, false));
        sites_def(s, "keyCodeSites", &code_sites);
        let q = free_fn(&file, "parse_key_sequence")?;
        sites_def(s, "keySequenceSites", &sites(&q.block, &no_env, false, false));
        // KeyBindings / Styles deserialisers
        let d = impl_fn(&file, "KeyBindings", Some("Deserialize"), "deserialize")?;
        let body = toks(&d.block);
        let checked = flag(&body, &["parse_key_sequence(&key_str)", ".map_err("], &["parse_key_sequence(&key_str).unwrap()"], "KeyBindings::deserialize")?;
        s.push_str(&format!("/-- `KeyBindings::deserialize` maps an unparsable key string to a deserialisation error (no `unwrap`) -/\ndef keyBindingsChecked : Bool := {}\n", lean_bool(checked)));
        sites_def(s, "keyBindingsSites", &sites(&d.block, &no_env, false, false));
        let d = impl_fn(&file, "Styles", Some("Deserialize"), "deserialize")?;
        sites_def(s, "stylesDeserializeSites", &sites(&d.block, &no_env, false, false));
        // parse_style
        let p = free_fn(&file, "parse_style")?;
        let body = toks(&p.block);
        if !body.contains("line.split_at(") {
            return Err("parse_style: no `line.split_at(..)`".into());
        }
        let ascii = flag(&body, &["line.to_ascii_lowercase().find(\"on\")"], &["line.to_lowercase().find(\"on\")"], "parse_style")?;
        s.push_str(&format!("/-- `parse_style` looks for \"on \" in `to_ascii_lowercase()` of the line (byte offsets of the original) -/\ndef styleFindAsciiLower : Bool := {}\n", lean_bool(ascii)));
        // the one `split_at` is modelled (`strSplitAt`: panics past the end or inside a character)
        let mut st = sites(&p.block, &no_env, false, false);
        if method_calls(&p.block, "split_at").len() == 1 {
            if let Some(i) = st.iter().position(|x| x == "split_at") {
                st.remove(i);
            }
        }
        sites_def(s, "parseStyleSites", &st);
        let p = free_fn(&file, "process_color_string")?;
        sites_def(s, "processColorSites", &sites(&p.block, &no_env, false, false));
        // parse_color
        let c = free_fn(&file, "parse_color")?;
        let body = toks(&c.block);
        let gray_checked = flag(&body, &["232u8.checked_add("], &["232+s.trim_start_matches(\"gray\")"], "parse_color (gray)")?;
        let idx_checked = flag(&body, &[".as_bytes().get(i)"], &["s.as_bytes()[3]", "s.as_bytes()[4]", "s.as_bytes()[5]"], "parse_color (rgb digits)")?;
        if idx_checked && body.contains("as_bytes()[") {
            return Err("parse_color: indexing next to get(i)".into());
        }
        let arith_checked = flag(&body, &["16u8.checked_add(red.checked_mul(36)?)?.checked_add(green.checked_mul(6)?)?.checked_add(blue)?"], &["16+red*36+green*6+blue"], "parse_color (rgb arithmetic)")?;
        if idx_checked && !body.contains("(digit(3),digit(4),digit(5))") {
            return Err("parse_color: the rgb digits are not read at 3, 4, 5".into());
        }
        let mut ifs = AllIfs(vec![]);
        ifs.visit_block(&c.block);
        let mut named = vec![];
        for i in &ifs.0 {
            if let syn::Expr::Binary(b) = &*i.cond {
                if matches!(b.op, syn::BinOp::Eq(_)) && toks(&b.left) == "s" {
                    if let Some(l) = lit_str(&b.right) {
                        let t = toks(&i.then_branch);
                        let n = t.strip_prefix("{Some(Color::Indexed(").and_then(|x| x.strip_suffix("))}")).and_then(|x| x.parse::<u32>().ok()).ok_or_else(|| format!("parse_color: unexpected branch for {l:?}"))?;
                        named.push((l, n));
                    }
                }
            }
        }
        if named.is_empty() {
            return Err("parse_color: no named colours".into());
        }
        s.push_str(&format!("/-- `parse_color`: gray base and whether the addition is `checked_add`; rgb digits read with `get(i)`; rgb arithmetic checked; the named colours -/\ndef grayBase : Nat := 232\ndef grayAddChecked : Bool := {}\ndef rgbIndexChecked : Bool := {}\ndef rgbArithChecked : Bool := {}\ndef namedColors : List (List Nat × Nat) := [{}]\n",
            lean_bool(gray_checked), lean_bool(idx_checked), lean_bool(arith_checked), named.iter().map(|(l, n)| format!("({}, {n})", lean_bytes(l))).collect::<Vec<_>>().join(", ")));
        sites_def(s, "parseColorSites", &sites(&c.block, &no_env, true, true));
        let l = impl_fn(&file, "AppData", None, "load")?;
        sites_def(s, "appDataLoadSites", &sites(&l.block, &no_env, false, false));
    }
    // --- ant-bootstrap: ANT_PEERS, contacts
    {
        let rel = "ant-bootstrap/src/initial_peers.rs";
        let file = parse_file(&repo.join(rel))?;
        let f = impl_fn(&file, "PeersArgs", None, "read_bootstrap_addr_from_env")?;
        let sc = split_chars(&f.block, "split");
        if sc.len() != 1 || !toks(&f.block).contains("craft_valid_multiaddr_from_str(addr_str,false)") {
            return Err("read_bootstrap_addr_from_env: expected one split(char) and craft_valid_multiaddr_from_str(addr_str, false)".into());
        }
        s.push_str(&format!("\n/-- {rel} `read_bootstrap_addr_from_env`, contacts.rs `try_parse_response` -/\ndef antPeersSplitChar : Nat := {}\n", sc[0] as u32));
        sites_def(s, "antPeersSites", &sites(&f.block, &no_env, false, false));
        let rel = "ant-bootstrap/src/contacts.rs";
        let file = parse_file(&repo.join(rel))?;
        let f = impl_fn(&file, "ContactsFetcher", None, "try_parse_response")?;
        let sc = split_chars(&f.block, "split");
        let body = toks(&f.block);
        if sc.len() != 1 || !body.contains("craft_valid_multiaddr_from_str(str,ignore_peer_id)") || !body.contains("addresses.get_least_faulty()") {
            return Err("try_parse_response: expected split(char), craft_valid_multiaddr_from_str and get_least_faulty".into());
        }
        s.push_str(&format!("def contactsLineSplitChar : Nat := {}\n", sc[0] as u32));
        sites_def(s, "contactsParseSites", &sites(&f.block, &no_env, false, false));
    }
    // --- evmlib
    {
        let rel = "evmlib/src/utils.rs";
        let file = parse_file(&repo.join(rel))?;
        let f = free_fn(&file, "get_evm_network_from_env")?;
        let env_checked = flag(&toks(&f.block), &["CustomNetwork::try_new(&evm_vars[0],&evm_vars[1],&evm_vars[2])"], &["CustomNetwork::new(&evm_vars[0],&evm_vars[1],&evm_vars[2])"], "get_evm_network_from_env")?;
        let g = free_fn(&file, "local_evm_network_from_csv")?;
        let csv_checked = flag(&toks(&g.block), &["CustomNetwork::try_new(rpc_url,payment_token_address,chunk_payments_address)"], &["CustomNetwork::new(rpc_url,payment_token_address,chunk_payments_address)"], "local_evm_network_from_csv")?;
        let mut parts = None;
        for a in arms(&g.block) {
            if let syn::Pat::Slice(sl) = &a.pat {
                parts = Some(sl.elems.len());
            }
        }
        let parts = parts.ok_or("local_evm_network_from_csv: no slice pattern")?;
        if split_chars(&g.block, "split") != vec![','] {
            return Err("local_evm_network_from_csv: the file is not split on ','".into());
        }
        s.push_str(&format!("\n/-- {rel}: `get_evm_network_from_env` / `local_evm_network_from_csv` build the custom network with the fallible `try_new`; the CSV holds this many comma-separated parts; `Network::new_custom` (lib.rs) goes through the `expect`ing `CustomNetwork::new` -/\ndef evmEnvChecked : Bool := {}\ndef evmCsvChecked : Bool := {}\ndef evmCsvParts : Nat := {parts}\n", lean_bool(env_checked), lean_bool(csv_checked)));
        sites_def(s, "evmEnvSites", &sites(&f.block, &no_env, true, false));
        sites_def(s, "evmCsvSites", &sites(&g.block, &no_env, false, false));
        let rel = "evmlib/src/lib.rs";
        let file = parse_file(&repo.join(rel))?;
        let try_sites = match impl_fn(&file, "CustomNetwork", None, "try_new") {
            Ok(t) => sites(&t.block, &no_env, false, false),
            Err(_) if !env_checked && !csv_checked => vec![],
            Err(e) => return Err(e),
        };
        sites_def(s, "evmTryNewSites", &try_sites);
        let n = impl_fn(&file, "Network", None, "new_custom")?;
        let c = impl_fn(&file, "CustomNetwork", None, "new")?;
        let nb = toks(&n.block);
        let new_custom_checked = if nb.contains("CustomNetwork::new(") {
            let st = sites(&c.block, &no_env, false, false);
            if st.iter().any(|x| x == "expect" || x == "unwrap") { false } else { return Err("Network::new_custom: CustomNetwork::new without expect".into()) }
        } else if nb.contains("CustomNetwork::try_new(") {
            true
        } else {
            return Err("Network::new_custom: unrecognised body".into());
        };
        s.push_str(&format!("def newCustomChecked : Bool := {}\n", lean_bool(new_custom_checked)));
        // the other public door to `CustomNetwork::new`: utils.rs `get_evm_network` (wasm bindings)
        let gfile = parse_file(&repo.join("evmlib/src/utils.rs"))?;
        let g = free_fn(&gfile, "get_evm_network")?;
        let get_checked = flag(&toks(&g.block), &["CustomNetwork::try_new("], &["Network::Custom(CustomNetwork::new(rpc_url,payment_token_address,data_payments_address,))"], "get_evm_network")?;
        s.push_str(&format!("/-- evmlib/src/utils.rs `get_evm_network` goes through the fallible `try_new` (false: through the `expect`ing `CustomNetwork::new`, like `new_custom`) -/\ndef getEvmNetworkChecked : Bool := {}\n", lean_bool(get_checked)));
        sites_def(s, "getEvmNetworkSites", &sites(&g.block, &no_env, false, false));
    }
    // --- nat-detection, ant-metrics
    {
        let rel = "nat-detection/src/main.rs";
        let file = parse_file(&repo.join(rel))?;
        let f = free_fn(&file, "parse_peer_addr")?;
        let body = toks(&f.block);
        if !(body.contains("addr.parse::<std::net::SocketAddrV4>()") && body.contains("addr.parse::<Multiaddr>()")) {
            return Err("parse_peer_addr: expected the SocketAddrV4 and Multiaddr parsers".into());
        }
        s.push_str(&format!("\n/-- {rel} `parse_peer_addr`; ant-metrics/src/main.rs `get_metric_servers` (the URL of a \"Metrics server on\" line is propagated as an error, not `expect`ed; the `expect` left is on `String::from_str`, `type NodeId = String`) -/\n"));
        sites_def(s, "natPeerSites", &sites(&f.block, &no_env, false, false));
        let rel = "ant-metrics/src/main.rs";
        let file = parse_file(&repo.join(rel))?;
        let f = free_fn(&file, "get_metric_servers")?;
        let body = toks(&f.block);
        let url_checked = flag(&body, &["url::Url::parse(&cap[1]).map_err("], &["url::Url::parse(&cap[1]).expect("], "get_metric_servers")?;
        let node_id_is_string = file.items.iter().any(|it| matches!(it, syn::Item::Type(t) if t.ident == "NodeId" && toks(&t.ty) == "String"));
        let mut st = sites(&f.block, &no_env, true, false);
        if node_id_is_string && body.contains("cap[2].parse().expect(") {
            if let Some(p) = st.iter().position(|x| x == "expect") {
                st.remove(p);
            }
        }
        s.push_str(&format!("def metricsUrlChecked : Bool := {}\n", lean_bool(url_checked)));
        sites_def(s, "metricsSites", &st);
    }
    // --- ant-cli access/, commands/wallet.rs
    {
        let rel = "ant-cli/src/access/keys.rs";
        let file = parse_file(&repo.join(rel))?;
        s.push_str(&format!("\n/-- {rel}, access/user_data.rs, commands/wallet.rs `export` (the key read from the wallet file is checked, not `expect`ed) -/\n"));
        let f = free_fn(&file, "get_register_signing_key")?;
        sites_def(s, "regKeySites", &sites(&f.block, &no_env, false, false));
        let f = free_fn(&file, "parse_register_signing_key")?;
        if !toks(&f.block).contains("RegisterSecretKey::from_hex(key_hex)") {
            return Err("parse_register_signing_key: expected RegisterSecretKey::from_hex".into());
        }
        sites_def(s, "regKeyParseSites", &sites(&f.block, &no_env, false, false));
        let rel = "ant-cli/src/access/user_data.rs";
        let file = parse_file(&repo.join(rel))?;
        for (n, def, needs) in [
            ("get_local_registers", "userDataRegistersSites", "RegisterAddress::from_hex(&file_name)?"),
            ("get_local_public_file_archives", "userDataPublicSites", "str_to_addr(&file_name)?"),
            ("get_local_private_file_archives", "userDataPrivateSites", "PrivateArchiveAccess::from_hex(&private_file_archive.secret_access)?"),
            ("get_local_private_archive_access", "userDataPrivateAccessSites", "PrivateArchiveAccess::from_hex(&private_file_archive.secret_access)?"),
        ] {
            let f = free_fn(&file, n)?;
            if !toks(&f.block).contains(needs) {
                return Err(format!("{n}: expected `{needs}`"));
            }
            sites_def(s, def, &sites(&f.block, &no_env, false, false));
        }
        let rel = "ant-cli/src/commands/wallet.rs";
        let file = parse_file(&repo.join(rel))?;
        let f = free_fn(&file, "export")?;
        let body = toks(&f.block);
        let checked = flag(&body, &["select_wallet_private_key()?", "Wallet::new_from_private_key(DUMMY_NETWORK,&wallet_private_key).map_err("], &["Wallet::new_from_private_key(DUMMY_NETWORK,&wallet_private_key).expect("], "wallet export")?;
        s.push_str(&format!("def walletExportKeyChecked : Bool := {}\n", lean_bool(checked)));
        sites_def(s, "walletExportSites", &sites(&f.block, &no_env, false, false));
    }
    // --- AttoTokens::from_str: the one unchecked arithmetic step
    {
        let rel = "ant-evm/src/amount.rs";
        let file = parse_file(&repo.join(rel))?;
        let f = impl_fn(&file, "AttoTokens", Some("FromStr"), "from_str")?;
        let body = toks(&f.block);
        // `let <k> = POWER.checked_sub(<x>.len() as u64).ok_or(LossOfPrecision)?; … <p> * Amount::from(10).pow(Amount::from(<k>))`, whatever the local names
        let marker = "=TOKEN_TO_RAW_POWER_OF_10_CONVERSION.checked_sub(";
        let at = body.find(marker).ok_or("AttoTokens::from_str: no `POWER.checked_sub(..)` guarding the scaling of the remainder")?;
        let k: String = body[..at].chars().rev().take_while(|c| c.is_ascii_alphanumeric() || *c == '_').collect::<String>().chars().rev().collect();
        let k = k.strip_prefix("let").unwrap_or(&k).to_string();
        let after = &body[at + marker.len()..];
        let guard_ok = after.find(".len()asu64).ok_or(EvmError::LossOfPrecision)?;").map(|i| after[..i].chars().all(|c| c.is_ascii_alphanumeric() || c == '_')).unwrap_or(false);
        if k.is_empty() || !guard_ok || !body.contains(&format!("*Amount::from(10).pow(Amount::from({k}))")) {
            return Err("AttoTokens::from_str: the scaling of the remainder is not the recognised `checked_sub(len)?` + `* 10.pow(k)` shape".into());
        }
        let guarded = true;
        let mut st = sites(&f.block, &no_env, false, false);
        if guarded {
            // that product (one `*`, one `pow`) is modelled (`attoScale`): evaluated with overflow detection
            for k in ["arith:*", "pow"] {
                if let Some(p) = st.iter().position(|x| x == k) {
                    st.remove(p);
                }
            }
        }
        s.push_str(&format!("\n/-- {rel} `AttoTokens::from_str`: the unchecked `parsed_remainder * 10.pow(k)` (ruint's `*` and `pow` wrap silently) comes after `k = POWER.checked_sub(remainder_str.len())?`; panic sites other than that product -/\ndef attoRemainderScaleGuarded : Bool := {}\n", lean_bool(guarded)));
        sites_def(s, "attoFromStrSites", &st);
    }
    // --- autonomi relative path helper, MessagePack decoders
    {
        let rel = "autonomi/src/client/files/mod.rs";
        let file = parse_file(&repo.join(rel))?;
        let f = free_fn(&file, "get_relative_file_path_from_abs_file_and_folder_path")?;
        let body = toks(&f.block);
        let checked = flag(&body, &[".file_name().map(PathBuf::from).unwrap_or_else("], &[".file_name().expect("], "get_relative_file_path_from_abs_file_and_folder_path")?;
        if !body.contains(".strip_prefix(folder_prefix).expect(") {
            return Err("get_relative_file_path_from_abs_file_and_folder_path: expected strip_prefix(folder_prefix).expect(..)".into());
        }
        s.push_str(&format!("\n/-- {rel} `get_relative_file_path_from_abs_file_and_folder_path`: the folder's `file_name()` is only needed for a single file and is not `expect`ed; the remaining `expect` is on `strip_prefix` of a path found by walking the folder -/\ndef relPathFileNameChecked : Bool := {}\n", lean_bool(checked)));
        sites_def(s, "relPathSites", &sites(&f.block, &no_env, false, false));
        s.push_str("\n/-- autonomi `UserData` / `PublicArchive` / `PrivateArchive::from_bytes`, ant-node `NodeEvent::from_bytes`: the `rmp_serde` call only (`&data[..]` is the full range) -/\n");
        for (rel, ty, def) in [
            ("autonomi/src/client/vault/user_data.rs", "UserData", "userDataFromBytesSites"),
            ("autonomi/src/client/files/archive_public.rs", "PublicArchive", "publicArchiveFromBytesSites"),
            ("autonomi/src/client/files/archive.rs", "PrivateArchive", "privateArchiveFromBytesSites"),
            ("ant-node/src/event.rs", "NodeEvent", "nodeEventFromBytesSites"),
        ] {
            let file = parse_file(&repo.join(rel))?;
            let f = impl_fn(&file, ty, None, "from_bytes")?;
            if !toks(&f.block).contains("rmp_serde::from_slice(") {
                return Err(format!("{ty}::from_bytes: expected rmp_serde::from_slice"));
            }
            let full_only = partial_indexes(&f.block) == 0;
            sites_def(s, def, &sites(&f.block, &no_env, full_only, false));
        }
    }
    Ok(())
}
