//! C20: argument builders (install / upgrade), the install→registry copy in `add_node`, the
//! `UpgradeOptions` literal of `antctl upgrade`, and the clap surface of antnode.
//! Everything is read with `syn` from the working tree; any shape outside the closed list below is an error
//! (`UNTRANSLATABLE`). Output: `lean/SafeNet/Gen/Upgrade.lean`.
use crate::upgrade_clap as uc;
use crate::util::*;
use ::quote::ToTokens;
use std::collections::HashMap;
use std::path::PathBuf;

// ---------- small IR ----------
#[derive(Clone, Copy, Debug, PartialEq)]
pub enum Fold {
    Lower,
    AsciiLower,
}
#[derive(Clone, Debug, PartialEq)]
pub enum Src {
    Var(Vec<String>),
    Const(String),
    /// folds applied innermost-first to the variable
    Folded(Vec<String>, Vec<Fold>),
}
#[derive(Clone, Copy, Debug, PartialEq)]
pub enum Render {
    Display,
    Lossy,
    AsStr,
    JoinComma,
}
#[derive(Clone, Debug)]
pub enum Guard {
    Always,
    IsTrue(Vec<String>),
    IsSome(Vec<String>),
    NonEmpty(Vec<String>),
    EvmCustom(Vec<String>),
}
#[derive(Clone, Debug)]
pub struct Entry {
    pub guard: Guard,
    pub flag: Option<String>,
    pub value: Option<(Vec<String>, Vec<Fold>, Render)>,
}

pub fn toks<T: ToTokens>(t: &T) -> String {
    t.to_token_stream().to_string()
}
fn compact<T: ToTokens>(t: &T) -> String {
    toks(t).replace(' ', "")
}

pub fn lean_str(s: &str) -> String {
    let mut o = String::from("\"");
    for c in s.chars() {
        match c {
            '"' => o.push_str("\\\""),
            '\\' => o.push_str("\\\\"),
            '\n' => o.push_str("\\n"),
            c => o.push(c),
        }
    }
    o.push('"');
    o
}
fn lean_path(p: &[String]) -> String {
    format!("[{}]", p.iter().map(|s| lean_str(s)).collect::<Vec<_>>().join(", "))
}
fn lean_folded(p: &[String], folds: &[Fold]) -> String {
    let mut s = format!(".var {}", lean_path(p));
    for f in folds {
        s = format!(".fold {} ({s})", match f { Fold::Lower => ".lower", Fold::AsciiLower => ".asciiLower" });
    }
    s
}
fn lean_src(s: &Src) -> String {
    match s {
        Src::Var(p) => format!(".var {}", lean_path(p)),
        Src::Const(t) => format!(".const {}", lean_str(t)),
        Src::Folded(p, f) => lean_folded(p, f),
    }
}
fn lean_render(r: Render) -> &'static str {
    match r {
        Render::Display => ".display",
        Render::Lossy => ".lossy",
        Render::AsStr => ".asStr",
        Render::JoinComma => ".joinComma",
    }
}
fn lean_entry(e: &Entry) -> String {
    let g = match &e.guard {
        Guard::Always => ".always".to_string(),
        Guard::IsTrue(p) => format!(".isTrue (.var {})", lean_path(p)),
        Guard::IsSome(p) => format!(".isSome (.var {})", lean_path(p)),
        Guard::NonEmpty(p) => format!(".nonEmpty (.var {})", lean_path(p)),
        Guard::EvmCustom(p) => format!(".evmCustom (.var {})", lean_path(p)),
    };
    let f = match &e.flag {
        Some(f) => format!("some {}", lean_str(f)),
        None => "none".into(),
    };
    let v = match &e.value {
        Some((p, f, r)) => format!("some ({}, {})", lean_folded(p, f), lean_render(*r)),
        None => "none".into(),
    };
    format!("⟨{g}, {f}, {v}⟩")
}

// ---------- path extraction ----------
/// `a.b.c`, `&a.b`, `(a)`, `a.b.clone()`, `a.to_path_buf()` → ["a","b","c"]
fn raw_path(e: &syn::Expr) -> Result<Vec<String>, String> {
    match e {
        syn::Expr::Path(p) if p.path.segments.len() == 1 => Ok(vec![p.path.segments[0].ident.to_string()]),
        syn::Expr::Field(f) => {
            let mut b = raw_path(&f.base)?;
            match &f.member {
                syn::Member::Named(i) => b.push(i.to_string()),
                syn::Member::Unnamed(i) => b.push(i.index.to_string()),
            }
            Ok(b)
        }
        syn::Expr::Reference(r) => raw_path(&r.expr),
        syn::Expr::Paren(p) => raw_path(&p.expr),
        syn::Expr::Group(p) => raw_path(&p.expr),
        syn::Expr::MethodCall(m) if m.args.is_empty() && (m.method == "clone" || m.method == "to_path_buf") => raw_path(&m.receiver),
        _ => Err(format!("not a field path: `{}`", toks(e))),
    }
}

/// Name resolution context of one builder function.
#[derive(Clone)]
struct Ctx {
    /// (prefix of the raw path, replacement), longest prefix wins
    roots: Vec<(Vec<String>, Vec<String>)>,
    /// local variables bound by `if let` / `let`: name → (field path, render already applied)
    locals: HashMap<String, (Vec<String>, Vec<Fold>, Option<Render>)>,
    /// parameters of an inlined helper that were given a string literal
    lits: HashMap<String, String>,
    what: String,
}

impl Ctx {
    fn resolve(&self, raw: &[String]) -> Result<(Vec<String>, Option<Render>), String> {
        let (p, f, r) = self.resolve3(raw)?;
        if !f.is_empty() {
            return Err(format!("{}: `{}` is a case-folded local used where a plain field is expected", self.what, raw.join(".")));
        }
        Ok((p, r))
    }

    fn resolve3(&self, raw: &[String]) -> Result<(Vec<String>, Vec<Fold>, Option<Render>), String> {
        if let Some((p, f, r)) = self.locals.get(&raw[0]) {
            let mut q = p.clone();
            q.extend_from_slice(&raw[1..]);
            if raw.len() > 1 && (r.is_some() || !f.is_empty()) {
                return Err(format!("{}: field access on rendered local `{}`", self.what, raw.join(".")));
            }
            return Ok((q, f.clone(), *r));
        }
        let mut best: Option<&(Vec<String>, Vec<String>)> = None;
        for r in &self.roots {
            if raw.len() >= r.0.len() && raw[..r.0.len()] == r.0[..] && best.map_or(true, |b| b.0.len() < r.0.len()) {
                best = Some(r);
            }
        }
        match best {
            Some((pre, rep)) => {
                let mut q = rep.clone();
                q.extend_from_slice(&raw[pre.len()..]);
                if q.is_empty() {
                    return Err(format!("{}: bare root `{}` used as a value", self.what, raw.join(".")));
                }
                Ok((q, vec![], None))
            }
            None => Err(format!("{}: unknown variable `{}`", self.what, raw.join("."))),
        }
    }

    /// the expression inside `OsString::from( … )` or on the right of a `let`:
    /// (field, case foldings applied innermost first, final rendering)
    fn value(&self, e: &syn::Expr) -> Result<(Vec<String>, Vec<Fold>, Render), String> {
        match e {
            syn::Expr::Reference(r) => self.value(&r.expr),
            syn::Expr::Paren(p) => self.value(&p.expr),
            syn::Expr::MethodCall(m) => {
                let name = m.method.to_string();
                match (name.as_str(), m.args.len()) {
                    ("to_string", 0) | ("to_owned", 0) | ("display", 0) => {
                        if let syn::Expr::MethodCall(inner) = &*m.receiver {
                            if inner.method == "to_string_lossy" && inner.args.is_empty() {
                                let (p, f, r) = self.resolve3(&raw_path(&inner.receiver)?)?;
                                if r.is_some() || !f.is_empty() {
                                    return Err(format!("{}: render of a rendered local", self.what));
                                }
                                return Ok((p, vec![], Render::Lossy));
                            }
                            if inner.method != "clone" && inner.method != "to_path_buf" {
                                // `.to_string()` of an already rendered string is the identity
                                return self.value(&m.receiver);
                            }
                        }
                        let (p, f, r) = self.resolve3(&raw_path(&m.receiver)?)?;
                        Ok((p, f, r.unwrap_or(Render::Display)))
                    }
                    ("to_lowercase", 0) | ("to_ascii_lowercase", 0) => {
                        let (p, mut f, r) = self.value(&m.receiver)?;
                        if r == Render::JoinComma {
                            return Err(format!("{}: case folding of a joined list", self.what));
                        }
                        f.push(if name == "to_lowercase" { Fold::Lower } else { Fold::AsciiLower });
                        Ok((p, f, r))
                    }
                    ("as_str", 0) => {
                        let (p, f, r) = self.resolve3(&raw_path(&m.receiver)?)?;
                        if r.is_some() {
                            return Err(format!("{}: render of a rendered local", self.what));
                        }
                        // `.as_str()` on a String local is the identity; on a field it is the type's own `as_str`
                        if f.is_empty() && !self.locals.contains_key(&raw_path(&m.receiver)?[0]) {
                            Ok((p, f, Render::AsStr))
                        } else {
                            Ok((p, f, Render::AsStr))
                        }
                    }
                    ("join", 1) => {
                        if compact(&m.args[0]) != "\",\"" {
                            return Err(format!("{}: join with separator {} (only \",\" is handled)", self.what, toks(&m.args[0])));
                        }
                        // X.iter().map(|v| v.to_string()).collect::<Vec<_>>()
                        let collect = match &*m.receiver {
                            syn::Expr::MethodCall(c) if c.method == "collect" && c.args.is_empty() => c,
                            o => return Err(format!("{}: join on `{}`", self.what, toks(o))),
                        };
                        let map = match &*collect.receiver {
                            syn::Expr::MethodCall(c) if c.method == "map" && c.args.len() == 1 => c,
                            o => return Err(format!("{}: collect on `{}`", self.what, toks(o))),
                        };
                        match &map.args[0] {
                            syn::Expr::Closure(cl) if cl.inputs.len() == 1 => {
                                let param = compact(&cl.inputs[0]);
                                if compact(&cl.body) != format!("{param}.to_string()") {
                                    return Err(format!("{}: list element rendered by `{}` (only `.to_string()` is handled)", self.what, toks(&cl.body)));
                                }
                            }
                            o => return Err(format!("{}: map argument `{}`", self.what, toks(o))),
                        }
                        let iter = match &*map.receiver {
                            syn::Expr::MethodCall(c) if c.method == "iter" && c.args.is_empty() => c,
                            o => return Err(format!("{}: map on `{}`", self.what, toks(o))),
                        };
                        let (p, r) = self.resolve(&raw_path(&iter.receiver)?)?;
                        if r.is_some() {
                            return Err(format!("{}: join of a rendered local", self.what));
                        }
                        Ok((p, vec![], Render::JoinComma))
                    }
                    ("clone", 0) | ("to_path_buf", 0) => self.value(&m.receiver),
                    _ => Err(format!("{}: value rendered by unknown method `.{}()` in `{}`", self.what, name, toks(e))),
                }
            }
            _ => {
                let (p, f, r) = self.resolve3(&raw_path(e).map_err(|m| format!("{}: {m}", self.what))?)?;
                Ok((p, f, r.unwrap_or(Render::Display)))
            }
        }
    }
}

// ---------- the argument-table walker ----------
struct Walk<'a> {
    entries: Vec<Entry>,
    pending: Option<(Guard, String)>,
    label_src: Option<Vec<String>>,
    ctx_fields: Vec<(String, Src)>,
    /// files whose free functions may be inlined when they are handed the argument vector
    files: Vec<&'a syn::File>,
    depth: usize,
    args_var: String,
}

/// `OsString::from(E)`, `E.into()`, `OsString::from(E).into()` → E
fn os_from_arg(e: &syn::Expr) -> Option<&syn::Expr> {
    match e {
        syn::Expr::Call(c) if compact(&c.func) == "OsString::from" && c.args.len() == 1 => Some(&c.args[0]),
        syn::Expr::MethodCall(m) if m.method == "into" && m.args.is_empty() => Some(os_from_arg(&m.receiver).unwrap_or(&m.receiver)),
        _ => None,
    }
}

impl<'a> Walk<'a> {
    /// a free function (any visibility) of the known files, called with the argument vector among its arguments
    fn helper_fn(&self, func: &syn::Expr, args: &syn::punctuated::Punctuated<syn::Expr, syn::Token![,]>) -> Option<&'a syn::ItemFn> {
        let name = match func {
            syn::Expr::Path(p) => p.path.segments.last()?.ident.to_string(),
            _ => return None,
        };
        if !args.iter().any(|a| {
            let c = compact(a);
            c == self.args_var || c == format!("&mut{}", self.args_var)
        }) {
            return None;
        }
        for file in &self.files {
            if let Ok(f) = free_fn(file, &name) {
                return Some(f);
            }
        }
        None
    }

    fn flush(&mut self) {
        if let Some((g, f)) = self.pending.take() {
            self.entries.push(Entry { guard: g, flag: Some(f), value: None });
        }
    }

    fn push(&mut self, e: &syn::Expr, guard: &Guard, cx: &Ctx) -> Result<(), String> {
        let inner = os_from_arg(e).ok_or_else(|| format!("{}: pushed `{}` is not OsString::from(..)", cx.what, toks(e)))?;
        let lit_param = match inner {
            syn::Expr::Path(p) if p.path.segments.len() == 1 => cx.lits.get(&p.path.segments[0].ident.to_string()).cloned(),
            _ => None,
        };
        if let Some(v) = lit_param {
            let name = v.strip_prefix("--").ok_or_else(|| format!("{}: literal argument {v:?} is not a long option", cx.what))?;
            if name.is_empty() || name.starts_with('-') || name.contains('=') || name.contains(' ') {
                return Err(format!("{}: literal argument {v:?} is not a plain long option", cx.what));
            }
            self.flush();
            self.pending = Some((guard.clone(), name.to_string()));
            return Ok(());
        }
        if let syn::Expr::Lit(l) = inner {
            if let syn::Lit::Str(s) = &l.lit {
                let v = s.value();
                let name = v.strip_prefix("--").ok_or_else(|| format!("{}: literal argument {v:?} is not a long option", cx.what))?;
                if name.is_empty() || name.starts_with('-') || name.contains('=') || name.contains(' ') {
                    return Err(format!("{}: literal argument {v:?} is not a plain long option", cx.what));
                }
                self.flush();
                self.pending = Some((guard.clone(), name.to_string()));
                return Ok(());
            }
            return Err(format!("{}: non-string literal argument `{}`", cx.what, toks(inner)));
        }
        let val = cx.value(inner)?;
        match self.pending.take() {
            Some((g, f)) => self.entries.push(Entry { guard: g, flag: Some(f), value: Some(val) }),
            None => self.entries.push(Entry { guard: guard.clone(), flag: None, value: Some(val) }),
        }
        Ok(())
    }

    fn block(&mut self, stmts: &[syn::Stmt], guard: &Guard, cx: &Ctx, top: bool) -> Result<(), String> {
        let mut cx = cx.clone();
        for st in stmts {
            // `#[cfg(..)] args.push(..)` is NOT an unconditional push: any attribute other than a doc comment on a
            // statement of an argument builder is a shape this translator does not read
            if let Some(a) = stmt_non_doc_attr(st) {
                return Err(format!("{}: attribute `{a}` on a builder statement", cx.what));
            }
            match st {
                syn::Stmt::Local(l) => {
                    let init = l.init.as_ref().ok_or_else(|| format!("{}: let without initialiser", cx.what))?;
                    if init.diverge.is_some() {
                        return Err(format!("{}: let-else", cx.what));
                    }
                    let (name, _ty) = match &l.pat {
                        syn::Pat::Ident(i) => (i.ident.to_string(), None),
                        syn::Pat::Type(t) => match &*t.pat {
                            syn::Pat::Ident(i) => (i.ident.to_string(), Some(toks(&t.ty))),
                            o => return Err(format!("{}: let pattern `{}`", cx.what, toks(o))),
                        },
                        o => return Err(format!("{}: let pattern `{}`", cx.what, toks(o))),
                    };
                    // let label: ServiceLabel = <path>.parse()?;
                    if name == "label" {
                        let e = match &*init.expr {
                            syn::Expr::Try(t) => &*t.expr,
                            o => o,
                        };
                        match e {
                            syn::Expr::MethodCall(m) if m.method == "parse" => {
                                let (p, _) = cx.resolve(&raw_path(&m.receiver)?)?;
                                self.label_src = Some(p);
                            }
                            o => return Err(format!("{}: label computed by `{}`", cx.what, toks(o))),
                        }
                        continue;
                    }
                    // let mut args = vec![ … ];
                    if let syn::Expr::Macro(m) = &*init.expr {
                        if m.mac.path.is_ident("vec") && top {
                            self.args_var = name;
                            let elems = m
                                .mac
                                .parse_body_with(syn::punctuated::Punctuated::<syn::Expr, syn::Token![,]>::parse_terminated)
                                .map_err(|e| format!("{}: vec! body: {e}", cx.what))?;
                            for e in elems.iter() {
                                self.push(e, guard, &cx)?;
                            }
                            self.flush();
                            continue;
                        }
                    }
                    // let peers_str = <value expression>;
                    let v = cx.value(&init.expr)?;
                    cx.locals.insert(name, (v.0, v.1, Some(v.2)));
                }
                syn::Stmt::Expr(e, _) => self.stmt_expr(e, guard, &cx, top)?,
                syn::Stmt::Macro(m) => {
                    let n = m.mac.path.segments.last().map(|s| s.ident.to_string()).unwrap_or_default();
                    if !["debug", "trace", "info", "warn", "error"].contains(&n.as_str()) {
                        return Err(format!("{}: macro statement `{n}!`", cx.what));
                    }
                }
                syn::Stmt::Item(_) => return Err(format!("{}: nested item", cx.what)),
            }
        }
        self.flush();
        Ok(())
    }

    fn stmt_expr(&mut self, e: &syn::Expr, guard: &Guard, cx: &Ctx, top: bool) -> Result<(), String> {
        match e {
            // args.push(OsString::from(..))
            syn::Expr::MethodCall(m) if m.method == "push" && m.args.len() == 1 && compact(&m.receiver) == self.args_var => self.push(&m.args[0], guard, cx),
            // helper(.., &mut args, ..): a free function of the same crate files that is handed the argument
            // vector is inlined, its parameters bound to what the call passes
            syn::Expr::Call(c) if self.helper_fn(&c.func, &c.args).is_some() => {
                let f = self.helper_fn(&c.func, &c.args).unwrap();
                let fname = f.sig.ident.to_string();
                if self.depth >= 3 {
                    return Err(format!("{}: helper calls nested too deeply at `{fname}`", cx.what));
                }
                self.flush();
                let mut names = vec![];
                for a in &f.sig.inputs {
                    match a {
                        syn::FnArg::Typed(t) => names.push(compact(&t.pat).trim_start_matches("mut").to_string()),
                        _ => return Err(format!("{fname}: method receiver in a helper")),
                    }
                }
                if names.len() != c.args.len() {
                    return Err(format!("{fname}: parameter count"));
                }
                let mut sub = Ctx { roots: vec![], locals: HashMap::new(), lits: HashMap::new(), what: fname.clone() };
                let mut new_args = None;
                for (pn, a) in names.iter().zip(c.args.iter()) {
                    let ac = compact(a);
                    if ac == self.args_var || ac == format!("&mut{}", self.args_var) {
                        new_args = Some(pn.clone());
                        continue;
                    }
                    let inner = match a {
                        syn::Expr::Reference(r) => &*r.expr,
                        o => o,
                    };
                    if let syn::Expr::Lit(l) = inner {
                        if let syn::Lit::Str(sl) = &l.lit {
                            sub.lits.insert(pn.clone(), sl.value());
                            continue;
                        }
                        return Err(format!("{fname}: non-string literal argument `{}`", toks(a)));
                    }
                    if let Ok(raw) = raw_path(a) {
                        if let Some(v) = cx.lits.get(&raw[0]) {
                            if raw.len() == 1 {
                                sub.lits.insert(pn.clone(), v.clone());
                                continue;
                            }
                        }
                        let (p, fo, r) = cx.resolve3(&raw)?;
                        if fo.is_empty() && r.is_none() {
                            sub.roots.push((vec![pn.clone()], p));
                        } else {
                            sub.locals.insert(pn.clone(), (p, fo, r));
                        }
                        continue;
                    }
                    let (p, fo, r) = cx.value(a)?;
                    sub.locals.insert(pn.clone(), (p, fo, Some(r)));
                }
                let new_args = new_args.ok_or_else(|| format!("{fname}: is not handed the argument vector"))?;
                let saved = std::mem::replace(&mut self.args_var, new_args);
                self.depth += 1;
                let r = self.block(&f.block.stmts, guard, &sub, false);
                self.depth -= 1;
                self.args_var = saved;
                r
            }
            syn::Expr::If(i) => {
                self.flush();
                if i.else_branch.is_some() {
                    return Err(format!("{}: `if … else` around argument pushes (`{}`)", cx.what, toks(&i.cond)));
                }
                if !matches!(guard, Guard::Always) {
                    return Err(format!("{}: nested guard `{}`", cx.what, toks(&i.cond)));
                }
                let mut inner = cx.clone();
                let g = match &*i.cond {
                    syn::Expr::Let(l) => {
                        let (p, r) = cx.resolve(&raw_path(&l.expr)?)?;
                        if r.is_some() {
                            return Err(format!("{}: if-let on a rendered local", cx.what));
                        }
                        match &*l.pat {
                            syn::Pat::TupleStruct(ts) if ts.elems.len() == 1 => {
                                let ctor = compact(&ts.path);
                                let var = match &ts.elems[0] {
                                    syn::Pat::Ident(pi) => pi.ident.to_string(),
                                    o => return Err(format!("{}: if-let binding `{}`", cx.what, toks(o))),
                                };
                                inner.locals.insert(var, (p.clone(), vec![], None));
                                if ctor == "Some" {
                                    Guard::IsSome(p)
                                } else if ctor == "EvmNetwork::Custom" {
                                    Guard::EvmCustom(p)
                                } else {
                                    return Err(format!("{}: if-let pattern `{ctor}(..)`", cx.what));
                                }
                            }
                            o => return Err(format!("{}: if-let pattern `{}`", cx.what, toks(o))),
                        }
                    }
                    syn::Expr::Unary(u) if matches!(u.op, syn::UnOp::Not(_)) => match &*u.expr {
                        syn::Expr::MethodCall(m) if m.method == "is_empty" && m.args.is_empty() => {
                            let (p, _) = cx.resolve(&raw_path(&m.receiver)?)?;
                            Guard::NonEmpty(p)
                        }
                        o => return Err(format!("{}: guard `!{}`", cx.what, toks(o))),
                    },
                    c => {
                        let (p, r) = cx.resolve(&raw_path(c).map_err(|m| format!("{}: guard {m}", cx.what))?)?;
                        if r.is_some() {
                            return Err(format!("{}: guard on a rendered local", cx.what));
                        }
                        Guard::IsTrue(p)
                    }
                };
                self.block(&i.then_branch.stmts, &g, &inner, false)
            }
            // Ok(ServiceInstallCtx { .. })
            syn::Expr::Call(c) if compact(&c.func) == "Ok" && c.args.len() == 1 && top => {
                self.flush();
                let st = match &c.args[0] {
                    syn::Expr::Struct(s) if s.path.segments.last().map(|x| x.ident == "ServiceInstallCtx").unwrap_or(false) => s,
                    o => return Err(format!("{}: returns `{}`", cx.what, toks(o))),
                };
                if st.rest.is_some() {
                    return Err(format!("{}: ServiceInstallCtx literal with `..`", cx.what));
                }
                for f in &st.fields {
                    let name = match &f.member {
                        syn::Member::Named(i) => i.to_string(),
                        _ => return Err("tuple field".into()),
                    };
                    if name == "args" {
                        if compact(&f.expr) != self.args_var {
                            return Err(format!("{}: args field is `{}`", cx.what, toks(&f.expr)));
                        }
                        continue;
                    }
                    let src = match raw_path(&f.expr) {
                        Ok(raw) if raw == ["label"] => Src::Var(self.label_src.clone().ok_or("label used before definition")?),
                        Ok(raw) if raw == ["None"] => Src::Const("None".into()),
                        Ok(raw) => Src::Var(cx.resolve(&raw)?.0),
                        Err(_) => Src::Const(compact(&f.expr)),
                    };
                    self.ctx_fields.push((name, src));
                }
                Ok(())
            }
            o => Err(format!("{}: unexpected statement `{}`", cx.what, toks(o).chars().take(120).collect::<String>())),
        }
    }
}

/// first attribute of a statement (or of its expression) that is not a doc comment
fn stmt_non_doc_attr(st: &syn::Stmt) -> Option<String> {
    fn pick(attrs: &[syn::Attribute]) -> Option<String> {
        attrs.iter().find(|a| !a.path().is_ident("doc")).map(|a| toks(a))
    }
    fn of_expr(e: &syn::Expr) -> Option<String> {
        match e {
            syn::Expr::MethodCall(x) => pick(&x.attrs),
            syn::Expr::Call(x) => pick(&x.attrs),
            syn::Expr::If(x) => pick(&x.attrs),
            syn::Expr::Block(x) => pick(&x.attrs),
            syn::Expr::Macro(x) => pick(&x.attrs),
            syn::Expr::Assign(x) => pick(&x.attrs),
            syn::Expr::Match(x) => pick(&x.attrs),
            syn::Expr::Return(x) => pick(&x.attrs),
            syn::Expr::Try(x) => pick(&x.attrs),
            syn::Expr::Paren(x) => pick(&x.attrs),
            syn::Expr::ForLoop(x) => pick(&x.attrs),
            syn::Expr::While(x) => pick(&x.attrs),
            syn::Expr::Unsafe(x) => pick(&x.attrs),
            _ => None,
        }
    }
    match st {
        syn::Stmt::Local(l) => pick(&l.attrs).or_else(|| l.init.as_ref().and_then(|i| of_expr(&i.expr))),
        syn::Stmt::Expr(e, _) => of_expr(e),
        syn::Stmt::Macro(m) => pick(&m.attrs),
        syn::Stmt::Item(_) => None,
    }
}

fn table_of<'a>(f: &syn::ImplItemFn, roots: Vec<(Vec<String>, Vec<String>)>, files: Vec<&'a syn::File>, what: &str) -> Result<(Vec<Entry>, Vec<(String, Src)>), String> {
    let mut w = Walk { entries: vec![], pending: None, label_src: None, ctx_fields: vec![], files, depth: 0, args_var: "args".into() };
    let cx = Ctx { roots, locals: HashMap::new(), lits: HashMap::new(), what: what.to_string() };
    w.block(&f.block.stmts, &Guard::Always, &cx, true)?;
    if w.ctx_fields.is_empty() {
        return Err(format!("{what}: no `Ok(ServiceInstallCtx {{ .. }})` found"));
    }
    Ok((w.entries, w.ctx_fields))
}

// ---------- struct literals ----------
struct FindStruct<'a> {
    name: &'a str,
    found: Vec<syn::ExprStruct>,
}
impl<'ast, 'a> syn::visit::Visit<'ast> for FindStruct<'a> {
    fn visit_expr_struct(&mut self, s: &'ast syn::ExprStruct) {
        if s.path.segments.last().map(|x| x.ident == self.name).unwrap_or(false) {
            self.found.push(s.clone());
        }
        syn::visit::visit_expr_struct(self, s);
    }
}

/// `<x>.install(a, b)` / `.uninstall(a, b)` method calls on a receiver whose name contains `service_control`: their argument lists
fn service_control_calls(block: &syn::Block, method: &str) -> Vec<Vec<syn::Expr>> {
    struct V<'a> {
        method: &'a str,
        out: Vec<Vec<syn::Expr>>,
    }
    impl<'ast, 'a> syn::visit::Visit<'ast> for V<'a> {
        fn visit_expr_method_call(&mut self, m: &'ast syn::ExprMethodCall) {
            if m.method == self.method && compact(&m.receiver).contains("service_control") {
                self.out.push(m.args.iter().cloned().collect());
            }
            syn::visit::visit_expr_method_call(self, m);
        }
    }
    let mut v = V { method, out: vec![] };
    syn::visit::Visit::visit_block(&mut v, block);
    v.out
}

/// counts struct literals of one name, skipping `#[cfg(test)]` modules
struct FindStructOutsideTests<'a> {
    name: &'a str,
    found: usize,
}
impl<'ast, 'a> syn::visit::Visit<'ast> for FindStructOutsideTests<'a> {
    fn visit_item_mod(&mut self, m: &'ast syn::ItemMod) {
        if m.attrs.iter().any(|a| compact(a).contains("cfg(test)")) {
            return;
        }
        syn::visit::visit_item_mod(self, m);
    }
    fn visit_expr_struct(&mut self, s: &'ast syn::ExprStruct) {
        if s.path.segments.last().map(|x| x.ident == self.name).unwrap_or(false) {
            self.found += 1;
        }
        syn::visit::visit_expr_struct(self, s);
    }
}

// ---------- locals of add_node, named by what they are bound to (not by their identifier) ----------
/// `let` bindings of a function body: top-level statements and the top-level statements of its loops.
fn collect_lets(stmts: &[syn::Stmt], out: &mut Vec<(String, syn::Expr)>) {
    for st in stmts {
        match st {
            syn::Stmt::Local(l) => {
                let pat = match &l.pat {
                    syn::Pat::Type(t) => &*t.pat,
                    p => p,
                };
                if let (syn::Pat::Ident(i), Some(init)) = (pat, &l.init) {
                    out.push((i.ident.to_string(), (*init.expr).clone()));
                }
            }
            syn::Stmt::Expr(syn::Expr::While(w), _) => collect_lets(&w.body.stmts, out),
            syn::Stmt::Expr(syn::Expr::ForLoop(w), _) => collect_lets(&w.body.stmts, out),
            syn::Stmt::Expr(syn::Expr::Loop(w), _) => collect_lets(&w.body.stmts, out),
            _ => {}
        }
    }
}

fn strip(e: &syn::Expr) -> &syn::Expr {
    match e {
        syn::Expr::Reference(r) => strip(&r.expr),
        syn::Expr::Paren(p) => strip(&p.expr),
        syn::Expr::Group(p) => strip(&p.expr),
        syn::Expr::Try(t) => strip(&t.expr),
        o => o,
    }
}

/// receiver at the bottom of a chain of `.join(..)` / `.clone()` calls, if the chain has at least one join
fn join_chain_root(e: &syn::Expr) -> Option<&syn::Expr> {
    let mut cur = strip(e);
    let mut joins = 0;
    loop {
        match cur {
            syn::Expr::MethodCall(m) if m.method == "join" && m.args.len() == 1 => {
                joins += 1;
                cur = strip(&m.receiver);
            }
            syn::Expr::MethodCall(m) if (m.method == "clone" || m.method == "to_path_buf") && m.args.is_empty() => cur = strip(&m.receiver),
            _ => break,
        }
    }
    if joins > 0 { Some(cur) } else { None }
}

/// value expressions of the branches of an `if .. else if .. else ..`
fn branch_tails<'e>(e: &'e syn::Expr, out: &mut Vec<&'e syn::Expr>) -> bool {
    match strip(e) {
        syn::Expr::If(i) => {
            match i.then_branch.stmts.last() {
                Some(syn::Stmt::Expr(t, None)) => {
                    if !branch_tails(t, out) {
                        return false;
                    }
                }
                _ => return false,
            }
            match &i.else_branch {
                Some((_, e)) => branch_tails(e, out),
                None => false,
            }
        }
        syn::Expr::Block(b) => match b.block.stmts.last() {
            Some(syn::Stmt::Expr(t, None)) => branch_tails(t, out),
            _ => false,
        },
        o => {
            out.push(o);
            true
        }
    }
}

struct Roles {
    lets: Vec<(String, syn::Expr)>,
}

impl Roles {
    /// canonical name of a local of `add_node`, decided by the expression it is bound to
    fn role(&self, ident: &str, depth: usize) -> Result<String, String> {
        if depth > 4 {
            return Err(format!("add_node: binding chain of `{ident}` is too deep"));
        }
        let defs: Vec<&syn::Expr> = self.lets.iter().filter(|(n, _)| n == ident).map(|(_, e)| e).collect();
        if defs.len() != 1 {
            return Err(format!("add_node: local `{ident}` has {} `let` bindings (need exactly one to know what it is)", defs.len()));
        }
        let e = strip(defs[0]);
        let c = compact(e);
        match e {
            syn::Expr::Macro(m) if m.mac.path.is_ident("format") && m.mac.tokens.to_string().replace(' ', "").starts_with("\"antnode{") => return Ok("service_name".into()),
            syn::Expr::Call(call) if compact(&call.func).ends_with("get_start_port_if_applicable") && call.args.len() == 1 => {
                let raw = raw_path(&call.args[0])?;
                if raw.len() == 2 && raw[0] == "options" {
                    return Ok(if raw[1] == "node_port" { "node_port".into() } else { format!("{}_start", raw[1]) });
                }
            }
            syn::Expr::Match(m) => {
                if let Ok(raw) = raw_path(&m.expr) {
                    if raw == ["options", "owner"] {
                        return Ok("owner".into());
                    }
                }
            }
            syn::Expr::Binary(b) if matches!(b.op, syn::BinOp::Add(_)) && compact(&b.right) == "1" => return Ok("node_number".into()),
            _ => {}
        }
        if let Some(root) = join_chain_root(e) {
            if let Ok(raw) = raw_path(root) {
                if raw == ["options", "service_data_dir_path"] {
                    return Ok("service_data_dir_path".into());
                }
                if raw == ["options", "service_log_dir_path"] {
                    return Ok("service_log_dir_path".into());
                }
                if raw.len() == 1 && self.role(&raw[0], depth + 1).as_deref() == Ok("service_data_dir_path") {
                    return Ok("service_antnode_path".into());
                }
            }
        }
        let mut tails = vec![];
        if matches!(e, syn::Expr::If(_)) && branch_tails(e, &mut tails) && !tails.is_empty() {
            if tails.iter().all(|t| matches!(t, syn::Expr::Call(call) if compact(&call.func) == "SocketAddr::new")) {
                return Ok("rpc_socket_addr".into());
            }
            if tails.iter().all(|t| join_chain_root(t).and_then(|r| raw_path(r).ok()).map(|r| r == ["options", "service_log_dir_path"]).unwrap_or(false)) {
                return Ok("service_log_dir_path".into());
            }
            if c.contains("get_available_port()") {
                return Ok(if c.contains("options.enable_metrics_server") { "metrics_free_port".into() } else { "rpc_free_port".into() });
            }
        }
        Err(format!("add_node: cannot tell what local `{ident}` is (bound to `{}`)", toks(e).chars().take(90).collect::<String>()))
    }

    fn canon(&self, raw: Vec<String>) -> Result<Src, String> {
        if raw[0] == "options" {
            return Ok(Src::Var(raw));
        }
        let mut q = vec![self.role(&raw[0], 0)?];
        q.extend_from_slice(&raw[1..]);
        Ok(Src::Var(q))
    }
}

fn literal_in(block: &syn::Block, name: &str, what: &str) -> Result<Vec<(String, Src)>, String> {
    literal_in_with(block, name, what, None)
}

fn literal_in_with(block: &syn::Block, name: &str, what: &str, roles: Option<&Roles>) -> Result<Vec<(String, Src)>, String> {
    let mut v = FindStruct { name, found: vec![] };
    syn::visit::Visit::visit_block(&mut v, block);
    if v.found.len() != 1 {
        return Err(format!("{what}: expected exactly one `{name} {{ .. }}` literal, found {}", v.found.len()));
    }
    let st = &v.found[0];
    if st.rest.is_some() {
        return Err(format!("{what}: `{name}` literal with `..`"));
    }
    let mut out = vec![];
    for f in &st.fields {
        let n = match &f.member {
            syn::Member::Named(i) => i.to_string(),
            _ => return Err("tuple field".into()),
        };
        let src = match raw_path(&f.expr) {
            Ok(raw) if raw == ["None"] => Src::Const("None".into()),
            Ok(raw) => match roles {
                Some(r) => r.canon(raw)?,
                None => Src::Var(raw),
            },
            Err(_) => Src::Const(compact(&f.expr)),
        };
        out.push((n, src));
    }
    Ok(out)
}

fn lean_assoc(name: &str, doc: &str, xs: &[(String, Src)]) -> String {
    let mut s = format!("/-- {doc} -/\ndef {name} : List (String × Src) := [\n");
    for (i, (k, v)) in xs.iter().enumerate() {
        s.push_str(&format!("  ({}, {}){}\n", lean_str(k), lean_src(v), if i + 1 < xs.len() { "," } else { "" }));
    }
    s.push_str("]\n");
    s
}
fn lean_table(name: &str, doc: &str, xs: &[Entry]) -> String {
    let mut s = format!("/-- {doc} -/\ndef {name} : List Entry := [\n");
    for (i, e) in xs.iter().enumerate() {
        s.push_str(&format!("  {}{}\n", lean_entry(e), if i + 1 < xs.len() { "," } else { "" }));
    }
    s.push_str("]\n");
    s
}

/// `match self { T::A => write!(f, "x"), T::B(_) => write!(f, "y") }` or `=> "x"` arms → [(A, x), (B, y)]
fn variant_string_table(block: &syn::Block, what: &str) -> Result<Vec<(String, String)>, String> {
    struct M(Vec<syn::ExprMatch>);
    impl<'ast> syn::visit::Visit<'ast> for M {
        fn visit_expr_match(&mut self, m: &'ast syn::ExprMatch) {
            self.0.push(m.clone());
        }
    }
    let mut m = M(vec![]);
    syn::visit::Visit::visit_block(&mut m, block);
    if m.0.len() != 1 {
        return Err(format!("{what}: expected one match"));
    }
    let mut out = vec![];
    for arm in &m.0[0].arms {
        let variant = match &arm.pat {
            syn::Pat::Path(p) => p.path.segments.last().unwrap().ident.to_string(),
            syn::Pat::TupleStruct(t) => t.path.segments.last().unwrap().ident.to_string(),
            syn::Pat::Ident(i) => i.ident.to_string(),
            syn::Pat::Lit(l) => {
                let v = compact(&l.lit).trim_matches('"').to_string();
                out.push((v.clone(), v));
                continue;
            }
            syn::Pat::Wild(_) => "_".to_string(),
            o => return Err(format!("{what}: arm pattern `{}`", toks(o))),
        };
        let body = toks(&arm.body);
        let lit = match body.split('"').nth(1) {
            Some(l) if body.matches('"').count() == 2 => l.to_string(),
            _ if variant == "_" => continue,
            _ => return Err(format!("{what}: arm body `{body}` has no single string literal")),
        };
        out.push((variant, lit));
    }
    Ok(out)
}

fn lean_pairs(name: &str, doc: &str, xs: &[(String, String)]) -> String {
    format!(
        "/-- {doc} -/\ndef {name} : List (String × String) := [{}]\n",
        xs.iter().map(|(a, b)| format!("({}, {})", lean_str(a), lean_str(b))).collect::<Vec<_>>().join(", ")
    )
}

pub fn generate(repo: &PathBuf) -> Result<String, String> {
    let cfg_rel = "ant-node-manager/src/add_services/config.rs";
    let mod_rel = "ant-node-manager/src/add_services/mod.rs";
    let svc_rel = "ant-service-management/src/node.rs";
    let cmd_rel = "ant-node-manager/src/cmd/node.rs";
    let cfg = parse_file(&repo.join(cfg_rel))?;
    let modf = parse_file(&repo.join(mod_rel))?;
    let svc = parse_file(&repo.join(svc_rel))?;
    let cmd = parse_file(&repo.join(cmd_rel))?;


    // (a) install table
    let build = impl_fn(&cfg, "InstallNodeServiceCtxBuilder", None, "build")?;
    let (install, install_ctx) = table_of(build, vec![(vec!["self".into()], vec![])], vec![&cfg, &svc], "InstallNodeServiceCtxBuilder::build")?;

    // (b) upgrade table
    let up = impl_fn(&svc, "NodeService", Some("ServiceStateActions"), "build_upgrade_install_context")?;
    let opt_param = up
        .sig
        .inputs
        .iter()
        .filter_map(|a| if let syn::FnArg::Typed(t) = a { Some((compact(&t.pat), compact(&t.ty))) } else { None })
        .find(|(_, ty)| ty == "UpgradeOptions")
        .map(|(n, _)| n)
        .ok_or("build_upgrade_install_context: no UpgradeOptions parameter")?;
    let (upgrade, upgrade_ctx) = table_of(
        up,
        vec![(vec!["self".into(), "service_data".into()], vec![]), (vec![opt_param], vec!["#upgrade".into()])],
        vec![&svc],
        "NodeService::build_upgrade_install_context",
    )?;

    // (c) the two literals in add_node
    let add_node = free_fn(&modf, "add_node")?;
    let mut roles = Roles { lets: vec![] };
    collect_lets(&add_node.block.stmts, &mut roles.lets);
    let builder_lit = literal_in_with(&add_node.block, "InstallNodeServiceCtxBuilder", "add_node", Some(&roles))?;
    let data_lit = literal_in_with(&add_node.block, "NodeServiceData", "add_node", Some(&roles))?;
    // registry-wide environment: WHERE `if options.env_variables.is_some() { node_registry.environment_variables.clone_from(&options.env_variables); .. }`
    // stands among the top-level statements of add_node, relative to the install loop and to the
    // `return Err(..)` taken when some installs failed
    let env_store_prefix = "ifoptions.env_variables.is_some(){node_registry.environment_variables.clone_from(&options.env_variables);";
    let mut env_idx: Option<usize> = None;
    let mut loop_idx: Option<usize> = None;
    let mut failret_idx: Option<usize> = None;
    for (i, st) in add_node.block.stmts.iter().enumerate() {
        let c = compact(st);
        if c.starts_with(env_store_prefix) {
            if env_idx.is_some() {
                return Err("add_node: the registry-wide environment is stored twice".into());
            }
            if c.contains("return") {
                return Err("add_node: the statement storing the registry-wide environment returns".into());
            }
            env_idx = Some(i);
        } else if let syn::Stmt::Expr(syn::Expr::While(_), _) | syn::Stmt::Expr(syn::Expr::ForLoop(_), _) | syn::Stmt::Expr(syn::Expr::Loop(_), _) = st {
            if c.contains("service_control.install(") {
                if loop_idx.is_some() {
                    return Err("add_node: two install loops".into());
                }
                loop_idx = Some(i);
            }
        } else if loop_idx.is_some() && failret_idx.is_none() && c.starts_with("if!") && c.contains(".is_empty(){") && c.contains("returnErr(") {
            failret_idx = Some(i);
        } else if c.contains("environment_variables") && !c.starts_with("letinstall_ctx") {
            return Err(format!("add_node: registry-wide environment touched by an unknown statement `{}`", c.chars().take(100).collect::<String>()));
        }
    }
    let loop_idx = loop_idx.ok_or("add_node: no install loop at the top level")?;
    let failret_idx = failret_idx.ok_or("add_node: no `if !<failed>.is_empty() { .. return Err(..) }` after the install loop")?;
    if failret_idx < loop_idx {
        return Err("add_node: the failure return precedes the install loop".into());
    }
    {
        // inside the loop nothing may touch the registry-wide environment
        let inner = compact(&add_node.block.stmts[loop_idx]);
        if inner.contains("node_registry.environment_variables") {
            return Err("add_node: the install loop touches the registry-wide environment".into());
        }
    }
    let env_pos = match env_idx {
        None => "never",
        Some(i) if i < loop_idx => "beforeInstalls",
        Some(i) if i < failret_idx => "afterLoop",
        Some(_) => "afterFailureReturn",
    };
    let add_src = compact(&add_node.block);
    // derived locals of add_node that are computed from the options by a string function:
    // `let owner = match &options.owner { Some(owner) => { ..; Some(owner.<fold>()) } None => None };`
    let mut locals_lit: Vec<(String, Src)> = vec![];
    for st in &add_node.block.stmts {
        if let syn::Stmt::Local(l) = st {
            let Some(init) = l.init.as_ref() else { continue };
            let m = match strip(&init.expr) {
                syn::Expr::Match(m) if raw_path(&m.expr).map(|r| r == ["options", "owner"]).unwrap_or(false) => m,
                _ => continue,
            };
            let mut found = None;
            for arm in &m.arms {
                let pat = compact(&arm.pat);
                if pat == "None" {
                    if compact(&arm.body) != "None" {
                        return Err("add_node: owner None arm is not None".into());
                    }
                    continue;
                }
                let var = pat.strip_prefix("Some(").and_then(|x| x.strip_suffix(')')).ok_or_else(|| format!("add_node: owner arm `{pat}`"))?.to_string();
                // the value of the arm: last expression of the block, `Some(<var>.<method>())`
                let tail = match &*arm.body {
                    syn::Expr::Block(b) => match b.block.stmts.last() {
                        Some(syn::Stmt::Expr(e, None)) => e.clone(),
                        _ => return Err("add_node: owner arm has no tail expression".into()),
                    },
                    e => e.clone(),
                };
                let t = compact(&tail);
                let inner = t.strip_prefix("Some(").and_then(|x| x.strip_suffix(')')).ok_or_else(|| format!("add_node: owner arm yields `{t}`"))?;
                let mut folds = vec![];
                let mut rest = inner.strip_prefix(var.as_str()).ok_or_else(|| format!("add_node: owner arm yields `{t}`"))?;
                while !rest.is_empty() {
                    if let Some(r) = rest.strip_prefix(".to_lowercase()") {
                        folds.push(Fold::Lower);
                        rest = r;
                    } else if let Some(r) = rest.strip_prefix(".to_ascii_lowercase()") {
                        folds.push(Fold::AsciiLower);
                        rest = r;
                    } else if let Some(r) = rest.strip_prefix(".clone()").or_else(|| rest.strip_prefix(".to_string()")).or_else(|| rest.strip_prefix(".to_owned()")) {
                        rest = r;
                    } else {
                        return Err(format!("add_node: owner is transformed by `{rest}` (only case foldings are handled)"));
                    }
                }
                found = Some(folds);
            }
            let folds = found.ok_or("add_node: owner has no Some arm")?;
            locals_lit.push(("owner".into(), if folds.is_empty() { Src::Var(vec!["options".into(), "owner".into()]) } else { Src::Folded(vec!["options".into(), "owner".into()], folds) }));
        }
    }
    let _ = &add_src;

    // (d) UpgradeOptions literal in `antctl upgrade`
    let upf = free_fn(&cmd, "upgrade")?;
    let mut up_lit = literal_in(&upf.block, "UpgradeOptions", "cmd::node::upgrade")?;
    let up_src = compact(&upf.block);
    let bound_to = |rhs: &str| -> Option<String> {
        let i = up_src.find(rhs)?;
        let head = &up_src[..i];
        let j = head.rfind("let")?;
        let name = head[j + 3..].trim_start_matches("mut").to_string();
        if !name.is_empty() && name.chars().all(|c| c.is_alphanumeric() || c == '_') { Some(name) } else { None }
    };
    let node_var = bound_to("=&mutnode_registry.nodes[index];");
    let env_var = bound_to("=ifprovided_env_variables.is_some(){&provided_env_variables}else{&node_registry.environment_variables};");
    let node_is_entry = node_var.is_some();
    let env_shape = env_var.is_some();
    let node_var = node_var.unwrap_or_else(|| "node".into());
    let env_var = env_var.unwrap_or_else(|| "env_variables".into());
    for (k, v) in up_lit.iter_mut() {
        if let Src::Var(p) = v {
            if p.len() == 2 && p[0] == node_var {
                if !node_is_entry {
                    return Err("cmd::node::upgrade: `node` is not `&mut node_registry.nodes[index]`".into());
                }
                *v = Src::Var(vec![p[1].clone()]);
            } else if p.len() == 1 && p[0] == env_var && k == "env_variables" {
                if !env_shape {
                    return Err("cmd::node::upgrade: `env_variables` is not `provided or registry-wide`".into());
                }
                *v = Src::Var(vec!["#env".into()]);
            } else {
                let mut q = vec!["#cli".to_string()];
                q.extend(p.iter().cloned());
                *v = Src::Var(q);
            }
        }
    }

    // `antctl add`: the one mutation of the parsed PeersArgs (ANT_PEERS appended to --peer) must not meet --first
    let addf = free_fn(&cmd, "add")?;
    let add_cmd_src = compact(&addf.block);
    let env_peers_guarded = if add_cmd_src.contains("if!peers_args.first{peers_args.addrs.extend(PeersArgs::read_addr_from_env());}") {
        true
    } else if add_cmd_src.contains("peers_args.addrs.extend(PeersArgs::read_addr_from_env());") {
        false
    } else {
        return Err("cmd::node::add: how ANT_PEERS reaches peers_args.addrs is not a shape I know".into());
    };
    // `--bootstrap-cache-dir` given to `antctl add`: kept (the service user's default only fills the gap), or overwritten
    let keep_shape = "ifpeers_args.bootstrap_cache_dir.is_none(){peers_args.bootstrap_cache_dir=bootstrap_cache_dir;}";
    let add_keeps_cache_dir = if add_cmd_src.contains(keep_shape) {
        true
    } else if add_cmd_src.contains(";peers_args.bootstrap_cache_dir=bootstrap_cache_dir;") || add_cmd_src.contains("}peers_args.bootstrap_cache_dir=bootstrap_cache_dir;") {
        false
    } else {
        return Err("cmd::node::add: how the bootstrap cache directory reaches peers_args is not a shape I know".into());
    };
    if add_cmd_src.matches("peers_args.").count()
        != add_cmd_src.matches("peers_args.addrs.extend").count()
            + add_cmd_src.matches("peers_args.first").count()
            + add_cmd_src.matches("peers_args.bootstrap_cache_dir=bootstrap_cache_dir").count()
            + add_cmd_src.matches("peers_args.bootstrap_cache_dir.is_none()").count()
    {
        return Err("cmd::node::add: peers_args is modified in a way I do not know".into());
    }

    // `antctl add` gives a service a user only at system level: `user_mode = !root`, `service_user = if user_mode { None } else { Some(..) }`,
    // both handed to add_node unchanged
    let user_only_at_system_level = add_cmd_src.contains("letuser_mode=!is_running_as_root();")
        && add_cmd_src.contains("letservice_user=ifuser_mode{None}else{")
        && add_cmd_src.contains("user:service_user,")
        && add_cmd_src.contains("user_mode,")
        && add_cmd_src.matches("user_mode=").count() == 1;

    // (f) service level (system / user) handed to the service manager: `add_node`, `ServiceManager::upgrade`
    let libf = parse_file(&repo.join("ant-node-manager/src/lib.rs"))?;
    let is_user_mode = impl_fn(&svc, "NodeService", Some("ServiceStateActions"), "is_user_mode")?;
    let ium = compact(&is_user_mode.block);
    let ium_src = if ium == "{self.service_data.user_mode}" {
        Src::Var(vec!["user_mode".into()])
    } else if ium == "{false}" || ium == "{true}" {
        Src::Const(ium.trim_matches(|c| c == '{' || c == '}').to_string())
    } else {
        return Err(format!("NodeService::is_user_mode: body `{ium}`"));
    };
    let level_src = |e: &syn::Expr, what: &str| -> Result<Src, String> {
        let c = compact(e);
        if c == "false" || c == "true" {
            return Ok(Src::Const(c));
        }
        if c == "self.service.is_user_mode()" {
            return Ok(ium_src.clone());
        }
        match raw_path(e) {
            Ok(raw) if raw == ["options", "user_mode"] => Ok(Src::Var(raw)),
            Ok(raw) if raw.len() == 2 && raw[0] == "current_node_clone" => Ok(Src::Var(vec![raw[1].clone()])),
            _ => Err(format!("{what}: service level `{c}`")),
        }
    };
    let one_level = |block: &syn::Block, method: &str, what: &str| -> Result<Src, String> {
        let calls = service_control_calls(block, method);
        if calls.len() != 1 {
            return Err(format!("{what}: expected exactly one service_control.{method}(..), found {}", calls.len()));
        }
        if calls[0].len() != 2 {
            return Err(format!("{what}: {method}(..) with {} arguments", calls[0].len()));
        }
        level_src(&calls[0][1], what)
    };
    let add_install_level = one_level(&add_node.block, "install", "add_node")?;
    let mgr_upgrade = impl_fn(&libf, "ServiceManager", None, "upgrade")?;
    let upgrade_uninstall_level = one_level(&mgr_upgrade.block, "uninstall", "ServiceManager::upgrade")?;
    let upgrade_install_level = one_level(&mgr_upgrade.block, "install", "ServiceManager::upgrade")?;

    // (g) the daemon's restart path: two more `InstallNodeServiceCtxBuilder { .. }` literals in rpc.rs
    let rpc_rel = "ant-node-manager/src/rpc.rs";
    let rpcf = parse_file(&repo.join(rpc_rel))?;
    let restart = free_fn(&rpcf, "restart_node_service")?;
    let mut branches: Option<(&syn::Block, &syn::Block)> = None;
    for st in &restart.block.stmts {
        if let syn::Stmt::Expr(syn::Expr::If(i), _) = st {
            if compact(&i.cond) == "retain_peer_id" {
                let els = match &i.else_branch {
                    Some((_, e)) => match &**e {
                        syn::Expr::Block(b) => &b.block,
                        _ => return Err("restart_node_service: `else if` after `if retain_peer_id`".into()),
                    },
                    None => return Err("restart_node_service: `if retain_peer_id` without else".into()),
                };
                if branches.is_some() {
                    return Err("restart_node_service: two `if retain_peer_id`".into());
                }
                branches = Some((&i.then_branch, els));
            }
        }
    }
    let (retain_block, replace_block) = branches.ok_or("restart_node_service: no `if retain_peer_id { .. } else { .. }` at the top level")?;
    let restart_lit = |block: &syn::Block, name: &str, what: &str| -> Result<Vec<(String, Src)>, String> {
        let mut lit = literal_in(block, name, what)?;
        for (k, v) in lit.iter_mut() {
            let nv = match &*v {
                Src::Const(c) if c == "None" => Src::Const("None".into()),
                Src::Const(c) if c == "current_node_clone.get_antnode_port()" => Src::Var(vec!["~".into(), "listenport".into()]),
                Src::Const(c) if c == "false" || c == "true" || c.starts_with("ServiceStatus::") => Src::Const(c.clone()),
                Src::Const(c) => return Err(format!("{what}: field `{k}` is `{c}`")),
                Src::Var(p) if p.len() == 2 && p[0] == "current_node_clone" => Src::Var(vec![p[1].clone()]),
                Src::Var(p) if p.len() == 2 && p[0] == "node_registry" && p[1] == "environment_variables" => Src::Var(vec!["~".into(), "regenv".into()]),
                Src::Var(p) if p.len() == 1 => Src::Var(vec!["~".into(), "new".into(), p[0].clone()]),
                Src::Var(p) => return Err(format!("{what}: field `{k}` reads `{}`", p.join("."))),
                Src::Folded(..) => return Err(format!("{what}: folded field `{k}`")),
            };
            *v = nv;
        }
        Ok(lit)
    };
    let retain_lit = restart_lit(retain_block, "InstallNodeServiceCtxBuilder", "restart_node_service (retain)")?;
    let replace_lit = restart_lit(replace_block, "InstallNodeServiceCtxBuilder", "restart_node_service (replacement)")?;
    let replace_data = restart_lit(replace_block, "NodeServiceData", "restart_node_service (replacement)")?;
    let retain_uninstall_level = one_level(retain_block, "uninstall", "restart_node_service (retain)")?;
    let retain_install_level = one_level(retain_block, "install", "restart_node_service (retain)")?;
    let replace_install_level = one_level(replace_block, "install", "restart_node_service (replacement)")?;
    // no other place of the manager writes an antnode service definition
    for (rel, expect) in [("ant-node-manager/src/rpc.rs", 2usize), ("ant-node-manager/src/add_services/mod.rs", 1), ("ant-node-manager/src/cmd/node.rs", 0), ("ant-node-manager/src/lib.rs", 0), ("ant-node-manager/src/local.rs", 0)] {
        let f = parse_file(&repo.join(rel))?;
        let mut v = FindStructOutsideTests { name: "InstallNodeServiceCtxBuilder", found: 0 };
        syn::visit::Visit::visit_file(&mut v, &f);
        if v.found != expect {
            return Err(format!("{rel}: {} `InstallNodeServiceCtxBuilder {{ .. }}` literals outside tests (the model knows {expect})", v.found));
        }
    }

    // (h) the unit file: the two format strings of the systemd backend of the `service-manager` crate the workspace locks
    let lock = std::fs::read_to_string(repo.join("Cargo.lock")).map_err(|e| format!("Cargo.lock: {e}"))?;
    let sm_version = lock
        .split("[[package]]")
        .find(|b| b.contains("name = \"service-manager\""))
        .and_then(|b| b.lines().find_map(|l| l.trim().strip_prefix("version = \"").and_then(|v| v.strip_suffix('"')).map(|v| v.to_string())))
        .ok_or("Cargo.lock: no service-manager package")?;
    let home = std::env::var("CARGO_HOME").unwrap_or_else(|_| format!("{}/.cargo", std::env::var("HOME").unwrap_or_default()));
    let mut systemd_rs = None;
    if let Ok(rd) = std::fs::read_dir(format!("{home}/registry/src")) {
        for e in rd.flatten() {
            let p = e.path().join(format!("service-manager-{sm_version}/src/systemd.rs"));
            if p.exists() {
                systemd_rs = Some(p);
            }
        }
    }
    let systemd_rs = systemd_rs.ok_or_else(|| format!("service-manager-{sm_version}/src/systemd.rs not found under {home}/registry/src"))?;
    let sd = parse_file(&systemd_rs)?;
    let mk = free_fn(&sd, "make_service")?;
    let mk_src = toks(&mk.block);
    let lits: Vec<String> = {
        struct L(Vec<String>);
        impl<'ast> syn::visit::Visit<'ast> for L {
            fn visit_macro(&mut self, m: &'ast syn::Macro) {
                // string literals inside `writeln!(service, "…")`
                let t = m.tokens.to_string();
                if m.path.is_ident("writeln") {
                    if let Some(i) = t.find('"') {
                        if let Ok(l) = syn::parse_str::<syn::LitStr>(t[i..].split(" , ").next().unwrap_or("").trim_end_matches(')').trim()) {
                            self.0.push(l.value());
                        } else if let Some(j) = t.rfind('"') {
                            if let Ok(l) = syn::parse_str::<syn::LitStr>(&t[i..=j]) {
                                self.0.push(l.value());
                            }
                        }
                    }
                }
            }
        }
        let mut l = L(vec![]);
        syn::visit::Visit::visit_block(&mut l, &mk.block);
        l.0
    };
    let exec_fmt = lits.iter().find(|l| l.starts_with("ExecStart=")).cloned().ok_or("service-manager make_service: no `ExecStart=` line")?;
    let env_fmt = lits.iter().find(|l| l.starts_with("Environment=")).cloned().ok_or("service-manager make_service: no `Environment=` line")?;
    let compact_mk = mk_src.replace(' ', "");
    let args_sep = if compact_mk.contains(".collect::<Vec<String>>().join(\"\u{20}\")") || compact_mk.contains(".join(\"\")") {
        // `toks` prints the literal `" "`; with the blanks removed it reads `""`
        if mk_src.contains(". join (\" \")") { " ".to_string() } else { return Err("service-manager make_service: the arguments are not joined by one blank".into()) }
    } else {
        return Err("service-manager make_service: how the arguments are joined is not a shape I know".into());
    };
    if !compact_mk.contains("letargs=ctx.args.clone().into_iter().map(|a|a.to_string_lossy().to_string())") {
        return Err("service-manager make_service: the arguments are not rendered by to_string_lossy alone".into());
    }

    // (e) clap surface
    let surface = uc::surface(repo)?;

    // small value tables
    let evm = parse_file(&repo.join("evmlib/src/lib.rs"))?;
    let disp = impl_fn(&evm, "Network", Some("Display"), "fmt")?;
    let evm_display = variant_string_table(&disp.block, "Display for Network")?;
    let logf = parse_file(&repo.join("ant-logging/src/lib.rs"))?;
    let as_str = variant_string_table(&impl_fn(&logf, "LogFormat", None, "as_str")?.block, "LogFormat::as_str")?;
    let parse_from = variant_string_table(&impl_fn(&logf, "LogFormat", None, "parse_from_str")?.block, "LogFormat::parse_from_str")?;
    let parse_from: Vec<(String, String)> = parse_from.into_iter().map(|(lit, _)| (lit.clone(), lit)).collect();

    let mut s = header(&format!("{cfg_rel}, {mod_rel}, {svc_rel}, {cmd_rel}, {rpc_rel}, ant-node-manager/src/lib.rs, ant-node/src/bin/antnode/{{main,subcommands}}.rs, ant-bootstrap/src/initial_peers.rs, ant-node/Cargo.toml"));
    s.push_str("import SafeNet.Model.ArgTable\nnamespace SafeNet.Gen.Upgrade\nopen SafeNet.ArgTable\n\n");
    s.push_str(&lean_table("installTable", "`InstallNodeServiceCtxBuilder::build`: ordered (guard, long option, value) entries; paths are fields of `self`", &install));
    s.push_str(&lean_assoc("installCtx", "the other fields of the `ServiceInstallCtx` returned by `build`", &install_ctx));
    s.push_str(&lean_table("upgradeTable", "`NodeService::build_upgrade_install_context`: paths are fields of `self.service_data`; `#upgrade.x` = field x of the `UpgradeOptions` argument", &upgrade));
    s.push_str(&lean_assoc("upgradeCtx", "the other fields of the `ServiceInstallCtx` returned at upgrade", &upgrade_ctx));
    s.push_str(&lean_assoc("builderLiteral", "`InstallNodeServiceCtxBuilder { .. }` in `add_node`: builder field ↦ expression of add_node", &builder_lit));
    s.push_str(&lean_assoc("dataLiteral", "`NodeServiceData { .. }` pushed to the registry in `add_node`: registry field ↦ expression of add_node", &data_lit));
    s.push_str(&lean_assoc("upgradeLiteral", "`UpgradeOptions { .. }` in `cmd::node::upgrade`; `node.x` is written as the registry field x, `#env` = provided-or-registry-wide environment, `#cli.x` = other locals", &up_lit));
    s.push_str(&format!("/-- where `add_node` stores `options.env_variables` (when `Some`) registry-wide, relative to the install loop and the failure return -/\ndef registryEnvStore : EnvStorePos := .{env_pos}\n"));
    s.push_str(&lean_assoc("localsLiteral", "locals of `add_node` computed from the options by string functions (read by both struct literals)", &locals_lit));
    s.push_str(&format!("/-- `antctl add` appends `ANT_PEERS` to `--peer` only when `--first` is not set -/\ndef envPeersSkippedForFirst : Bool := {}\n", lean_bool(env_peers_guarded)));
    s.push_str(&format!("/-- `antctl add` keeps a `--bootstrap-cache-dir` given by the user (the service user's default only fills the gap); false = overwrites it -/\ndef addKeepsUserBootstrapCacheDir : Bool := {}\n", lean_bool(add_keeps_cache_dir)));
    s.push_str(&format!("/-- `antctl add`: a service user is set only for a system-level service (`service_user = if user_mode {{ None }} else {{ Some(..) }}`, both handed to `add_node` unchanged) -/\ndef addServiceUserOnlyAtSystemLevel : Bool := {}\n", lean_bool(user_only_at_system_level)));
    let lean_one = |name: &str, doc: &str, v: &Src| format!("/-- {doc} -/\ndef {name} : Src := {}\n", lean_src(v));
    s.push_str(&lean_one("addInstallLevel", "second argument of `service_control.install(..)` in `add_node` (true = user level)", &add_install_level));
    s.push_str(&lean_one("upgradeUninstallLevel", "`ServiceManager::upgrade`: level handed to `uninstall` (a registry field, through `NodeService::is_user_mode`)", &upgrade_uninstall_level));
    s.push_str(&lean_one("upgradeInstallLevel", "`ServiceManager::upgrade`: level handed to `install`", &upgrade_install_level));
    s.push_str(&lean_assoc("restartRetainLiteral", "`InstallNodeServiceCtxBuilder { .. }` of `rpc::restart_node_service`, peer id retained: builder field ↦ registry field of the restarted entry; `~.listenport` = `get_antnode_port()` (port of the recorded listen address), `~.regenv` = registry-wide environment", &retain_lit));
    s.push_str(&lean_one("restartRetainUninstallLevel", "`restart_node_service` (retain): level handed to `uninstall`", &retain_uninstall_level));
    s.push_str(&lean_one("restartRetainInstallLevel", "`restart_node_service` (retain): level handed to `install`", &retain_install_level));
    s.push_str(&lean_assoc("restartReplaceLiteral", "`InstallNodeServiceCtxBuilder { .. }` of `rpc::restart_node_service`, replacement service: `~.new.x` = local x derived from the new service name", &replace_lit));
    s.push_str(&lean_assoc("restartReplaceData", "`NodeServiceData { .. }` recorded for the replacement service", &replace_data));
    s.push_str(&lean_one("restartReplaceInstallLevel", "`restart_node_service` (replacement): level handed to `install`", &replace_install_level));
    s.push_str(&format!("/-- service-manager {sm_version} `systemd.rs::make_service`: the `ExecStart=` line, the separator the arguments are joined with, the `Environment=` line (format strings as written there; no quoting or escaping function is applied to `program`, `args`, `var`, `val`) -/\ndef unitExecStartFormat : String := {}\ndef unitArgsSeparator : String := {}\ndef unitEnvironmentFormat : String := {}\n", lean_str(&exec_fmt), lean_str(&args_sep), lean_str(&env_fmt)));
    s.push_str(&lean_pairs("evmDisplay", "`Display for evmlib::Network`: variant ↦ printed subcommand word", &evm_display));
    s.push_str(&lean_pairs("logFormatAsStr", "`LogFormat::as_str`", &as_str));
    s.push_str(&lean_pairs("logFormatParse", "`LogFormat::parse_from_str`: accepted literal ↦ itself", &parse_from));
    s.push_str(&surface);
    s.push_str("end SafeNet.Gen.Upgrade\n");
    Ok(s)
}
