//! rs2lean: regenerates lean/SafeNet/Gen/*.lean from /repo's current source.
//! Not a general Rust→Lean translator: a closed list of shapes; anything else is
//! reported as `UNTRANSLATABLE <file>:<item>: <reason>` and the run exits 1.
mod util;
mod lifecycle;
mod amount;
mod bootcache;
mod quote;
mod wire;
mod wireshape;
mod wirecodec;
mod parsers;
mod store;
mod startup;
mod register;
mod distance;
mod fetcher;
mod quorum;
mod upgrade;
mod upgrade_clap;
mod validate;
mod selfenc;
mod clientread;
mod quotefetch;
mod replication;
mod fullglue;
mod padsig;

use std::path::PathBuf;

fn main() {
    let mut args = std::env::args().skip(1);
    let repo = PathBuf::from(args.next().unwrap_or_else(|| "/repo".into()));
    let outdir = PathBuf::from(args.next().unwrap_or_else(|| "/verif/lean/SafeNet/Gen".into()));
    let only: Vec<String> = args.collect();
    std::fs::create_dir_all(&outdir).expect("outdir");
    let gens: Vec<(&str, fn(&PathBuf) -> Result<String, String>)> = vec![
        ("Amount", amount::generate),
        ("Lifecycle", lifecycle::generate),
        ("BootCache", bootcache::generate),
        ("Quote", quote::generate),
        ("Wire", wire::generate),
        ("WireShape", wireshape::generate),
        ("WireCodec", wirecodec::generate),
        ("Parsers", parsers::generate),
        ("Store", store::generate),
        ("Startup", startup::generate),
        ("Register", register::generate),
        ("Distance", distance::generate),
        ("Fetcher", fetcher::generate),
        ("Quorum", quorum::generate),
        ("Upgrade", upgrade::generate),
        ("Validate", validate::generate),
        ("SelfEnc", selfenc::generate),
        ("ClientRead", clientread::generate),
        ("QuoteFetch", quotefetch::generate),
        ("Replication", replication::generate),
        ("FullGlue", fullglue::generate),
        ("PadSig", padsig::generate),
    ];
    let mut failed = false;
    for (name, g) in gens {
        if !only.is_empty() && !only.iter().any(|o| o == name) {
            continue;
        }
        match g(&repo) {
            Ok(text) => {
                let p = outdir.join(format!("{name}.lean"));
                let old = std::fs::read_to_string(&p).unwrap_or_default();
                if old != text {
                    std::fs::write(&p, text).expect("write gen");
                    println!("rs2lean: wrote {}", p.display());
                }
            }
            Err(e) => {
                println!("UNTRANSLATABLE {name}: {e}");
                failed = true;
            }
        }
    }
    if failed {
        std::process::exit(1);
    }
}
