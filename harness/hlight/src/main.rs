mod amount;

fn main() {
    let args = common::parse_args();
    match args.component.as_str() {
        "amount" => amount::run(&args),
        other => {
            eprintln!("unknown component {other}");
            std::process::exit(2);
        }
    }
}
