//! C17: parsers of untrusted text and bytes (address / hex / wallet / bootstrap / record-header routines),
//! real code under `catch_unwind` vs. the Lean model (`drv_parsers`).
//!
//! Line protocol (inputs only, plus the verdict of third-party functions the model keeps abstract;
//! the harness computes those verdicts by calling the third-party crate directly, never through /repo code).
//! `<s>` = common::hex of the UTF-8 bytes of a string, `<b>` = common::hex of bytes (`-` = empty).
//!   reghex <s> <pk>            RegisterAddress::from_hex; pk = 1|0: blsttc accepts decoded[32..80] as a key, `na` if len != 80
//!   regfmt <b32> <b48>         RegisterAddress::new(meta, owner).to_hex()
//!   scratchhex <s> <pk>        ScratchpadAddress::from_hex; pk as above for the 48 decoded bytes
//!   scratchfmt <b48>           ScratchpadAddress::new(owner).to_hex()
//!   decrypt <s> <pw> <aead>    decrypt_private_key; aead = na | fail | pt:<b> (ring's PBKDF2 + ChaCha20-Poly1305 open on the framing)
//!   encrypt <key> <pw>         encrypt_private_key (random salt/nonce): prints the length of the hex output; oracle decrypts it
//!   hdr <b>                    RecordHeader::from_record
//!   recdeser <key> <b> <tp>    try_deserialize_record::<Vec<u8>> on Record { key, value: b } (the error path logs the key);
//!                              tp = na | err | ok:<b> (rmp_serde on the bytes after the prefix)
//!   craft <0|1> <s> <tp>       craft_valid_multiaddr_from_str; tp = err | comma list of protocol tags of the parsed multiaddr
//!   leastfaulty s:f …          BootstrapAddresses::get_least_faulty (reaches failure_rate)
//!   reliable s f               BootstrapAddr::is_reliable
//!   loadcache k m gen <desc> <tp> | loadcache k m <b> <tp>
//!                              BootstrapCacheStore::load_cache_data on a rendered (`gen`) or raw file;
//!                              desc = [u<ts>/]peers, peers = `s:f:<ts>,…|…` (`e` = peer without addrs, `nopeers`),
//!                              <ts> = last_seen: 0 (= now) | 1 (= two days old / one day ahead) | now-1 | now+2 | old | fut |
//!                              <secs>n<nanos> literal; u<ts> = last_updated;
//!                              tp = err | peers `s:f:e,…|…` with e = expired (serde_json + UTF-8 into a mirror struct)
//!   probe-netaddr <b>          (replay only, no model) format!("{:?}", NetworkAddress::RecordKey(b))
//!   probe-evmenv <s> <s> <s>   (replay only, no model) get_evm_network_from_env() with RPC_URL / PAYMENT_TOKEN_ADDRESS / DATA_PAYMENTS_ADDRESS set
use ant_bootstrap::{BootstrapAddr, BootstrapAddresses, BootstrapCacheConfig, BootstrapCacheStore};
use ant_protocol::storage::{try_deserialize_record, RecordHeader, RecordKind, ScratchpadAddress};
use ant_registers::RegisterAddress;
use common::{hex, unhex, Out, Rng};
use libp2p::kad::{Record, RecordKey};
use libp2p::multiaddr::Protocol;
use libp2p::{Multiaddr, PeerId};
use std::collections::HashMap;
use std::panic::{catch_unwind, AssertUnwindSafe};
use std::time::{Duration, SystemTime};
use xor_name::XorName;

#[allow(dead_code)]
mod wallet {
    #[path = "/repo/ant-cli/src/wallet/error.rs"]
    pub mod error;
    #[path = "/repo/ant-cli/src/wallet/encryption.rs"]
    pub mod encryption;
}
use wallet::encryption::{decrypt_private_key, encrypt_private_key};

#[path = "parsers/extra.rs"]
mod extra;

const SALT: usize = 8; // only used by the independent framing/AEAD computation of the harness
const NONCE: usize = 12;
const EXPIRY: Duration = Duration::from_secs(3600);

fn s_of(h: &str) -> Option<String> {
    String::from_utf8(unhex(h)?).ok()
}

// ---------------------------------------------------------------- third-party verdicts (independent of /repo code)

fn pk_verdict(decoded: Option<Vec<u8>>, off: usize) -> String {
    match decoded {
        Some(b) if b.len() == off + 48 => {
            let mut a = [0u8; 48];
            a.copy_from_slice(&b[off..]);
            if bls::PublicKey::from_bytes(a).is_ok() { "1".into() } else { "0".into() }
        }
        _ => "na".into(),
    }
}

struct OneNonce([u8; 12]);
impl ring::aead::NonceSequence for OneNonce {
    fn advance(&mut self) -> Result<ring::aead::Nonce, ring::error::Unspecified> {
        ring::aead::Nonce::try_assume_unique_for_key(&self.0)
    }
}
fn derive_key(salt: &[u8], pw: &[u8]) -> [u8; 32] {
    let mut key = [0u8; 32];
    ring::pbkdf2::derive(ring::pbkdf2::PBKDF2_HMAC_SHA512, std::num::NonZeroU32::new(100_000).expect("nz"), salt, pw, &mut key);
    key
}
/// seal `plain` (any bytes) with the wallet's framing: hex(salt ‖ nonce ‖ ciphertext ‖ tag)
fn seal_frame(salt: &[u8; SALT], nonce: &[u8; NONCE], pw: &[u8], plain: &[u8]) -> String {
    use ring::aead::BoundKey;
    let key = derive_key(salt, pw);
    let ub = ring::aead::UnboundKey::new(&ring::aead::CHACHA20_POLY1305, &key).expect("key");
    let mut sk = ring::aead::SealingKey::new(ub, OneNonce(*nonce));
    let mut data = plain.to_vec();
    sk.seal_in_place_append_tag(ring::aead::Aad::from(&[]), &mut data).expect("seal");
    let mut all = salt.to_vec();
    all.extend_from_slice(nonce);
    all.extend_from_slice(&data);
    hex::encode(all)
}
fn aead_verdict(decoded: Option<Vec<u8>>, pw: &[u8]) -> String {
    use ring::aead::BoundKey;
    match decoded {
        Some(b) if b.len() >= SALT + NONCE => {
            let key = derive_key(&b[..SALT], pw);
            let mut n = [0u8; NONCE];
            n.copy_from_slice(&b[SALT..SALT + NONCE]);
            let ub = ring::aead::UnboundKey::new(&ring::aead::CHACHA20_POLY1305, &key).expect("key");
            let mut ok = ring::aead::OpeningKey::new(ub, OneNonce(n));
            let mut data = b[SALT + NONCE..].to_vec();
            match ok.open_in_place(ring::aead::Aad::from(&[]), &mut data) {
                Ok(pt) => format!("pt:{}", hex(pt)),
                Err(_) => "fail".into(),
            }
        }
        _ => "na".into(),
    }
}

fn proto_tag(p: &Protocol) -> &'static str {
    match p {
        Protocol::Ip4(_) => "ip4",
        Protocol::Udp(_) => "udp",
        Protocol::Tcp(_) => "tcp",
        Protocol::QuicV1 => "quic",
        Protocol::Ws(_) => "ws",
        Protocol::P2p(_) => "p2p",
        _ => "other",
    }
}
fn multiaddr_verdict(s: &str) -> (String, Option<Multiaddr>) {
    match s.parse::<Multiaddr>() {
        Ok(a) => {
            let tags: Vec<&str> = a.iter().map(|p| proto_tag(&p)).collect();
            (if tags.is_empty() { "empty".into() } else { tags.join(",") }, Some(a))
        }
        Err(_) => ("err".into(), None),
    }
}

#[derive(serde::Deserialize)]
#[allow(dead_code)]
struct MirrorAddr {
    addr: Multiaddr,
    success_count: u32,
    failure_count: u32,
    last_seen: SystemTime,
}
#[derive(serde::Deserialize)]
#[allow(dead_code)]
struct MirrorCache {
    peers: HashMap<PeerId, Vec<MirrorAddr>>,
    last_updated: SystemTime,
    network_version: String,
}
/// serde_json + UTF-8 validation on the file bytes, into a mirror of the cache's shape; peers sorted for a canonical line
fn cache_verdict(bytes: &[u8]) -> String {
    let Ok(text) = std::str::from_utf8(bytes) else { return "err".into() };
    let Ok(c) = serde_json::from_str::<MirrorCache>(text) else { return "err".into() };
    let now = SystemTime::now();
    let mut peers: Vec<String> = c
        .peers
        .values()
        .map(|v| {
            v.iter()
                .map(|a| {
                    let expired = match now.duration_since(a.last_seen) {
                        Ok(d) => d >= EXPIRY,
                        Err(_) => true,
                    };
                    format!("{}:{}:{}", a.success_count, a.failure_count, expired as u8)
                })
                .collect::<Vec<_>>()
                .join(",")
        })
        .map(|s| if s.is_empty() { "e".to_string() } else { s })
        .collect();
    peers.sort();
    if peers.is_empty() { "nopeers".into() } else { peers.join("|") }
}

fn peer_id(n: u64) -> PeerId {
    // identity multihash of a protobuf-encoded ed25519 public key (not validated by PeerId::from_bytes)
    let mut b = vec![0x00, 0x24, 0x08, 0x01, 0x12, 0x20];
    let mut r = Rng::new(n ^ 0xfeed);
    b.extend_from_slice(&r.bytes(32));
    PeerId::from_bytes(&b).expect("peer id")
}

/// `"secs_since_epoch":S,"nanos_since_epoch":N` for a timestamp token of the op line
fn render_ts(tok: &str, now: u64, alt: bool) -> String {
    let (secs, nanos): (String, String) = match tok {
        "0" | "now" => (now.to_string(), "0".into()),
        "1" => (if alt { now.saturating_sub(2 * 86400) } else { now + 86400 }.to_string(), "0".into()),
        "now-1" => ((now - 1).to_string(), "0".into()),
        "now+2" => ((now + 2).to_string(), "0".into()),
        "old" => (now.saturating_sub(2 * 86400).to_string(), "0".into()),
        "fut" => ((now + 86400).to_string(), "0".into()),
        lit => match lit.split_once('n') {
            Some((a, b)) => (a.to_string(), b.to_string()),
            None => (lit.to_string(), "0".into()),
        },
    };
    format!("{{\"secs_since_epoch\":{secs},\"nanos_since_epoch\":{nanos}}}")
}

fn render_cache(desc: &str) -> String {
    let now = SystemTime::now().duration_since(SystemTime::UNIX_EPOCH).expect("now").as_secs();
    let (updated, abs) = match desc.strip_prefix('u').and_then(|r| r.split_once('/')) {
        Some((u, rest)) => (u, rest),
        None => ("now", desc),
    };
    let mut peers = vec![];
    if abs != "nopeers" {
        for (pi, p) in abs.split('|').enumerate() {
            let id = peer_id(pi as u64);
            let mut addrs = vec![];
            if p != "e" {
                for (ai, a) in p.split(',').enumerate() {
                    let f: Vec<&str> = a.split(':').collect();
                    let ts = render_ts(f.get(2).copied().unwrap_or("now"), now, (pi + ai) % 2 == 0);
                    addrs.push(format!(
                        "{{\"addr\":\"/ip4/10.0.{}.{}/udp/{}/quic-v1/p2p/{id}\",\"success_count\":{},\"failure_count\":{},\"last_seen\":{ts}}}",
                        pi % 256, ai % 256, 1000 + ai, f.first().copied().unwrap_or("0"), f.get(1).copied().unwrap_or("0")
                    ));
                }
            }
            peers.push(format!("\"{id}\":[{}]", addrs.join(",")));
        }
    }
    format!(
        "{{\"peers\":{{{}}},\"last_updated\":{},\"network_version\":\"x\"}}",
        peers.join(","),
        render_ts(updated, now, true)
    )
}

// ---------------------------------------------------------------- execution on the real code

fn kind_name(k: RecordKind) -> &'static str {
    match k {
        RecordKind::Chunk => "Chunk",
        RecordKind::ChunkWithPayment => "ChunkWithPayment",
        RecordKind::Transaction => "Transaction",
        RecordKind::TransactionWithPayment => "TransactionWithPayment",
        RecordKind::Register => "Register",
        RecordKind::RegisterWithPayment => "RegisterWithPayment",
        RecordKind::Scratchpad => "Scratchpad",
        RecordKind::ScratchpadWithPayment => "ScratchpadWithPayment",
    }
}

fn record_with_key(key: &[u8], value: Vec<u8>) -> Record {
    Record { key: RecordKey::new(&key), value, publisher: None, expires: None }
}
fn record(value: Vec<u8>) -> Record {
    record_with_key(&[1u8, 2, 3], value)
}

fn baddr(s: u32, f: u32, i: usize) -> BootstrapAddr {
    let mut a = BootstrapAddr::new(format!("/ip4/10.1.0.{}/udp/{}/quic-v1", i % 256, 2000 + i).parse().expect("addr"));
    a.success_count = s;
    a.failure_count = f;
    a
}

/// Returns (possibly rewritten op line with regenerated third-party verdicts, implementation output).
fn exec(line: &str, tmp: &std::path::Path) -> (String, String) {
    let ws: Vec<&str> = line.split_whitespace().collect();
    let mut op = line.to_string();
    let r = catch_unwind(AssertUnwindSafe(|| -> String {
        match ws.as_slice() {
            ["reghex", h, ..] => {
                let Some(s) = s_of(h) else { return "bad-op".into() };
                op = format!("reghex {h} {}", pk_verdict(hex::decode(&s).ok(), 32));
                match RegisterAddress::from_hex(&s) {
                    Ok(a) => {
                        let mut b = a.meta().0.to_vec();
                        b.extend_from_slice(&a.owner().to_bytes());
                        format!("ok {}", hex(&b))
                    }
                    Err(_) => "err".into(),
                }
            }
            ["regfmt", m, o] => {
                let (Some(m), Some(o)) = (unhex(m), unhex(o)) else { return "bad-op".into() };
                let (Ok(m), Ok(o)) = (<[u8; 32]>::try_from(m), <[u8; 48]>::try_from(o)) else { return "bad-op".into() };
                let Ok(pk) = bls::PublicKey::from_bytes(o) else { return "bad-op".into() };
                hex(RegisterAddress::new(XorName(m), pk).to_hex().as_bytes())
            }
            ["scratchhex", h, ..] => {
                let Some(s) = s_of(h) else { return "bad-op".into() };
                op = format!("scratchhex {h} {}", pk_verdict(hex::decode(&s).ok(), 0));
                match ScratchpadAddress::from_hex(&s) {
                    Ok(a) => format!("ok {}", hex(&a.owner().to_bytes())),
                    Err(_) => "err".into(),
                }
            }
            ["scratchfmt", o] => {
                let Some(Ok(o)) = unhex(o).map(<[u8; 48]>::try_from) else { return "bad-op".into() };
                let Ok(pk) = bls::PublicKey::from_bytes(o) else { return "bad-op".into() };
                hex(ScratchpadAddress::new(pk).to_hex().as_bytes())
            }
            ["decrypt", h, pw, ..] => {
                let (Some(s), Some(pw)) = (s_of(h), s_of(pw)) else { return "bad-op".into() };
                op = format!("decrypt {h} {} {}", ws[2], aead_verdict(hex::decode(&s).ok(), pw.as_bytes()));
                match decrypt_private_key(&s, &pw) {
                    Ok(k) => format!("ok {}", hex(k.as_bytes())),
                    Err(_) => "err".into(),
                }
            }
            ["encrypt", k, pw] => {
                let (Some(k), Some(pw)) = (s_of(k), s_of(pw)) else { return "bad-op".into() };
                match encrypt_private_key(&k, &pw) {
                    Ok(e) => format!("ok {}", e.len()),
                    Err(_) => "err".into(),
                }
            }
            ["probe-netaddr", b] => {
                let Some(b) = unhex(b) else { return "bad-op".into() };
                let a = ant_protocol::NetworkAddress::RecordKey(bytes::Bytes::from(b));
                format!("ok {}", hex(format!("{a:?}").as_bytes()))
            }
            ["probe-evmenv", rpc, tok, pay] => {
                let (Some(rpc), Some(tok), Some(pay)) = (s_of(rpc), s_of(tok), s_of(pay)) else { return "bad-op".into() };
                std::env::set_var("RPC_URL", rpc);
                std::env::set_var("PAYMENT_TOKEN_ADDRESS", tok);
                std::env::set_var("DATA_PAYMENTS_ADDRESS", pay);
                match ant_evm::get_evm_network_from_env() {
                    Ok(n) => format!("ok {}", hex(format!("{n:?}").as_bytes())),
                    Err(_) => "err".into(),
                }
            }
            ["hdr", b] => {
                let Some(b) = unhex(b) else { return "bad-op".into() };
                match RecordHeader::from_record(&record(b)) {
                    Ok(h) => format!("ok {}", kind_name(h.kind)),
                    Err(_) => "err".into(),
                }
            }
            ["recdeser", key, b, ..] => {
                let (Some(key), Some(v)) = (unhex(key), unhex(b)) else { return "bad-op".into() };
                let tp = if v.len() > 2 {
                    match rmp_serde::from_slice::<Vec<u8>>(&v[2..]) {
                        Ok(x) => format!("ok:{}", hex(&x)),
                        Err(_) => "err".into(),
                    }
                } else {
                    "na".into()
                };
                op = format!("recdeser {} {b} {tp}", ws[1]);
                match try_deserialize_record::<Vec<u8>>(&record_with_key(&key, v)) {
                    Ok(x) => format!("ok {}", hex(&x)),
                    Err(_) => "err".into(),
                }
            }
            ["craft", ig, h, ..] => {
                let Some(s) = s_of(h) else { return "bad-op".into() };
                let (tp, parsed) = multiaddr_verdict(&s);
                op = format!("craft {ig} {h} {tp}");
                match ant_bootstrap::craft_valid_multiaddr_from_str(&s, *ig == "1") {
                    Some(outa) => {
                        let input: Vec<Protocol> = parsed.as_ref().map(|a| a.iter().collect()).unwrap_or_default();
                        let idx: Vec<String> = outa
                            .iter()
                            .map(|p| input.iter().position(|q| *q == p).map(|i| i.to_string()).unwrap_or_else(|| "?".into()))
                            .collect();
                        format!("some {}", idx.join(","))
                    }
                    None => "none".into(),
                }
            }
            ["leastfaulty", rest @ ..] => {
                let mut v = vec![];
                for (i, a) in rest.iter().enumerate() {
                    let Some((s, f)) = a.split_once(':') else { return "bad-op".into() };
                    let (Ok(s), Ok(f)) = (s.parse::<u32>(), f.parse::<u32>()) else { return "bad-op".into() };
                    v.push(baddr(s, f, i));
                }
                let set = BootstrapAddresses(v);
                match set.get_least_faulty() {
                    Some(a) => format!("some {}", set.0.iter().position(|b| b.addr == a.addr).expect("member")),
                    None => "none".into(),
                }
            }
            ["reliable", s, f] => {
                let (Ok(s), Ok(f)) = (s.parse::<u32>(), f.parse::<u32>()) else { return "bad-op".into() };
                format!("{}", baddr(s, f, 0).is_reliable())
            }
            ["loadcache", k, m, src, rest @ ..] => {
                let (Ok(kk), Ok(mm)) = (k.parse::<usize>(), m.parse::<usize>()) else { return "bad-op".into() };
                let bytes = if *src == "gen" {
                    let Some(desc) = rest.first() else { return "bad-op".into() };
                    let b = render_cache(desc).into_bytes();
                    op = format!("loadcache {k} {m} gen {desc} {}", cache_verdict(&b));
                    b
                } else {
                    let Some(b) = unhex(src) else { return "bad-op".into() };
                    op = format!("loadcache {k} {m} {src} {}", cache_verdict(&b));
                    b
                };
                let path = tmp.join("cache.json");
                std::fs::write(&path, &bytes).expect("write cache file");
                let mut cfg = BootstrapCacheConfig::empty();
                cfg.cache_file_path = path;
                cfg.max_addrs_per_peer = kk;
                cfg.max_peers = mm;
                cfg.addr_expiry_duration = EXPIRY;
                match BootstrapCacheStore::load_cache_data(&cfg) {
                    Ok(d) => format!("ok {}", d.peers.len()),
                    Err(_) => "err".into(),
                }
            }
            other => extra::exec(other, tmp, &mut op).unwrap_or_else(|| "bad-op".into()),
        }
    }));
    let out = r.unwrap_or_else(|_| "panic".into());
    (op, out)
}

// ---------------------------------------------------------------- oracle (model-independent)

fn oracle(line: &str, res: &str, out: &mut Out, tmp: &std::path::Path) {
    let ws: Vec<&str> = line.split_whitespace().collect();
    if res == "panic" {
        let mut what = "the routine panicked (caught by catch_unwind)".to_string();
        if let ["loadcache", _, _, "gen", desc, ..] = ws.as_slice() {
            // show the concrete cache file the op line denotes
            what.push_str(&format!("; cache file: {}", render_cache(desc)));
        }
        out.oracle_fail("no-panic", line, &what);
        return;
    }
    match ws.as_slice() {
        ["regfmt", m, o] => {
            // parsing the formatter's output returns the original value
            let back = exec(&format!("reghex {res}"), tmp).1;
            let want = format!("ok {}{}", m, o);
            if back != want {
                out.oracle_fail("roundtrip", line, &format!("RegisterAddress::from_hex(to_hex(a)) = {back}, expected {want}"));
            }
        }
        ["scratchfmt", o] => {
            let back = exec(&format!("scratchhex {res}"), tmp).1;
            if back != format!("ok {o}") {
                out.oracle_fail("roundtrip", line, &format!("ScratchpadAddress::from_hex(to_hex(a)) = {back}"));
            }
        }
        ["encrypt", k, pw] => {
            if res == "err" {
                out.oracle_fail("roundtrip", line, "encrypt_private_key failed");
                return;
            }
            let (Some(ks), Some(pws)) = (s_of(k), s_of(pw)) else { return };
            let r = catch_unwind(|| encrypt_private_key(&ks, &pws).ok().map(|e| decrypt_private_key(&e, &pws).ok()));
            match r {
                Ok(Some(Some(back))) if back == ks => {}
                Ok(other) => out.oracle_fail("roundtrip", line, &format!("decrypt(encrypt(key)) = {other:?}")),
                Err(_) => out.oracle_fail("no-panic", line, "decrypt(encrypt(key)) panicked"),
            }
        }
        other => extra::oracle(other, res, line, out),
    }
}

// ---------------------------------------------------------------- generators

fn valid_pk(rng: &mut Rng) -> [u8; 48] {
    loop {
        let mut b = [0u8; 32];
        b.copy_from_slice(&rng.bytes(32));
        b[0] &= 0x3f;
        if let Ok(sk) = bls::SecretKey::from_bytes(b) {
            return sk.public_key().to_bytes();
        }
    }
}

/// a hex string of `n` bytes, with case mixing
fn hex_string(rng: &mut Rng, n: usize) -> String {
    let mut s = hex::encode(rng.bytes(n));
    if rng.chance(1, 4) {
        s = s.to_uppercase();
    }
    s
}

fn mutate(rng: &mut Rng, s: &str) -> String {
    let mut c: Vec<char> = s.chars().collect();
    match rng.below(6) {
        0 if !c.is_empty() => {
            let i = rng.below(c.len() as u64) as usize;
            c[i] = *rng.pick(&['g', 'G', ' ', '-', 'é', '0', 'f', 'x', '\n', '٣', 'F', '/']);
        }
        1 if !c.is_empty() => {
            let i = rng.below(c.len() as u64) as usize;
            c.remove(i);
        }
        2 => {
            let i = rng.below(c.len() as u64 + 1) as usize;
            c.insert(i, *rng.pick(&['0', 'a', 'z', ' ']));
        }
        3 => c.truncate(rng.below(c.len() as u64 + 1) as usize),
        4 => c.push(*rng.pick(&['0', '1', 'f'])),
        _ => c.extend(['0', '0']),
    }
    c.into_iter().collect()
}

/// lengths 0 .. expected+2 in bytes, then in hex characters (odd lengths), then far too long
fn length_sweep(expected: usize) -> Vec<usize> {
    (0..=expected + 2).collect()
}

fn hx(s: &str) -> String {
    hex(s.as_bytes())
}

fn multiaddr_string(rng: &mut Rng) -> String {
    let id = peer_id(rng.below(5));
    let parts = [
        format!("/ip4/{}.{}.0.1", rng.below(256), rng.below(256)),
        "/ip6/::1".to_string(),
        format!("/udp/{}", rng.below(65536)),
        format!("/tcp/{}", rng.below(65536)),
        "/quic-v1".to_string(),
        "/ws".to_string(),
        format!("/p2p/{id}"),
        "/dns/example.com".to_string(),
        "/p2p-circuit".to_string(),
    ];
    let mut s = String::new();
    if rng.chance(3, 4) {
        // mostly the shapes the network uses
        s.push_str(&parts[0]);
        if rng.chance(2, 3) {
            s.push_str(&parts[2]);
            if rng.chance(3, 4) { s.push_str(&parts[4]); }
        } else {
            s.push_str(&parts[3]);
            if rng.chance(1, 2) { s.push_str(&parts[5]); }
        }
        if rng.chance(3, 4) { s.push_str(&parts[6]); }
    }
    for _ in 0..rng.below(3) {
        let p = rng.pick(&parts).clone();
        if rng.chance(1, 2) { s.push_str(&p) } else { s = format!("{p}{s}") }
    }
    s
}

fn counter(rng: &mut Rng) -> u32 {
    match rng.below(6) {
        0 => 0,
        1 => 1,
        2 => u32::MAX,
        3 => u32::MAX - 1,
        4 => (u32::MAX / 2) + rng.below(3) as u32,
        _ => rng.below(10) as u32,
    }
}

/// boundary values of a stored `SystemTime`: epoch, around now, far future, around i64::MAX minus the expiry
/// durations in use (3600 s in this harness, 86400 s by default), beyond i64::MAX (serde rejects), nanos carry
const TS_EDGES: &[&str] = &[
    "0n0", "1n0", "0n999999999", "0n1000000000", "0n4294967295", "now-1", "now", "now+2", "old", "fut", "253402300800n0",
    "9223372036854689406n0", "9223372036854689407n0", "9223372036854689408n0",
    "9223372036854772206n0", "9223372036854772207n0", "9223372036854772208n0",
    "9223372036854775806n0", "9223372036854775807n0", "9223372036854775807n999999999", "9223372036854775807n1000000000",
    "9223372036854775808n0", "18446744073709551615n0", "18446744073709551615n999999999", "18446744073709551615n1000000000",
    "18446744073709551616n0", "-1n0", "0n-1", "0n4294967296", "1.5n0",
];

fn cache_abs(rng: &mut Rng) -> String {
    let np = rng.below(5);
    if np == 0 {
        return "nopeers".into();
    }
    let mut peers = vec![];
    for _ in 0..np {
        let na = rng.below(5);
        if na == 0 {
            peers.push("e".to_string());
            continue;
        }
        let hot = rng.chance(1, 3);
        let addrs: Vec<String> = (0..na)
            .map(|_| {
                let (s, f) = if hot { (u32::MAX - rng.below(2) as u32, 1 + rng.below(2) as u32) } else { (counter(rng), counter(rng)) };
                let ts = match rng.below(8) {
                    0 | 1 => "1".to_string(),
                    2 => rng.pick(TS_EDGES).to_string(),
                    _ => "0".to_string(),
                };
                format!("{s}:{f}:{ts}")
            })
            .collect();
        peers.push(addrs.join(","));
    }
    peers.sort();
    peers.join("|")
}

/// record keys of length 0, 1, 2, 3, 31, 32, 33 (some not UTF-8)
const RECORD_KEYS: &[&str] = &[
    "-", "00", "ff", "41", "0000", "fffe", "c328", "010203", "ffffff", "e282ac",
    "00000000000000000000000000000000000000000000000000000000000000",
    "ffffffffffffffffffffffffffffffffffffffffffffffffffffffffffffffff",
    "8182838485868788898a8b8c8d8e8f909192939495969798999a9b9c9d9e9fa0a1",
];

fn corpus(v: &mut Vec<String>, rng: &mut Rng) {
    // past minimal failures first
    v.push("reghex - na".into()); // RegisterAddress::from_hex("") panicked before the fix
    v.push(format!("reghex {} na", hx("00")));
    v.push(format!("reghex {} na", hx(&"ab".repeat(31))));
    v.push(format!("decrypt - {} na", hx("pw")));
    v.push(format!("decrypt {} {} na", hx(&"00".repeat(7)), hx("pw")));
    v.push(format!("decrypt {} {} na", hx(&"00".repeat(19)), hx("pw")));
    v.push(format!("leastfaulty {}:1", u32::MAX));
    v.push(format!("leastfaulty 1:1 {}:1 0:0", u32::MAX));
    v.push(format!("loadcache 1 10 gen {m}:1:0,{m}:1:0,{m}:1:0", m = u32::MAX));
    // stored timestamps at the edges of what SystemTime holds (any arithmetic on last_seen overflows near i64::MAX)
    for ts in TS_EDGES {
        v.push(format!("loadcache 1 10 gen 1:0:{ts}"));
    }
    v.push(format!("loadcache 1 10 gen u{}n0/1:0:now", i64::MAX));
    v.push(format!("loadcache 0 0 gen 1:0:{m}n999999999,1:0:{m}n0|2:1:{m}n0", m = i64::MAX));
    v.push("hdr -".into());
    v.push("hdr 91".into());
    v.push("hdr 9101".into());
    v.push("recdeser 010203 9101 na".into());
    // the error path of try_deserialize_record logs the record key: keys of every short length (incl. empty,
    // non-UTF-8) with a valid header followed by an undecodable / truncated / valid body
    for key in RECORD_KEYS {
        for body in ["9101c1", "9101c4050102", "9101c402aabb", "9101", "9101ff"] {
            v.push(format!("recdeser {key} {body} x"));
        }
    }
    // a valid ciphertext of a plaintext that is not UTF-8 (expect() on from_utf8 panicked before the fix)
    let salt = [7u8; SALT];
    let nonce = [9u8; NONCE];
    v.push(format!("decrypt {} {} x", hx(&seal_frame(&salt, &nonce, b"pw", &[0xff, 0xfe, 0x80])), hx("pw")));
    v.push(format!("decrypt {} {} x", hx(&seal_frame(&salt, &nonce, b"pw", b"")), hx("pw")));
    let _ = rng;
}

fn generate(n: u64, rng: &mut Rng) -> Vec<String> {
    let mut v = vec![];
    corpus(&mut v, rng);
    // every length up to the expected one + 2 (bytes), and the odd character counts around it
    for len in length_sweep(80) {
        v.push(format!("reghex {} x", hx(&hex_string(rng, len))));
    }
    for len in length_sweep(48) {
        v.push(format!("scratchhex {} x", hx(&hex_string(rng, len))));
    }
    for len in length_sweep(20) {
        v.push(format!("decrypt {} {} x", hx(&hex_string(rng, len)), hx("pw")));
    }
    // "long non-ASCII" family on every &str parser: unparsable text with a multi-byte char at every byte offset
    // (contacts lines and ANT_PEERS items reach craft_valid_multiaddr_from_str with arbitrary text, e.g. an HTML error page)
    v.push(format!("craft 0 {} x", hx(&format!("<html><head><title>503 Dienst nicht verfügbar</title></head><body>{}ü</body></html>", "x".repeat(2)))));
    for (i, t) in non_ascii_sweep('x', 200).into_iter().enumerate() {
        v.push(format!("craft {} {} x", i % 2, hx(&t)));
    }
    for t in non_ascii_sweep('a', 200) {
        v.push(format!("reghex {} x", hx(&t)));
        v.push(format!("scratchhex {} x", hx(&t)));
        v.push(format!("decrypt {} {} x", hx(&t), hx("pw")));
    }
    for (i, t) in non_ascii_sweep('1', 80).into_iter().enumerate() {
        // the same family inside otherwise well-formed text
        let id = peer_id((i % 5) as u64);
        v.push(format!("craft 0 {} x", hx(&format!("/ip4/10.0.0.1/udp/{t}/quic-v1/p2p/{id}"))));
        v.push(format!("craft 1 {} x", hx(&format!("/dns/{t}/tcp/80"))));
    }
    for len in 0..=5 {
        for first in [0x91u8, 0x81, 0x92, 0x00] {
            let mut b = rng.bytes(len);
            if len > 0 { b[0] = first; }
            if len > 1 { b[1] = *rng.pick(&[0u8, 1, 7, 8, 0xcc, 0xcd, 0xd0, 0x7f, 0xff]); }
            v.push(format!("hdr {}", hex(&b)));
            v.push(format!("recdeser {} {} x", rng.pick(RECORD_KEYS), hex(&b)));
        }
    }
    if n >= 100_000 {
        // thorough tier: every (b0, b1) of the 3-byte header window, with boundary third bytes
        for b0 in 0..=255u8 {
            for b1 in 0..=255u8 {
                for b2 in [0u8, 7, 8, 0xff] {
                    v.push(format!("hdr {}", hex(&[b0, b1, b2])));
                }
            }
        }
    }
    let mut kdf_budget: u64 = 40 + n / 500; // decrypt ops that reach PBKDF2 (100k rounds) are expensive
    for _ in 0..n {
        match rng.below(20) {
            0 | 1 => {
                // formatter output, then single-character mutations of it
                let m = rng.bytes(32);
                let o = valid_pk(rng);
                v.push(format!("regfmt {} {}", hex(&m), hex(&o)));
                let mut all = m.clone();
                all.extend_from_slice(&o);
                let good = hex::encode(&all);
                v.push(format!("reghex {} x", hx(&good)));
                for _ in 0..3 {
                    v.push(format!("reghex {} x", hx(&mutate(rng, &good))));
                }
            }
            2 => {
                // right length, random owner bytes (almost never a curve point), or short/long
                let len = *rng.pick(&[0usize, 1, 31, 32, 33, 47, 48, 79, 80, 80, 80, 81, 82, 128]);
                let mut s = hex_string(rng, len);
                if rng.chance(1, 4) { s.pop(); }
                v.push(format!("reghex {} x", hx(&s)));
            }
            3 | 4 => {
                let o = valid_pk(rng);
                v.push(format!("scratchfmt {}", hex(&o)));
                let good = hex::encode(o);
                v.push(format!("scratchhex {} x", hx(&good)));
                v.push(format!("scratchhex {} x", hx(&mutate(rng, &good))));
                let len = *rng.pick(&[0usize, 1, 46, 47, 48, 48, 49, 50, 96]);
                v.push(format!("scratchhex {} x", hx(&hex_string(rng, len))));
            }
            5 | 6 => {
                // framing around the AEAD: short inputs never reach the KDF
                let len = *rng.pick(&[0usize, 1, 7, 8, 9, 11, 12, 18, 19, 19, 19]);
                let mut s = hex_string(rng, len);
                if rng.chance(1, 3) { s = mutate(rng, &s); }
                v.push(format!("decrypt {} {} x", hx(&s), hx("pässword")));
            }
            7 => {
                if kdf_budget == 0 { continue; }
                kdf_budget -= 1;
                let pw = *rng.pick(&["pw", "", "pässword"]);
                let salt: [u8; SALT] = rng.bytes(SALT).try_into().expect("salt");
                let nonce: [u8; NONCE] = rng.bytes(NONCE).try_into().expect("nonce");
                match rng.below(6) {
                    0 => {
                        // encrypt/decrypt round trip on the real code
                        let kl = *rng.pick(&[0usize, 1, 32, 33]);
                        let k = hex::encode(rng.bytes(kl));
                        v.push(format!("encrypt {} {}", hx(&k), hx(pw)));
                    }
                    1 => {
                        // a well-formed frame whose plaintext is not UTF-8
                        let pl = 1 + rng.below(6) as usize;
                        let mut p = rng.bytes(pl);
                        p[0] = 0xff;
                        v.push(format!("decrypt {} {} x", hx(&seal_frame(&salt, &nonce, pw.as_bytes(), &p)), hx(pw)));
                    }
                    2 => {
                        let pl = rng.below(40) as usize;
                        let p = hex::encode(rng.bytes(pl));
                        v.push(format!("decrypt {} {} x", hx(&seal_frame(&salt, &nonce, pw.as_bytes(), p.as_bytes())), hx(pw)));
                    }
                    3 => {
                        let p = hex::encode(rng.bytes(32));
                        let good = seal_frame(&salt, &nonce, pw.as_bytes(), p.as_bytes());
                        v.push(format!("decrypt {} {} x", hx(&mutate(rng, &good)), hx(pw)));
                    }
                    4 => {
                        let p = hex::encode(rng.bytes(32));
                        v.push(format!("decrypt {} {} x", hx(&seal_frame(&salt, &nonce, pw.as_bytes(), p.as_bytes())), hx("wrong")));
                    }
                    _ => {
                        let len = *rng.pick(&[20usize, 21, 22, 35, 36, 37]);
                        v.push(format!("decrypt {} {} x", hx(&hex_string(rng, len)), hx(pw)));
                    }
                }
            }
            8 | 9 | 10 => {
                // record header window: array/map markers, every integer encoding, lengths around SIZE+1
                let len = *rng.pick(&[0usize, 1, 2, 2, 3, 3, 3, 4, 5, 9]);
                let mut b = rng.bytes(len);
                if len > 0 && rng.chance(5, 6) { b[0] = *rng.pick(&[0x91u8, 0x91, 0x91, 0x81, 0x90, 0x92, 0xdc, 0xc0]); }
                if len > 1 && rng.chance(4, 5) {
                    b[1] = *rng.pick(&[0u8, 1, 2, 3, 4, 5, 6, 7, 8, 0x7f, 0x80, 0xcc, 0xcd, 0xce, 0xcf, 0xd0, 0xd1, 0xd2, 0xd3, 0xe0, 0xff, 0xc0, 0xc2, 0xa0, 0xca, 0xcb, 0xc4]);
                }
                if len > 2 && rng.chance(1, 2) { b[2] = *rng.pick(&[0u8, 1, 7, 8, 0x7f, 0x80, 0xff]); }
                if rng.chance(2, 3) {
                    v.push(format!("hdr {}", hex(&b)));
                } else {
                    // after the 2-byte prefix: msgpack bin / array of u8 / garbage
                    if rng.chance(1, 2) && b.len() >= 2 {
                        let pl = rng.below(6) as usize;
                        let payload = rng.bytes(pl);
                        b.truncate(2);
                        b.push(0xc4);
                        b.push(payload.len() as u8);
                        b.extend_from_slice(&payload);
                        if rng.chance(1, 4) { b.pop(); }
                    }
                    let key = if rng.chance(1, 2) {
                        rng.pick(RECORD_KEYS).to_string()
                    } else {
                        let kl = *rng.pick(&[0usize, 1, 2, 3, 4, 31, 32, 33, 64]);
                        hex(&rng.bytes(kl))
                    };
                    v.push(format!("recdeser {key} {} x", hex(&b)));
                }
            }
            11 | 12 | 13 => {
                let mut s = multiaddr_string(rng);
                if rng.chance(1, 5) { s = mutate(rng, &s); }
                v.push(format!("craft {} {} x", rng.below(2), hx(&s)));
            }
            14 | 15 => {
                let k = rng.below(5);
                let hot = rng.chance(1, 3);
                let items: Vec<String> = (0..k)
                    .map(|_| if hot { format!("{}:{}", u32::MAX - rng.below(2) as u32, rng.below(3)) } else { format!("{}:{}", counter(rng), counter(rng)) })
                    .collect();
                v.push(format!("leastfaulty {}", items.join(" ")).trim_end().to_string());
            }
            16 => v.push(format!("reliable {} {}", counter(rng), counter(rng))),
            17 | 18 => {
                let k = rng.below(4);
                let m = rng.below(4);
                let upd = if rng.chance(1, 6) { format!("u{}/", rng.pick(TS_EDGES)) } else { String::new() };
                v.push(format!("loadcache {k} {m} gen {upd}{}", cache_abs(rng)));
            }
            _ => {
                // cache file as raw bytes: truncated / mutated JSON, non-UTF-8, empty
                let good = render_cache(&cache_abs(rng));
                let bytes: Vec<u8> = match rng.below(6) {
                    0 => vec![],
                    1 => { let gl = rng.below(12) as usize; rng.bytes(gl) }
                    2 => good.as_bytes()[..rng.below(good.len() as u64) as usize].to_vec(),
                    3 => { let mut b = good.into_bytes(); let i = rng.below(b.len() as u64) as usize; b[i] = 0xff; b }
                    4 => good.replace("\"success_count\":", "\"success_count\":4294967296").into_bytes(),
                    _ => mutate(rng, &good).into_bytes(),
                };
                v.push(format!("loadcache 1 2 {} x", hex(&bytes)));
            }
        }
    }
    v.extend(extra::generate(rng, n));
    v
}

/// Install a TRACE-level subscriber that really formats every event (into a sink), so that the
/// `Display`/`Debug` impls reached from the parsers' log statements are executed under `catch_unwind`.
/// "Long non-ASCII" family: strings of `fill` with one 2-, 3- or 4-byte char starting at every byte
/// offset 0..=max, once near the end of the string and once followed by padding up to `max` bytes
/// (slicing a &str at a fixed byte offset is the typical slip; it only fails inside such a char).
fn non_ascii_sweep(fill: char, max: usize) -> Vec<String> {
    let mut v = vec![];
    for off in 0..=max {
        for ch in ['é', '€', '😀'] {
            let head: String = std::iter::repeat(fill).take(off).collect();
            v.push(format!("{head}{ch}{fill}"));
            let used = off + ch.len_utf8();
            if used + 1 < max {
                let tail: String = std::iter::repeat(fill).take(max - used).collect();
                v.push(format!("{head}{ch}{tail}"));
            }
        }
    }
    v
}

fn install_formatting_subscriber() {
    let _ = tracing_subscriber::fmt()
        .with_max_level(tracing::Level::TRACE)
        .with_writer(std::io::sink)
        .try_init();
}

fn main() {
    let args = &common::parse_args();
    let mut out = Out::new(&args.out);
    std::panic::set_hook(Box::new(|_| {}));
    install_formatting_subscriber();
    let tmp = tempfile::tempdir().expect("tempdir");
    // dirs_next::data_dir(): the local EVM testnet CSV file is looked up under the scratch directory
    std::env::set_var("XDG_DATA_HOME", tmp.path().join("data"));
    let lines: Vec<String> = if let Some(p) = &args.replay {
        common::read_lines(p)
    } else {
        let mut rng = Rng::new(args.seed);
        generate(args.n, &mut rng)
    };
    for l in &lines {
        let (op, r) = exec(l, tmp.path());
        oracle(&op, &r, &mut out, tmp.path());
        let name = op.split_whitespace().next().unwrap_or("").to_string();
        let class = if r.starts_with("ok") || r.starts_with("some") { "ok" } else if r == "err" || r == "none" || r == "panic" || r == "bad-op" { r.as_str() } else { "value" };
        out.count(&format!("{name}:{class}"));
        out.nontrivial_case(&op);
        out.line(op, r);
    }
    out.finish();
}
