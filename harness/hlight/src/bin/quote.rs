//! C13: PaymentQuote / ProofOfPayment — real code (ant-evm, real ed25519 libp2p keys) vs. the Lean model.
//!
//! A quote's signed fields are ten tokens
//!   F = content(hex32) secs nanos closeRecords maxRecords paid liveTime density(hex32|N) size(dec|N) rewards(hex20)
//! Ops (inputs only; identities are small integers):
//!   bytes F                                               -> hex of PaymentQuote::bytes_for_signing
//!   verify <claimed> <pubkey> <signer> F_signed F_presented -> true|false   (check_is_signed_by_claimed_peer)
//!   pair <pubkey> <signer> F_signed F_1 F_2               -> <verify 1> <verify 2> <hash 1 == hash 2>
//!   proof <self> <n> (<enc> <pubkey> <signer> F_signed F_presented)*n -> <verify_for> payees=<..> byself=<k>
//!   exp <offset ns> | pexp <offset ns>...                 -> true|false    (timestamp = now + offset; has_expired)
//!   hist <offA> <liveA> <paidA> <offB> <liveB> <paidB>    -> <A.historical_verify(B)> <A.is_newer_than(B)>
//!   kpair <pubkey 1> <pubkey 2> <signer> F                -> <verify 1> <verify 2> <hash 1 == hash 2>   (claimed = the peer of pubkey 1)
//! Tokens: K<i> protobuf of key i, P<i> its PeerId, X<r> an unrelated PeerId, G<n> undecodable bytes,
//!         S<j> signature by key j over bytes_for_signing(F_signed),
//!         N<i> key i's protobuf followed by an unknown field (`18 00`): not canonical, decodes to the same key,
//!         W0 as a key: the small-order point `01 00*31` (the curve's neutral element), Q0 its PeerId;
//!         W0 as a signature: `01 00*31 ‖ 00*32`, which ed25519 verification (non-strict) accepts under W0 for every message.
//! The code reads the clock itself: offsets are generated half a second inside each class (and the op is
//! retried if the call took unusually long), so the verdict cannot depend on the harness's clock reading.
use ant_evm::{EncodedPeerId, PaymentQuote, ProofOfPayment, QuotingMetrics, RewardsAddress};
use common::{hex, unhex, Out, Rng};
use libp2p::identity::Keypair;
use libp2p::PeerId;
use std::collections::HashMap;
use std::panic::{catch_unwind, AssertUnwindSafe};
use std::time::{Duration, SystemTime};
use xor_name::XorName;

const NKEYS: u64 = 4;
const S: i128 = 1_000_000_000;

fn keypair(i: u64) -> Keypair {
    let mut b = [0u8; 32];
    for (k, x) in b.iter_mut().enumerate() {
        *x = (i as u8).wrapping_mul(31).wrapping_add(k as u8).wrapping_add(1);
    }
    Keypair::ed25519_from_bytes(b).expect("ed25519 key")
}
fn peer_p(i: u64) -> PeerId {
    keypair(i).public().to_peer_id()
}
fn peer_x(r: u64) -> PeerId {
    keypair(1000 + r).public().to_peer_id()
}

#[derive(Clone, PartialEq, Debug)]
struct F {
    content: [u8; 32],
    secs: u64,
    nanos: u32,
    crs: u64,
    max: u64,
    paid: u64,
    live: u64,
    density: Option<[u8; 32]>,
    size: Option<u64>,
    rewards: [u8; 20],
}

impl F {
    fn tokens(&self) -> String {
        format!(
            "{} {} {} {} {} {} {} {} {} {}",
            hex(&self.content),
            self.secs,
            self.nanos,
            self.crs,
            self.max,
            self.paid,
            self.live,
            self.density.map(|d| hex(&d)).unwrap_or_else(|| "N".into()),
            self.size.map(|d| d.to_string()).unwrap_or_else(|| "N".into()),
            hex(&self.rewards)
        )
    }
    fn parse(ws: &[&str]) -> Option<(F, usize)> {
        if ws.len() < 10 {
            return None;
        }
        let arr32 = |s: &str| -> Option<[u8; 32]> { unhex(s)?.try_into().ok() };
        Some((
            F {
                content: arr32(ws[0])?,
                secs: ws[1].parse().ok()?,
                nanos: ws[2].parse().ok()?,
                crs: ws[3].parse().ok()?,
                max: ws[4].parse().ok()?,
                paid: ws[5].parse().ok()?,
                live: ws[6].parse().ok()?,
                density: if ws[7] == "N" { None } else { Some(arr32(ws[7])?) },
                size: if ws[8] == "N" { None } else { Some(ws[8].parse().ok()?) },
                rewards: unhex(ws[9])?.try_into().ok()?,
            },
            10,
        ))
    }
    fn metrics(&self) -> QuotingMetrics {
        QuotingMetrics {
            close_records_stored: self.crs as usize,
            max_records: self.max as usize,
            received_payment_count: self.paid as usize,
            live_time: self.live,
            network_density: self.density,
            network_size: self.size,
        }
    }
    fn time(&self) -> SystemTime {
        SystemTime::UNIX_EPOCH + Duration::new(self.secs, self.nanos)
    }
    fn signing_bytes(&self) -> Vec<u8> {
        PaymentQuote::bytes_for_signing(XorName(self.content), self.time(), &self.metrics(), &RewardsAddress::from(self.rewards))
    }
    fn quote(&self, pub_key: Vec<u8>, signature: Vec<u8>) -> PaymentQuote {
        PaymentQuote {
            content: XorName(self.content),
            timestamp: self.time(),
            quoting_metrics: self.metrics(),
            rewards_address: RewardsAddress::from(self.rewards),
            pub_key,
            signature,
        }
    }
    /// equal in every signed field, the sub-second part of the timestamp included
    fn same_signed_fields(&self, o: &F) -> bool {
        self == o
    }
    fn differs_only_subsecond(&self, o: &F) -> bool {
        self.nanos != o.nanos && F { nanos: o.nanos, ..self.clone() } == *o
    }
}

fn tag(s: &str, c: char) -> Option<u64> {
    s.strip_prefix(c)?.parse().ok()
}
fn garbage(n: u64, len: usize) -> Vec<u8> {
    if n == 0 {
        return vec![];
    }
    let mut r = Rng::new(0xBAD0 + n);
    r.bytes(len)
}
/// protobuf of the ed25519 "key" that is the neutral element of the curve (`01 00*31`): a small-order point, accepted by
/// libp2p-identity as a public key; under it `(R, S) = (neutral, 0)` satisfies the verification equation for EVERY message
fn weak_key() -> Vec<u8> {
    let mut v = vec![0x08, 0x01, 0x12, 0x20, 0x01];
    v.extend_from_slice(&[0u8; 31]);
    v
}
fn weak_sig() -> Vec<u8> {
    let mut v = vec![0x01];
    v.extend_from_slice(&[0u8; 63]);
    v
}
fn weak_peer() -> Option<PeerId> {
    libp2p::identity::PublicKey::try_decode_protobuf(&weak_key()).ok().map(|k| k.to_peer_id())
}
fn peer_tok(s: &str) -> Option<PeerId> {
    if s == "Q0" {
        return weak_peer();
    }
    tag(s, 'P').map(peer_p).or_else(|| tag(s, 'X').map(peer_x))
}
fn key_tok(s: &str) -> Option<Vec<u8>> {
    if let Some(i) = tag(s, 'K') {
        return Some(keypair(i).public().encode_protobuf());
    }
    if let Some(i) = tag(s, 'N') {
        // non-canonical but decodable: the canonical protobuf followed by an unknown field (number 3, varint 0)
        let mut v = keypair(i).public().encode_protobuf();
        v.extend_from_slice(&[0x18, 0x00]);
        return Some(v);
    }
    if s == "W0" {
        return Some(weak_key());
    }
    let n = tag(s, 'G')?;
    Some(if n == 2 {
        let mut v = keypair(0).public().encode_protobuf();
        v.pop();
        v
    } else {
        garbage(n, 36)
    })
}
fn enc_tok(s: &str) -> Option<EncodedPeerId> {
    // EncodedPeerId's field is private: build it from a PeerId, or (undecodable) through its serde form
    if let Some(p) = peer_tok(s) {
        return Some(EncodedPeerId::from(p));
    }
    let n = tag(s, 'G')?;
    let bytes = garbage(n, 20);
    let packed = rmp_serde::to_vec(&bytes).ok()?;
    rmp_serde::from_slice::<EncodedPeerId>(&packed).ok()
}
fn sig_tok(s: &str, signed: &F) -> Option<Vec<u8>> {
    if let Some(j) = tag(s, 'S') {
        return keypair(j).sign(&signed.signing_bytes()).ok();
    }
    if s == "W0" {
        return Some(weak_sig());
    }
    let n = tag(s, 'G')?;
    Some(if n == 2 {
        let mut v = keypair(0).sign(&signed.signing_bytes()).ok()?;
        v[5] ^= 0x10;
        v
    } else {
        garbage(n, 64)
    })
}
fn peer_show(p: &PeerId) -> String {
    if Some(*p) == weak_peer() {
        return "Q0".into();
    }
    for i in 0..NKEYS + 2 {
        if *p == peer_p(i) {
            return format!("P{i}");
        }
    }
    for r in 0..8 {
        if *p == peer_x(r) {
            return format!("X{r}");
        }
    }
    "?".into()
}

fn at_offset(now: SystemTime, off: i128) -> SystemTime {
    if off >= 0 {
        now + Duration::from_nanos(off as u64)
    } else {
        now - Duration::from_nanos((-off) as u64)
    }
}

/// run `f(now)`; retry when the call was slow enough that the code's own clock reading may have left the class
fn with_clock<T>(f: impl Fn(SystemTime) -> T) -> T {
    let mut last = None;
    for _ in 0..8 {
        let now = SystemTime::now();
        let r = f(now);
        let took = now.elapsed().unwrap_or(Duration::from_secs(9));
        last = Some(r);
        if took < Duration::from_millis(150) {
            break;
        }
    }
    last.unwrap()
}

struct Entry {
    enc_tok: String,
    key_tok: String,
    sig_tok: String,
    fs: F,
    fp: F,
}

fn parse_entry(ws: &[&str]) -> Option<(Entry, usize)> {
    if ws.len() < 23 {
        return None;
    }
    let (fs, _) = F::parse(&ws[3..])?;
    let (fp, _) = F::parse(&ws[13..])?;
    Some((Entry { enc_tok: ws[0].into(), key_tok: ws[1].into(), sig_tok: ws[2].into(), fs, fp }, 23))
}

fn exec(line: &str) -> String {
    let ws: Vec<&str> = line.split_whitespace().collect();
    let r = catch_unwind(AssertUnwindSafe(|| -> Option<String> {
        match ws[0] {
            "bytes" => {
                let (f, _) = F::parse(&ws[1..])?;
                Some(hex(&f.signing_bytes()))
            }
            "verify" => {
                let claimed = peer_tok(ws[1])?;
                let (fs, _) = F::parse(&ws[4..])?;
                let (fp, _) = F::parse(&ws[14..])?;
                let q = fp.quote(key_tok(ws[2])?, sig_tok(ws[3], &fs)?);
                Some(q.check_is_signed_by_claimed_peer(claimed).to_string())
            }
            "pair" => {
                let (fs, _) = F::parse(&ws[3..])?;
                let (f1, _) = F::parse(&ws[13..])?;
                let (f2, _) = F::parse(&ws[23..])?;
                let key = key_tok(ws[1])?;
                let sig = sig_tok(ws[2], &fs)?;
                let claimed = tag(ws[1], 'K').map(peer_p).unwrap_or_else(|| peer_p(0));
                let q1 = f1.quote(key.clone(), sig.clone());
                let q2 = f2.quote(key, sig);
                Some(format!(
                    "{} {} {}",
                    q1.check_is_signed_by_claimed_peer(claimed),
                    q2.check_is_signed_by_claimed_peer(claimed),
                    q1.hash() == q2.hash()
                ))
            }
            "kpair" => {
                // one signature, one set of fields, two encodings of the key
                let (f, _) = F::parse(&ws[4..])?;
                let sig = sig_tok(ws[3], &f)?;
                let claimed = tag(ws[1], 'K').or_else(|| tag(ws[1], 'N')).map(peer_p).unwrap_or_else(|| peer_p(0));
                let q1 = f.quote(key_tok(ws[1])?, sig.clone());
                let q2 = f.quote(key_tok(ws[2])?, sig);
                Some(format!(
                    "{} {} {}",
                    q1.check_is_signed_by_claimed_peer(claimed),
                    q2.check_is_signed_by_claimed_peer(claimed),
                    q1.hash() == q2.hash()
                ))
            }
            "qhash" => {
                // PaymentQuote::hash on a quote with arbitrary key / signature bytes
                let pk = if ws[1] == "-" { vec![] } else { common::unhex(ws[1])? };
                let sg = if ws[2] == "-" { vec![] } else { common::unhex(ws[2])? };
                let (f, _) = F::parse(&ws[3..])?;
                Some(common::hex(f.quote(pk, sg).hash().as_slice()))
            }
            "proof" => {
                let me = peer_tok(ws[1])?;
                let n: usize = ws[2].parse().ok()?;
                let mut i = 3;
                let mut peer_quotes = vec![];
                for _ in 0..n {
                    let (e, used) = parse_entry(&ws[i..])?;
                    i += used;
                    let q = e.fp.quote(key_tok(&e.key_tok)?, sig_tok(&e.sig_tok, &e.fs)?);
                    peer_quotes.push((enc_tok(&e.enc_tok)?, q));
                }
                let proof = ProofOfPayment { peer_quotes };
                let payees: Vec<String> = proof.payees().iter().map(peer_show).collect();
                Some(format!(
                    "{} payees={} byself={}",
                    proof.verify_for(me),
                    if payees.is_empty() { "-".into() } else { payees.join(",") },
                    proof.quotes_by_peer(&me).len()
                ))
            }
            "exp" => {
                let off: i128 = ws[1].parse().ok()?;
                Some(with_clock(|now| {
                    let mut q = PaymentQuote::zero();
                    q.timestamp = at_offset(now, off);
                    q.has_expired()
                }).to_string())
            }
            "pexp" => {
                let offs: Option<Vec<i128>> = ws[1..].iter().map(|w| w.parse().ok()).collect();
                let offs = offs?;
                Some(with_clock(|now| {
                    let peer_quotes = offs
                        .iter()
                        .map(|o| {
                            let mut q = PaymentQuote::zero();
                            q.timestamp = at_offset(now, *o);
                            (EncodedPeerId::from(peer_p(0)), q)
                        })
                        .collect();
                    ProofOfPayment { peer_quotes }.has_expired()
                }).to_string())
            }
            "hist" => {
                let v: Option<Vec<i128>> = ws[1..].iter().map(|w| w.parse().ok()).collect();
                let v = v?;
                if v.len() != 6 {
                    return None;
                }
                Some(with_clock(|now| {
                    let mk = |off: i128, live: i128, paid: i128| {
                        let mut q = PaymentQuote::zero();
                        q.timestamp = at_offset(now, off);
                        q.quoting_metrics.live_time = live as u64;
                        q.quoting_metrics.received_payment_count = paid as usize;
                        q
                    };
                    let a = mk(v[0], v[1], v[2]);
                    let b = mk(v[3], v[4], v[5]);
                    format!("{} {}", a.historical_verify(&b), a.is_newer_than(&b))
                }))
            }
            _ => None,
        }
    }));
    match r {
        Ok(Some(s)) => s,
        Ok(None) => "bad-op".into(),
        Err(_) => "panic".into(),
    }
}

/// The property stated directly on the observable behaviour of the real code.
fn oracle(line: &str, res: &str, out: &mut Out, seen: &mut HashMap<String, F>) {
    let ws: Vec<&str> = line.split_whitespace().collect();
    if res == "panic" {
        out.oracle_fail("no-panic", line, "implementation panicked");
        return;
    }
    let entry_valid = |claimed: &str, key: &str, signer: &str, fs: &F, fp: &F| -> Option<bool> {
        if fs.differs_only_subsecond(fp) {
            return None; // known finding K-i: outside the hypothesis of the partial theorem
        }
        if key == "W0" && signer == "W0" {
            return None; // known finding K-w: the scheme is ideal for prime-order keys only
        }
        // a non-canonical encoding is still that key (the text's "altering the key" is up to decoding)
        let k = tag(key, 'K').or_else(|| tag(key, 'N'));
        Some(k.is_some() && tag(claimed, 'P') == k && tag(signer, 'S') == k && fs.same_signed_fields(fp))
    };
    match ws[0] {
        "bytes" => {
            // distinct signed fields (whole seconds) must give distinct signing bytes
            if let Some((f, _)) = F::parse(&ws[1..]) {
                let key = F { nanos: 0, ..f.clone() };
                if let Some(prev) = seen.get(res) {
                    if *prev != key {
                        out.oracle_fail("signed-bytes-bind-every-field", line, &format!("same signing bytes as a quote with other fields: {}", prev.tokens()));
                    }
                } else {
                    seen.insert(res.to_string(), key);
                }
            }
        }
        "verify" => {
            let (Some((fs, _)), Some((fp, _))) = (F::parse(&ws[4..]), F::parse(&ws[14..])) else { return };
            match entry_valid(ws[1], ws[2], ws[3], &fs, &fp) {
                None if ws[2] == "W0" && !fs.differs_only_subsecond(&fp) => {
                    out.count("oracle-skipped:K-w-weak-key");
                    if ws[1] == "Q0" && res == "true" && !fs.same_signed_fields(&fp) {
                        out.count("weak-key:verifies-with-altered-fields");
                    }
                }
                None => out.count("oracle-skipped:K-i-subsecond"),
                Some(want) => {
                    if res != want.to_string() {
                        out.oracle_fail(
                            "verify-iff-own-key-and-signature-over-own-fields",
                            line,
                            &format!("check_is_signed_by_claimed_peer = {res}, but key/claimed identity/signer/fields {} match", if want { "all" } else { "do not all" }),
                        );
                    }
                }
            }
        }
        "proof" => {
            let n: usize = ws[2].parse().unwrap_or(0);
            let mut i = 3;
            let mut all_ok = true;
            let mut payees = vec![];
            let mut byself = 0;
            let mut skip = false;
            let mut skip_weak = false;
            for _ in 0..n {
                let Some((e, used)) = parse_entry(&ws[i..]) else { return };
                i += used;
                let dec = tag(&e.enc_tok, 'P').is_some() || tag(&e.enc_tok, 'X').is_some() || e.enc_tok == "Q0";
                if dec {
                    payees.push(e.enc_tok.clone());
                }
                if let Some(k) = tag(&e.key_tok, 'K').or_else(|| tag(&e.key_tok, 'N')) {
                    if format!("P{k}") == ws[1] {
                        byself += 1;
                    }
                } else if e.key_tok == "W0" && ws[1] == "Q0" {
                    byself += 1;
                }
                match entry_valid(&e.enc_tok, &e.key_tok, &e.sig_tok, &e.fs, &e.fp) {
                    None => {
                        skip = true;
                        skip_weak |= e.key_tok == "W0";
                    }
                    Some(v) => all_ok &= dec && v,
                }
            }
            let me_in = payees.iter().any(|p| p == ws[1]);
            let got_ok = res.starts_with("true");
            if skip {
                out.count(if skip_weak { "oracle-skipped:K-w-weak-key" } else { "oracle-skipped:K-i-subsecond" });
            } else if got_ok != (me_in && all_ok) {
                out.oracle_fail("proof-verifies-iff-payee-and-all-quotes-valid", line, &format!("verify_for = {got_ok}, self among payees = {me_in}, all quotes valid for their payees = {all_ok}"));
            }
            let want_tail = format!("payees={} byself={}", if payees.is_empty() { "-".into() } else { payees.join(",") }, byself);
            if !res.ends_with(&want_tail) {
                out.oracle_fail("payees-and-quotes-by-peer", line, &format!("got `{res}`, expected `.. {want_tail}`"));
            }
        }
        "exp" | "pexp" => {
            let expired = |off: i128| off > 0 || -off >= 3601 * S;
            let want = ws[1..].iter().filter_map(|w| w.parse::<i128>().ok()).any(expired);
            if res != want.to_string() {
                out.oracle_fail("expired-iff-future-or-older-than-window", line, &format!("has_expired = {res}, expected {want}"));
            }
        }
        "hist" => {
            let v: Vec<i128> = ws[1..].iter().filter_map(|w| w.parse().ok()).collect();
            if v.len() == 6 {
                let (old, new) = if v[0] < v[3] { (&v[0..3], &v[3..6]) } else { (&v[3..6], &v[0..3]) };
                let newer_want = v[0] > v[3];
                if !res.ends_with(&format!(" {newer_want}")) {
                    out.oracle_fail("is-newer-than", line, &format!("got `{res}`, A newer than B should be {newer_want}"));
                }
                if old[0] != new[0] && (new[1] < old[1] || new[2] < old[2]) && !res.starts_with("false") {
                    out.oracle_fail("later-quote-with-less-uptime-or-payments-flagged", line, &format!("got `{res}`"));
                }
            }
        }
        "pair" => {}
        "kpair" => {
            // two encodings of one key: same verdict (both must verify when signed by that key); the hash covers the raw bytes
            let k1 = tag(ws[1], 'K').or_else(|| tag(ws[1], 'N'));
            let k2 = tag(ws[2], 'K').or_else(|| tag(ws[2], 'N'));
            let r: Vec<&str> = res.split(' ').collect();
            if r.len() == 3 && k1.is_some() {
                let want1 = tag(ws[3], 'S') == k1;
                let want2 = want1 && k2 == k1;
                if r[0] != want1.to_string() || r[1] != want2.to_string() {
                    out.oracle_fail("verify-iff-own-key-and-signature-over-own-fields", line, &format!("got `{res}`, expected `{want1} {want2} ..`"));
                }
                if (r[2] == "true") != (ws[1] == ws[2]) {
                    out.oracle_fail("hash-covers-signed-fields-key-and-signature", line, &format!("got `{res}`: the hash must differ exactly when the key bytes differ"));
                }
                if r[0] == "true" && r[1] == "true" && r[2] == "false" {
                    out.count("noncanonical-key:same-signed-quote-other-hash");
                }
            }
        }
        "qhash" => {
            // the quote hash is Keccak-256 over signing bytes ++ key ++ signature (tiny-keccak + own concatenation)
            use tiny_keccak::{Hasher, Keccak};
            if let Some((f, _)) = F::parse(&ws[3..]) {
                let mut bytes = f.content.to_vec();
                bytes.extend_from_slice(&f.secs.to_le_bytes());
                bytes.extend_from_slice(&rmp_serde::to_vec(&f.metrics()).unwrap_or_default());
                bytes.extend_from_slice(&f.rewards);
                for t in [ws[1], ws[2]] {
                    if t != "-" {
                        bytes.extend_from_slice(&common::unhex(t).unwrap_or_default());
                    }
                }
                let mut h = Keccak::v256();
                let mut o = [0u8; 32];
                h.update(&bytes);
                h.finalize(&mut o);
                if res != common::hex(&o) {
                    out.oracle_fail("hash-covers-signed-fields-key-and-signature", line, &format!("hash {res}, Keccak-256 of the fields gives {}", common::hex(&o)));
                }
            }
        }
        _ => {}
    }
}

// ---------------------------------------------------------------- generators

fn gen_u64(rng: &mut Rng) -> u64 {
    match rng.below(6) {
        0 => *rng.pick(&[0u64, 1, 127, 128, 255, 256, 65535, 65536, 4294967295, 4294967296, 1 << 63, u64::MAX]),
        1 => rng.below(200),
        2 => rng.below(70000),
        3 => rng.next() >> rng.below(64),
        4 => (1u64 << rng.below(64)).wrapping_sub(rng.below(2)),
        _ => rng.next(),
    }
}
fn arr<const N: usize>(rng: &mut Rng) -> [u8; N] {
    let mut a = [0u8; N];
    match rng.below(4) {
        0 => {}
        1 => a = [rng.next() as u8; N],
        _ => a.copy_from_slice(&rng.bytes(N)),
    }
    a
}
fn gen_f(rng: &mut Rng) -> F {
    F {
        content: arr(rng),
        secs: match rng.below(5) {
            0 => *rng.pick(&[0u64, 1, 255, 256, 4294967295, 4294967296, 1 << 40]),
            1 => rng.next() >> 3,
            _ => 1_700_000_000 + rng.below(100_000_000),
        },
        nanos: rng.below(1_000_000_000) as u32,
        crs: gen_u64(rng),
        max: gen_u64(rng),
        paid: gen_u64(rng),
        live: gen_u64(rng),
        density: if rng.chance(1, 2) { None } else { Some(arr(rng)) },
        size: if rng.chance(1, 2) { None } else { Some(gen_u64(rng)) },
        rewards: arr(rng),
    }
}
/// change exactly the field `which` (0..=9); returns false if the value could not be changed
fn mutate_field(rng: &mut Rng, f: &mut F, which: u64) {
    let flip = |rng: &mut Rng, a: &mut [u8]| {
        let i = rng.below(a.len() as u64) as usize;
        a[i] ^= 1 << rng.below(8);
    };
    match which {
        0 => flip(rng, &mut f.content),
        1 => f.secs = if rng.chance(1, 2) { f.secs + 1 } else { f.secs ^ (1 << rng.below(40)) },
        2 => f.nanos = (f.nanos + 1 + rng.below(999_999_998) as u32) % 1_000_000_000,
        3 => f.crs ^= 1 << rng.below(64),
        4 => f.max ^= 1 << rng.below(64),
        5 => f.paid ^= 1 << rng.below(64),
        6 => f.live ^= 1 << rng.below(64),
        7 => match &mut f.density {
            None => f.density = Some(arr(rng)),
            Some(d) => {
                if rng.chance(1, 3) {
                    f.density = None
                } else {
                    flip(rng, d)
                }
            }
        },
        8 => match f.size {
            None => f.size = Some(gen_u64(rng)),
            Some(s) => f.size = if rng.chance(1, 3) { None } else { Some(s ^ (1 << rng.below(64))) },
        },
        _ => flip(rng, &mut f.rewards),
    }
}

fn gen_entry(rng: &mut Rng, enc_kind: &str, in_proof: bool) -> String {
    let i = rng.below(NKEYS);
    let fs = gen_f(rng);
    let mut fp = fs.clone();
    let (mut claimed, mut key, mut signer) = (format!("{enc_kind}{i}"), format!("K{i}"), format!("S{i}"));
    let class = match rng.below(23) {
        20 => {
            // non-canonical encoding of the right key
            key = format!("N{i}");
            if rng.chance(1, 3) {
                let w = *rng.pick(&[0u64, 1, 5, 9]);
                mutate_field(rng, &mut fp, w);
            }
            "noncanonical-key"
        }
        21 => {
            // the small-order key: its one signature, under its own or another claimed identity, fields altered or not
            key = "W0".into();
            signer = if rng.chance(3, 4) { "W0".into() } else { format!("S{i}") };
            if !in_proof || rng.chance(1, 2) {
                claimed = if rng.chance(3, 4) { "Q0".into() } else { format!("{enc_kind}{i}") };
            }
            if rng.chance(2, 3) {
                let w = *rng.pick(&[0u64, 1, 3, 5, 6, 9]);
                mutate_field(rng, &mut fp, w);
            }
            "weak-key"
        }
        22 => {
            signer = "W0".into();
            "weak-sig-strong-key"
        }
        0..=6 => "valid",
        7..=10 => {
            let w = *rng.pick(&[0u64, 1, 3, 4, 5, 6, 7, 8, 9]);
            mutate_field(rng, &mut fp, w);
            "one-field"
        }
        11..=12 => {
            for _ in 0..rng.range(2, 4) {
                let w = rng.below(10);
                mutate_field(rng, &mut fp, w);
            }
            "multi-field"
        }
        13 => {
            mutate_field(rng, &mut fp, 2);
            "subsecond-only"
        }
        14..=15 => {
            claimed = if rng.chance(1, 2) { format!("P{}", (i + 1 + rng.below(NKEYS - 1)) % NKEYS) } else { format!("X{}", rng.below(4)) };
            "other-claimed"
        }
        16 => {
            key = format!("K{}", (i + 1 + rng.below(NKEYS - 1)) % NKEYS);
            "other-key"
        }
        17 => {
            signer = format!("S{}", (i + 1 + rng.below(NKEYS - 1)) % NKEYS);
            "other-signer"
        }
        18 => {
            key = format!("G{}", rng.below(3));
            "garbage-key"
        }
        _ => {
            signer = format!("G{}", rng.below(3));
            "garbage-sig"
        }
    };
    let _ = class;
    if in_proof && rng.chance(1, 25) {
        claimed = format!("G{}", rng.below(2));
    }
    format!("{claimed} {key} {signer} {} {}", fs.tokens(), fp.tokens())
}

fn gen_offset_exp(rng: &mut Rng) -> i128 {
    let half = S / 5 + rng.below(500_000_000) as i128; // 0.2 .. 0.7 s inside the second
    match rng.below(12) {
        0 => half,
        1 => 60 * S,
        2 => (1 + rng.below(100_000) as i128) * S,
        3 => -half,
        4 => -(3600 * S - 2 * S),
        5 => -(3600 * S + 2 * S),
        6 => -(3600 * S - 60 * S),
        7 => -(3600 * S + 60 * S),
        8 => -(3600 * S + half),   // last second still valid
        9 => -(3601 * S + half),   // first expired second
        10 => -(3599 * S + half),
        _ => -((rng.below(8000) as i128) * S + half),
    }
}

fn gen_hist(rng: &mut Rng) -> String {
    let half = |rng: &mut Rng| S / 5 + rng.below(500_000_000) as i128;
    let a_age = rng.below(5000) as i128;
    let gap = match rng.below(4) {
        0 => 0,
        1 => rng.below(30) as i128,
        _ => rng.below(4000) as i128,
    };
    let off_old = -((a_age + gap) * S + half(rng));
    let off_new = if rng.chance(1, 12) { 30 * S } else { -(a_age * S + half(rng)) };
    let live_old = rng.below(1000);
    let paid_old = rng.below(1000);
    let live_new = match rng.below(9) {
        0 => live_old.saturating_sub(1 + rng.below(3)),
        1 => live_old,
        2 => live_old + (gap as u64 + 10), // exactly at the margin: still accepted
        7 => live_old + (gap as u64 + 11), // first value out of sync
        3 => live_old + (gap as u64).saturating_sub(3) + 10,
        4 => live_old + gap as u64 + 10 + 3,
        5 => live_old + gap as u64 + 10 + rng.below(5000) + 3,
        _ => live_old + rng.below(gap as u64 + 1),
    };
    let paid_new = match rng.below(5) {
        0 => paid_old.saturating_sub(1 + rng.below(3)),
        1 => paid_old,
        _ => paid_old + rng.below(50),
    };
    if rng.chance(1, 2) {
        format!("hist {off_old} {live_old} {paid_old} {off_new} {live_new} {paid_new}")
    } else {
        format!("hist {off_new} {live_new} {paid_new} {off_old} {live_old} {paid_old}")
    }
}

fn class_of(line: &str, res: &str) -> String {
    let op = line.split_whitespace().next().unwrap_or("");
    let r = res.split_whitespace().next().unwrap_or("");
    if op == "bytes" {
        "bytes:ok".into()
    } else {
        format!("{op}:{r}")
    }
}

fn main() {
    let args = &common::parse_args();
    let mut out = Out::new(&args.out);
    std::panic::set_hook(Box::new(|_| {}));
    let lines: Vec<String> = if let Some(p) = &args.replay {
        common::read_lines(p)
    } else {
        let mut rng = Rng::new(args.seed);
        let mut v: Vec<String> = vec![];
        // corpus: class representatives first
        for off in [S / 2, 60 * S, -S / 2, -(3598 * S), -(3602 * S), -(3540 * S), -(3660 * S), -(3600 * S + S / 2), -(3601 * S + S / 2)] {
            v.push(format!("exp {off}"));
        }
        {
            let f = "0707070707070707070707070707070707070707070707070707070707070707 1700000000 100 1 2 3 4 N 5 0909090909090909090909090909090909090909";
            let g = "0808080808080808080808080808080808080808080808080808080808080808 1800000000 7 9 9 9 9 N N 0101010101010101010101010101010101010101";
            v.push(format!("verify Q0 W0 W0 {f} {f}"));
            v.push(format!("verify Q0 W0 W0 {f} {g}"));
            v.push(format!("verify P0 W0 W0 {f} {f}"));
            v.push(format!("verify Q0 W0 S0 {f} {f}"));
            v.push(format!("verify P0 N0 S0 {f} {f}"));
            v.push(format!("verify P0 N0 S0 {f} {g}"));
            v.push(format!("kpair K0 N0 S0 {f}"));
        }
        // K-i at the checker: two same-second quotes (paid 5, then 6) are consistent; with the unsigned sub-second parts swapped they are not
        v.push(format!("hist {} 10 5 {} 10 6", -(100 * S + 3 * S / 10), -(100 * S + 2 * S / 10)));
        v.push(format!("hist {} 10 5 {} 10 6", -(100 * S + 2 * S / 10), -(100 * S + 3 * S / 10)));
        v.push(format!("hist {} 11 10 {} 10 9", -(100 * S + S / 2), -(50 * S + S / 2)));
        v.push(format!("hist {} 10 10 {} 21 11", -(100 * S + S / 2), -(99 * S + S / 2)));
        v.push(format!("hist {} 10 10 {} 23 11", -(100 * S + S / 2), -(99 * S + S / 2)));
        for _ in 0..args.n {
            match rng.below(20) {
                0..=3 => v.push(format!("bytes {}", gen_f(&mut rng).tokens())),
                4..=10 => v.push(format!("verify {}", gen_entry(&mut rng, "P", false))),
                11..=13 => {
                    let n = rng.range(1, 5);
                    let entries: Vec<String> = (0..n)
                        .map(|_| {
                            // mostly valid entries so that whole proofs verify reasonably often
                            loop {
                                let e = gen_entry(&mut rng, "P", true);
                                let valid_looking = {
                                    let w: Vec<&str> = e.split_whitespace().collect();
                                    w[0].starts_with('P') && w[1] == format!("K{}", &w[0][1..]) && w[2] == format!("S{}", &w[0][1..]) && w[3..13] == w[13..23]
                                };
                                if valid_looking || rng.chance(1, 4) {
                                    break e;
                                }
                            }
                        })
                        .collect();
                    let me = if rng.chance(4, 5) {
                        entries[rng.below(n) as usize].split_whitespace().next().unwrap().to_string()
                    } else if rng.chance(1, 2) {
                        format!("P{}", rng.below(NKEYS))
                    } else {
                        format!("X{}", rng.below(4))
                    };
                    let me = if me.starts_with('G') { "P0".to_string() } else { me };
                    v.push(format!("proof {me} {n} {}", entries.join(" ")));
                }
                14..=15 => v.push(format!("exp {}", gen_offset_exp(&mut rng))),
                16 => {
                    let n = rng.range(1, 4);
                    let offs: Vec<String> = (0..n).map(|_| gen_offset_exp(&mut rng).to_string()).collect();
                    v.push(format!("pexp {}", offs.join(" ")));
                }
                17 => v.push(gen_hist(&mut rng)),
                18 => {
                    // quote hash: key / signature bytes of the usual and of odd lengths (the hash input has no separators)
                    let nk = *rng.pick(&[0usize, 1, 36, 36, 36, 37, 64]);
                    let ns = *rng.pick(&[0usize, 1, 64, 64, 64, 63, 65, 100]);
                    let (k, s2) = (rng.bytes(nk), rng.bytes(ns));
                    let hx = |b: &[u8]| if b.is_empty() { "-".to_string() } else { common::hex(b) };
                    v.push(format!("qhash {} {} {}", hx(&k), hx(&s2), gen_f(&mut rng).tokens()));
                }
                19 if rng.chance(1, 2) => {
                    let i = rng.below(NKEYS);
                    let j = if rng.chance(1, 5) { (i + 1) % NKEYS } else { i };
                    let (a, b) = *rng.pick(&[("K", "N"), ("N", "K"), ("K", "K"), ("N", "N")]);
                    let s = if rng.chance(1, 6) { (i + 1) % NKEYS } else { i };
                    v.push(format!("kpair {a}{i} {b}{j} S{s} {}", gen_f(&mut rng).tokens()));
                }
                _ => {
                    // pair: same key/signature, two presentations
                    let i = rng.below(NKEYS);
                    let fs = gen_f(&mut rng);
                    let mut f2 = fs.clone();
                    let w = rng.below(10);
                    mutate_field(&mut rng, &mut f2, w);
                    v.push(format!("pair K{i} S{i} {} {} {}", fs.tokens(), fs.tokens(), f2.tokens()));
                }
            }
        }
        v
    };
    let mut seen: HashMap<String, F> = HashMap::new();
    for l in &lines {
        let r = exec(l);
        oracle(l, &r, &mut out, &mut seen);
        out.count(&class_of(l, &r));
        out.nontrivial_case(l);
        out.line(l.clone(), r);
    }
    out.notes.push("clock-dependent ops (exp, pexp, hist) use offsets 0.2–0.7 s inside a whole-second class and are retried when the call takes > 150 ms".into());
    out.finish();
}
