//! C16: AttoTokens Display / FromStr / checked add+sub, real code vs. Lean model.
//! Line protocol (inputs only):   display <dec> | parse <hex utf8> | add <dec> <dec> | sub <dec> <dec>
//! Output: display -> hex of the printed string; parse -> "ok <dec>" | "err <class>"; add/sub -> "some <dec>" | "none"
use ant_evm::{Amount, AttoTokens, EvmError};
use common::{hex, unhex, Out, Rng};
use num_bigint::BigUint;
use std::panic::catch_unwind;
use std::str::FromStr;

fn amount_from_big(b: &BigUint) -> Amount {
    Amount::from_str(&b.to_string()).expect("in range")
}
fn big_from_amount(a: Amount) -> BigUint {
    BigUint::parse_bytes(a.to_string().as_bytes(), 10).expect("dec")
}
fn two256() -> BigUint {
    BigUint::from(1u8) << 256
}

fn exec(line: &str) -> String {
    let ws: Vec<&str> = line.split_whitespace().collect();
    let r = catch_unwind(|| match ws.as_slice() {
        ["display", n] => {
            let a = Amount::from_str(n).expect("dec amount");
            hex(AttoTokens::from_atto(a).to_string().as_bytes())
        }
        ["parse", h] => {
            let bytes = unhex(h).expect("hex");
            let s = String::from_utf8(bytes).expect("utf8");
            match AttoTokens::from_str(&s) {
                Ok(v) => format!("ok {}", v.as_atto()),
                Err(EvmError::FailedToParseAttoToken(m)) if m.contains("units") => "err units".into(),
                Err(EvmError::FailedToParseAttoToken(_)) => "err remainder".into(),
                Err(EvmError::LossOfPrecision) => "err loss".into(),
                Err(EvmError::ExcessiveValue) => "err excessive".into(),
                Err(e) => format!("err other:{e:?}"),
            }
        }
        ["add", a, b] | ["sub", a, b] => {
            let x = AttoTokens::from_atto(Amount::from_str(a).expect("dec"));
            let y = AttoTokens::from_atto(Amount::from_str(b).expect("dec"));
            let r = if ws[0] == "add" { x.checked_add(y) } else { x.checked_sub(y) };
            match r {
                Some(v) => format!("some {}", v.as_atto()),
                None => "none".into(),
            }
        }
        ["costsum", rest @ ..] => {
            // the two forms the client's cost sums take: `.sum::<Amount>()` and a `+=` loop
            let xs: Vec<Amount> = rest.iter().map(|a| Amount::from_str(a).expect("dec")).collect();
            let by_sum = xs.iter().copied().sum::<Amount>();
            let by_ref_sum: Amount = xs.iter().sum();
            let mut by_add = Amount::ZERO;
            for x in &xs {
                by_add += *x;
            }
            if by_sum == by_add && by_sum == by_ref_sum { format!("sum {by_sum}") } else { format!("disagree {by_sum} {by_ref_sum} {by_add}") }
        }
        ["showatto", n] => {
            // what the CLI prints under the label "AttoTokens": `{}` of `AttoTokens::as_atto()`
            let a = AttoTokens::from_atto(Amount::from_str(n).expect("dec amount"));
            hex(format!("{}", a.as_atto()).as_bytes())
        }
        _ => "bad-op".into(),
    });
    r.unwrap_or_else(|_| "panic".into())
}

/// The property stated directly, with independent big-number arithmetic (num-bigint).
fn oracle(line: &str, out_line: &str, out: &mut Out) {
    let ws: Vec<&str> = line.split_whitespace().collect();
    let e18 = BigUint::from(10u8).pow(18);
    if out_line == "panic" {
        out.oracle_fail("no-panic", line, "implementation panicked");
        return;
    }
    match ws.as_slice() {
        ["display", n] => {
            let n = BigUint::parse_bytes(n.as_bytes(), 10).expect("dec");
            let s = String::from_utf8(unhex(out_line).unwrap_or_default()).unwrap_or_default();
            // printed string is the true value with exactly 18 fractional digits
            let expect = format!("{}.{:0>18}", &n / &e18, (&n % &e18).to_string());
            if s != expect {
                out.oracle_fail("display-denotes", line, &format!("printed {s:?}, true value is {expect:?}"));
            }
            // and parses back to the same amount
            let back = exec(&format!("parse {}", hex(s.as_bytes())));
            if back != format!("ok {n}") {
                out.oracle_fail("parse-display", line, &format!("printed {s:?} parses back as {back:?}"));
            }
        }
        ["parse", h] => {
            let s = String::from_utf8(unhex(h).expect("hex")).expect("utf8");
            // grammar: digits+ ('.' digits*)?
            let (u, f) = match s.split_once('.') {
                Some((u, f)) => (u, f),
                None => (s.as_str(), ""),
            };
            let in_grammar = !u.is_empty()
                && u.bytes().all(|b| b.is_ascii_digit())
                && f.bytes().all(|b| b.is_ascii_digit());
            let accepted = out_line.strip_prefix("ok ");
            if !in_grammar {
                if let Some(v) = accepted {
                    out.oracle_fail("parse-rejects-non-decimal", line, &format!("{s:?} is not a decimal string but was accepted as {v}"));
                }
                return;
            }
            let ub = BigUint::parse_bytes(u.as_bytes(), 10).expect("digits");
            let fb = if f.is_empty() { BigUint::from(0u8) } else { BigUint::parse_bytes(f.as_bytes(), 10).expect("digits") };
            // exact value * 10^len(f) * ... : n * 10^|f| must equal (u*10^|f| + f) * 10^18
            let scale = BigUint::from(10u8).pow(f.len() as u32);
            let exact_num = (&ub * &scale + &fb) * &e18; // = n * scale when representable
            if let Some(v) = accepted {
                if f.len() > 18 {
                    out.oracle_fail("parse-rejects-over-precise", line, &format!("{s:?} has {} fractional digits (more than 18) but was accepted as {v}", f.len()));
                }
                let v = BigUint::parse_bytes(v.as_bytes(), 10).expect("dec");
                if &v * &scale != exact_num {
                    out.oracle_fail("parse-sound", line, &format!("{s:?} accepted as {v}, which is not its value"));
                }
            } else if f.len() <= 18 {
                let n = &exact_num / &scale;
                if n < two256() {
                    out.oracle_fail("parse-complete", line, &format!("{s:?} denotes representable {n} but was rejected: {out_line}"));
                }
            }
        }
        ["costsum", rest @ ..] => {
            let exact: BigUint = rest.iter().map(|a| BigUint::parse_bytes(a.as_bytes(), 10).expect("dec")).sum();
            // known finding K-s: beyond 2^256 the sums wrap; the claim is made for representable sums only
            if exact < two256() && out_line != format!("sum {exact}") && out_line != "overflow" {
                out.oracle_fail("cost-sum-exact", line, &format!("got {out_line}, the exact sum {exact} is representable"));
            }
            if exact < two256() && out_line == "overflow" {
                out.oracle_fail("cost-sum-exact", line, &format!("overflow reported for the representable sum {exact}"));
            }
        }
        ["showatto", n] => {
            let s = String::from_utf8(unhex(out_line).unwrap_or_default()).unwrap_or_default();
            if s != *n {
                out.oracle_fail("atto-line-denotes", line, &format!("printed {s:?} under the label AttoTokens for {n} atto"));
            }
        }
        ["add", a, b] | ["sub", a, b] => {
            let x = BigUint::parse_bytes(a.as_bytes(), 10).expect("dec");
            let y = BigUint::parse_bytes(b.as_bytes(), 10).expect("dec");
            let expect = if ws[0] == "add" {
                let s = &x + &y;
                if s < two256() { format!("some {s}") } else { "none".into() }
            } else if y <= x {
                format!("some {}", &x - &y)
            } else {
                "none".into()
            };
            if out_line != expect {
                out.oracle_fail("checked-arith-exact", line, &format!("got {out_line}, exact result is {expect}"));
            }
        }
        _ => {}
    }
}

fn interesting_amount(rng: &mut Rng) -> BigUint {
    let one = BigUint::from(1u8);
    let max = two256() - &one;
    let base = match rng.below(8) {
        0 => BigUint::from(10u8).pow(rng.below(78) as u32),
        1 => one.clone() << (rng.below(257) as usize),
        2 => BigUint::from(rng.next() % 1000),
        3 => { let k = rng.range(1, 32) as usize; BigUint::from_bytes_be(&rng.bytes(k)) }
        4 => max.clone(),
        5 => BigUint::from(10u8).pow(18) * BigUint::from(rng.next()),
        6 => BigUint::from(rng.next()) * BigUint::from(10u8).pow(rng.below(20) as u32),
        _ => BigUint::from_bytes_be(&rng.bytes(32)),
    };
    let delta = BigUint::from(rng.below(3));
    let v = if rng.chance(1, 2) { base + delta } else if base >= delta { base - delta } else { base };
    if v > max { max } else { v }
}

fn grammar_string(rng: &mut Rng) -> String {
    // mostly-valid decimal strings, with boundary lengths of the fraction
    let units = match rng.below(5) {
        0 => "0".to_string(),
        1 => (rng.next() % 100000).to_string(),
        2 => {
            // around 2^256 / 10^18
            let q = two256() / BigUint::from(10u8).pow(18);
            let d = BigUint::from(rng.below(3));
            if rng.chance(1, 2) { (q + d).to_string() } else { (q - d).to_string() }
        }
        3 => format!("{}{}", "0".repeat(rng.below(4) as usize), rng.next()),
        _ => interesting_amount(rng).to_string(),
    };
    if rng.chance(1, 5) {
        return units;
    }
    let flen = *rng.pick(&[0u64, 1, 2, 9, 17, 18, 18, 19, 20, 30]);
    if rng.chance(1, 6) {
        // significant digits followed by a run of zeros, total length around the 18-digit limit
        let total = *rng.pick(&[17u64, 18, 18, 19, 19, 20, 25]);
        let sig = rng.below(total.min(4) + 1);
        let mut frac = String::new();
        for _ in 0..sig {
            frac.push(char::from(b'1' + rng.below(9) as u8));
        }
        frac.push_str(&"0".repeat((total - sig) as usize));
        return format!("{units}.{frac}");
    }
    let mut frac = String::new();
    for i in 0..flen {
        let d = if rng.chance(1, 3) { 0 } else if i + 1 == flen && rng.chance(1, 2) { 0 } else { rng.below(10) };
        frac.push(char::from(b'0' + d as u8));
    }
    if rng.chance(1, 8) {
        // the exact boundary 2^256: ...457.584007913129639936
        return "115792089237316195423570985008687907853269984665640564039457.584007913129639936".to_string();
    }
    format!("{units}.{frac}")
}

fn malformed_string(rng: &mut Rng) -> String {
    let g = grammar_string(rng);
    match rng.below(12) {
        0 => String::new(),
        1 => format!(".{}", rng.below(100)),
        2 => format!("0x{:x}", rng.next() % 4096),
        3 => format!("0b1{}", rng.below(2)),
        4 => format!("0o{}", rng.below(8)),
        5 => format!("1_{}", rng.below(10)),
        6 => format!("{g}.1"),
        7 => format!("0.0x{}", rng.below(10)),
        8 => format!("0.{}_{}", rng.below(10), rng.below(10)),
        9 => {
            let mut b: Vec<char> = g.chars().collect();
            let i = rng.below(b.len() as u64) as usize;
            b[i] = *rng.pick(&['a', 'Z', '_', '+', '-', ' ', 'e', 'é', 'x', ',', '٣']);
            b.into_iter().collect()
        }
        10 => format!("{g} "),
        _ => format!("+{g}"),
    }
}

fn main() {
    let args = &common::parse_args();
    let mut out = Out::new(&args.out);
    std::panic::set_hook(Box::new(|_| {}));
    let lines: Vec<String> = if let Some(p) = &args.replay {
        common::read_lines(p)
    } else {
        let mut rng = Rng::new(args.seed);
        let mut v = vec![];
        // corpus of past minimal failures first
        for n in ["0", "1", "10", "999999999", "1000000000", "1000000000000000000", "1000000000000000001",
                  "115792089237316195423570985008687907853269984665640564039457584007913129639935"] {
            v.push(format!("display {n}"));
        }
        for s in ["", "0", "0.", "1.", "1.000000000000000000", "1.0000000000000000000", "0.50000000000000000000", "1.1", ".5", "0x10", "0b11", "0o7", "1_0", "0.0000000000000000001", "0.0000000000000000000",
                  "115792089237316195423570985008687907853269984665640564039457.584007913129639936",
                  "115792089237316195423570985008687907853269984665640564039457.584007913129639935",
                  "115792089237316195423570985008687907853269984665640564039458", "0.a", "0.0.0", "a"] {
            v.push(format!("parse {}", hex(s.as_bytes())));
        }
        for l in ["costsum", "costsum 1 2 3", "showatto 0", "showatto 5",
                  "costsum 115792089237316195423570985008687907853269984665640564039457584007913129639935 1"] {
            v.push(l.to_string());
        }
        for _ in 0..args.n {
            match rng.below(12) {
                10 => {
                    let k = rng.below(6);
                    let xs: Vec<String> = (0..k)
                        .map(|_| if rng.chance(1, 6) { interesting_amount(&mut rng).to_string() } else { (interesting_amount(&mut rng) >> 8usize).to_string() })
                        .collect();
                    v.push(format!("costsum {}", xs.join(" ")).trim_end().to_string())
                }
                11 => v.push(format!("showatto {}", interesting_amount(&mut rng))),
                0..=2 => v.push(format!("display {}", interesting_amount(&mut rng))),
                3..=5 => v.push(format!("parse {}", hex(grammar_string(&mut rng).as_bytes()))),
                6..=7 => v.push(format!("parse {}", hex(malformed_string(&mut rng).as_bytes()))),
                8 => v.push(format!("add {} {}", interesting_amount(&mut rng), interesting_amount(&mut rng))),
                _ => {
                    let a = interesting_amount(&mut rng);
                    let b = if rng.chance(1, 3) { a.clone() } else { interesting_amount(&mut rng) };
                    v.push(format!("sub {a} {b}"))
                }
            }
        }
        v
    };
    for l in &lines {
        let r = exec(l);
        oracle(l, &r, &mut out);
        let op = l.split_whitespace().next().unwrap_or("");
        let class = if r.starts_with("err") || r == "none" || r == "panic" { r.clone() } else { "ok".into() };
        out.count(&format!("{op}:{class}"));
        out.nontrivial_case(l);
        out.line(l.clone(), r);
    }
    let _ = (amount_from_big, big_from_amount);
    out.finish();
}
