//! C12: record / message encodings — the real serialisers (ant-protocol, ant-evm, rmp_serde) vs. the Lean model.
//!
//! Values travel as neutral serde-data-model trees (see wire/tree.rs for the token syntax).  Ops (inputs only):
//!   hdr <Kind>                 -> hex of RecordHeader{kind}.try_serialize()
//!   hdrdec <hex>               -> ok <Kind> | err              (RecordHeader::from_record, compared exactly)
//!   reghex <hex of the text>   -> ok | err      (RegisterAddress::from_hex on arbitrary text; inputs that decode to exactly 80
//!                                 bytes are only generated from real addresses, the key bytes being opaque to the model)
//!   ischunk <hex>              -> ok true|ok false|err    (RecordHeader::is_record_of_type_chunk, compared exactly)
//!   ischunksweep <b0 hex>      -> the same over every (b1,b2), run-length coded: t|f|- (exact, exhaustive)
//!   hdrtry <hex>               -> ok <Kind> | err              (RecordHeader::try_deserialize on the whole slice: 1-arrays with the tag
//!                                 in ANY integer width, 1-byte bins, the 3-byte map; longer maps are not generated)
//!   hdrtrysweep2               -> try_deserialize over all 65536 two-byte slices, run-length coded (exact)
//!   hdrsweep <b0 hex>          -> every (b1,b2) with from_record([b0,b1,b2,..]) accepted, run-length coded (exact, exhaustive)
//!   enc <Type> <tree>          -> hex of rmp_serde::to_vec(value)            (value rebuilt from the tree)
//!   rec <Kind> <Type> <tree>   -> hex of try_serialize_record(value, kind)
//!   dec <Type> <hex>           -> ok <tree> | reject
//!   recdec <Type> <hex>        -> hdr-err | <Kind> ok <tree> | <Kind> reject   (from_record + try_deserialize_record)
//!   recfail <Kind> <n>         -> err : try_serialize_record of an UNSERIALISABLE value (variant n, see `unserialisable`) under
//!                                 that kind must fail and must have no effect on any later encode on the same thread
//!   chunk <addr hex32> <value hex> -> serialise a Chunk carrying that (possibly forged) address, deserialise: recomputed|kept
//!   cenc <Type> <named tree>  -> hex of the CBOR bytes the network codec writes (libp2p request_response::cbor = cbor4ii serde):
//!                                 for Request / Response through the REAL codec object (`write_request` / `write_response`), for
//!                                 their component types through the call it makes (`cbor4ii::serde::to_vec(Vec::new(), &v)`).
//!                                 Trees are in "named" form (struct bodies are R nodes with field names — they are on the wire).
//!   cdec <Type> <hex>          -> ok <named tree> | reject   (`read_request` / `read_response` / `cbor4ii::serde::from_slice`)
//!   cgold <Type> <hex>         -> the same for a GOLDEN vector (bytes written by the code as of the day the vector was recorded):
//!                                 `ok` only if the current code reads it and writes exactly the same bytes back
//!   decx / recdecx / cdecx / dectrunc / cdectrunc / recdectrunc / crepl / cresp / pchunk: see wire/fam.rs (decoders of the types
//!                                 with crypto- or parser-validated leaves on damaged input; the codec's size limits; paid chunks)
//! `dec`/`recdec`/`cdec` print `ok` only when the implementation accepts AND re-serialising the decoded value gives a prefix
//! of the input (canonical acceptance); the model applies the same rule.  So: model accepts ⇒ implementation accepts
//! with the same value, canonical inputs are compared exactly, and for every other input only "no panic" is required.
#[path = "wire/tree.rs"]
mod tree;
#[path = "wire/fam.rs"]
mod fam;

use ant_evm::{EncodedPeerId, PaymentQuote, ProofOfPayment, QuotingMetrics, RewardsAddress};
use ant_protocol::error::Error as ProtocolError;
use ant_protocol::messages::{ChunkProof, Cmd, CmdResponse, Query, QueryResponse, Request, Response};
use ant_protocol::storage::{
    try_deserialize_record, try_serialize_record, Chunk, ChunkAddress, RecordHeader, RecordKind, RecordType, RegisterAddress, Scratchpad,
    ScratchpadAddress, Transaction, TransactionAddress,
};
use ant_protocol::{NetworkAddress, PrettyPrintRecordKey};
use ant_registers::{EntryHash, Permissions, Register, RegisterCrdt, RegisterOp, SignedRegister};
use std::collections::BTreeSet;
use bytes::Bytes;
use common::{hex, unhex, Out, Rng};
use libp2p::kad::{Record, RecordKey};
use libp2p::{Multiaddr, PeerId};
use rand::{Rng as _, SeedableRng};
use serde::{de::DeserializeOwned, Serialize};
use std::panic::{catch_unwind, AssertUnwindSafe};
use std::time::{Duration, SystemTime};
use tree::{from_tree, to_tree, to_tree_named, Tree};
use xor_name::XorName;

const KINDS: [RecordKind; 8] = [
    RecordKind::Chunk,
    RecordKind::ChunkWithPayment,
    RecordKind::Transaction,
    RecordKind::TransactionWithPayment,
    RecordKind::Register,
    RecordKind::RegisterWithPayment,
    RecordKind::Scratchpad,
    RecordKind::ScratchpadWithPayment,
];
fn kind_name(k: RecordKind) -> String {
    format!("{k:?}")
}
fn kind_of(s: &str) -> Option<RecordKind> {
    KINDS.iter().copied().find(|k| kind_name(*k) == s)
}
fn record(bytes: Vec<u8>) -> Record {
    Record { key: RecordKey::new(b"k"), value: bytes, publisher: None, expires: None }
}

// ---------------------------------------------------------------- type registry

struct Ty {
    name: &'static str,
    /// tree -> typed value -> rmp_serde bytes; also checks that tree -> value -> tree is the identity
    enc: fn(&Tree) -> Result<Vec<u8>, String>,
    rec: fn(&Tree, RecordKind) -> Result<Vec<u8>, String>,
    /// bytes -> typed value; Ok((tree, re-serialised bytes))
    dec: fn(&[u8]) -> Result<(Tree, Vec<u8>), String>,
    recdec: fn(&Record) -> Result<(Tree, Vec<u8>), String>,
}

fn enc_t<T: Serialize + DeserializeOwned>(t: &Tree) -> Result<Vec<u8>, String> {
    let v: T = from_tree(t).map_err(|e| format!("tree does not describe a value of this type: {e}"))?;
    let back = to_tree(&v).map_err(|e| e.to_string())?;
    if back != *t {
        return Err(format!("tree round trip differs: {}", back.text()));
    }
    rmp_serde::to_vec(&v).map_err(|e| e.to_string())
}
fn rec_t<T: Serialize + DeserializeOwned>(t: &Tree, k: RecordKind) -> Result<Vec<u8>, String> {
    let v: T = from_tree(t).map_err(|e| format!("tree does not describe a value of this type: {e}"))?;
    try_serialize_record(&v, k).map(|b| b.to_vec()).map_err(|e| format!("{e:?}"))
}
fn dec_t<T: Serialize + DeserializeOwned + std::fmt::Debug>(b: &[u8]) -> Result<(Tree, Vec<u8>), String> {
    let v: T = rmp_serde::from_slice(b).map_err(|e| e.to_string())?;
    log_like_a_receiver(&v);
    Ok((to_tree(&v).map_err(|e| e.to_string())?, rmp_serde::to_vec(&v).map_err(|e| e.to_string())?))
}
fn recdec_t<T: Serialize + DeserializeOwned + std::fmt::Debug>(r: &Record) -> Result<(Tree, Vec<u8>), String> {
    let v: T = try_deserialize_record(r).map_err(|e| format!("{e:?}"))?;
    log_like_a_receiver(&v);
    Ok((to_tree(&v).map_err(|e| e.to_string())?, rmp_serde::to_vec(&v).map_err(|e| e.to_string())?))
}
macro_rules! ty {
    ($name:expr, $t:ty) => {
        Ty { name: $name, enc: enc_t::<$t>, rec: rec_t::<$t>, dec: dec_t::<$t>, recdec: recdec_t::<$t> }
    };
}
fn types() -> Vec<Ty> {
    vec![
        ty!("RecordHeader", RecordHeader),
        ty!("Chunk", Chunk),
        ty!("RecordType", RecordType),
        ty!("NetworkAddress", NetworkAddress),
        ty!("QuotingMetrics", QuotingMetrics),
        ty!("PaymentQuote", PaymentQuote),
        ty!("ProofOfPayment", ProofOfPayment),
        ty!("PaidChunk", (ProofOfPayment, Chunk)),
        ty!("Scratchpad", Scratchpad),
        ty!("PaidScratchpad", (ProofOfPayment, Scratchpad)),
        ty!("Transactions", Vec<Transaction>),
        ty!("PaidTransaction", (ProofOfPayment, Transaction)),
        ty!("SignedRegister", SignedRegister),
        ty!("PaidRegister", (ProofOfPayment, SignedRegister)),
        ty!("ProtocolError", ProtocolError),
        ty!("Cmd", Cmd),
        ty!("Query", Query),
        ty!("Request", Request),
        ty!("CmdResponse", CmdResponse),
        ty!("QueryResponse", QueryResponse),
        ty!("Response", Response),
    ]
}
/// types whose decoding involves no cryptographic / multiaddr validity check: safe for arbitrary byte mutations
const PLAIN: [&str; 7] = ["RecordHeader", "Chunk", "RecordType", "QuotingMetrics", "PaymentQuote", "ProofOfPayment", "PaidChunk"];

// ---------------------------------------------------------------- generators (typed values)

fn xor(rng: &mut Rng) -> XorName {
    let mut a = [0u8; 32];
    if rng.chance(3, 4) {
        a.copy_from_slice(&rng.bytes(32));
    } else {
        a = [*rng.pick(&[0u8, 1, 0x7f, 0x80, 0xff]); 32];
    }
    XorName(a)
}
fn sk(rng: &mut Rng) -> bls::SecretKey {
    rand::rngs::StdRng::seed_from_u64(rng.next()).gen()
}
fn gen_u64(rng: &mut Rng) -> u64 {
    match rng.below(5) {
        0 => *rng.pick(&[0u64, 1, 127, 128, 255, 256, 65535, 65536, 4294967295, 4294967296, 1 << 63, u64::MAX]),
        1 => rng.below(300),
        2 => rng.next() >> rng.below(64),
        3 => (1u64 << rng.below(64)).wrapping_sub(rng.below(2)),
        _ => rng.next(),
    }
}
fn gen_len(rng: &mut Rng) -> usize {
    match rng.below(10) {
        0 => 0,
        1 => *rng.pick(&[1usize, 15, 16, 31, 32, 33, 255, 256, 257]),
        2 => rng.range(1000, 3000) as usize,
        3 => *rng.pick(&[65535usize, 65536, 70000]),
        _ => rng.below(64) as usize,
    }
}
fn gen_bytes(rng: &mut Rng) -> Bytes {
    let n = gen_len(rng);
    Bytes::from(rng.bytes(n))
}
fn peer_id(rng: &mut Rng) -> PeerId {
    let mut b = [0u8; 32];
    b.copy_from_slice(&rng.bytes(32));
    libp2p::identity::Keypair::ed25519_from_bytes(b).expect("key").public().to_peer_id()
}
fn gen_addr(rng: &mut Rng, plain: bool) -> NetworkAddress {
    match rng.below(if plain { 4 } else { 6 }) {
        0 => NetworkAddress::from_peer(peer_id(rng)),
        1 => NetworkAddress::ChunkAddress(ChunkAddress::new(xor(rng))),
        2 => NetworkAddress::TransactionAddress(TransactionAddress::new(xor(rng))),
        3 => {
            let n = *rng.pick(&[0usize, 1, 32, 38, 255, 256]);
            NetworkAddress::RecordKey(Bytes::from(rng.bytes(n)))
        }
        4 => NetworkAddress::RegisterAddress(RegisterAddress::new(xor(rng), sk(rng).public_key())),
        _ => NetworkAddress::ScratchpadAddress(ScratchpadAddress::new(sk(rng).public_key())),
    }
}
fn gen_record_type(rng: &mut Rng) -> RecordType {
    match rng.below(3) {
        0 => RecordType::Chunk,
        1 => RecordType::Scratchpad,
        _ => RecordType::NonChunk(xor(rng)),
    }
}
fn gen_metrics(rng: &mut Rng) -> QuotingMetrics {
    QuotingMetrics {
        close_records_stored: gen_u64(rng) as usize,
        max_records: gen_u64(rng) as usize,
        received_payment_count: gen_u64(rng) as usize,
        live_time: gen_u64(rng),
        network_density: if rng.chance(1, 2) { None } else { Some(xor(rng).0) },
        network_size: if rng.chance(1, 2) { None } else { Some(gen_u64(rng)) },
    }
}
fn gen_quote(rng: &mut Rng) -> PaymentQuote {
    let mut r = [0u8; 20];
    r.copy_from_slice(&rng.bytes(20));
    let n1 = *rng.pick(&[0usize, 36, 36, 40]);
    let n2 = *rng.pick(&[0usize, 64, 64, 70]);
    PaymentQuote {
        content: xor(rng),
        timestamp: SystemTime::UNIX_EPOCH + Duration::new(gen_u64(rng) >> 2, rng.below(1_000_000_000) as u32),
        quoting_metrics: gen_metrics(rng),
        rewards_address: RewardsAddress::from(r),
        pub_key: rng.bytes(n1),
        signature: rng.bytes(n2),
    }
}
fn gen_proof(rng: &mut Rng) -> ProofOfPayment {
    let n = rng.below(4);
    ProofOfPayment { peer_quotes: (0..n).map(|_| (EncodedPeerId::from(peer_id(rng)), gen_quote(rng))).collect() }
}
fn gen_chunk(rng: &mut Rng) -> Chunk {
    Chunk::new(gen_bytes(rng))
}
fn gen_scratchpad(rng: &mut Rng) -> Scratchpad {
    let k = sk(rng);
    let mut s = Scratchpad::new(k.public_key(), gen_u64(rng));
    for _ in 0..rng.below(3) {
        let n = rng.below(40) as usize;
        s.update_and_sign(Bytes::from(rng.bytes(n)), &k);
    }
    s
}
fn gen_transaction(rng: &mut Rng) -> Transaction {
    let k = sk(rng);
    let parents = (0..rng.below(3)).map(|_| sk(rng).public_key()).collect();
    let outputs = (0..rng.below(3)).map(|_| (sk(rng).public_key(), xor(rng).0)).collect();
    Transaction::new(k.public_key(), parents, xor(rng).0, outputs, &k)
}
/// a register built with the real API: owner-signed base (either permission kind, 0..2 extra writers), 0..4 signed ops
/// written through a `RegisterCrdt` (chains and forks, entries of 0..40 bytes), the ops coming from the owner or a writer
fn gen_signed_register(rng: &mut Rng) -> SignedRegister {
    let owner = sk(rng);
    let others: Vec<bls::SecretKey> = (0..rng.below(3)).map(|_| sk(rng)).collect();
    let perms = if rng.chance(1, 3) { Permissions::new_anyone_can_write() } else { Permissions::new_with(others.iter().map(|k| k.public_key())) };
    let base = Register::new(owner.public_key(), xor(rng), perms);
    let sig = owner.sign(base.bytes().expect("register bytes"));
    let mut reg = SignedRegister::new(base, sig, BTreeSet::new());
    let mut crdt = RegisterCrdt::new(*reg.address());
    let mut hashes: Vec<EntryHash> = vec![];
    for _ in 0..rng.below(5) {
        let n = rng.below(41) as usize;
        let children: BTreeSet<EntryHash> = match rng.below(3) {
            0 => BTreeSet::new(),
            1 => hashes.last().copied().into_iter().collect(),
            _ => hashes.iter().copied().collect(),
        };
        let (h, addr, crdt_op) = crdt.write(rng.bytes(n), &children).expect("crdt write");
        let signer = if others.is_empty() || rng.chance(1, 2) { &owner } else { &others[rng.below(others.len() as u64) as usize] };
        if reg.add_op(RegisterOp::new(addr, crdt_op, signer)).is_ok() {
            hashes.push(h);
        }
    }
    reg
}
fn gen_error(rng: &mut Rng) -> ProtocolError {
    gen_error_p(rng, false)
}
/// `plain`: no leaf whose decoding involves a cryptographic / multiaddr validity check (BLS keys, multiaddrs)
fn gen_error_p(rng: &mut Rng, plain: bool) -> ProtocolError {
    let pick = loop {
        let k = rng.below(17);
        if !(plain && (k == 5 || k == 6)) {
            break k;
        }
    };
    match pick {
        0 => ProtocolError::UserDataDirectoryNotObtainable,
        1 => ProtocolError::CouldNotObtainPortFromMultiAddr,
        2 => ProtocolError::ParseRetryStrategyError,
        3 => ProtocolError::CouldNotObtainDataDir,
        4 => ProtocolError::ChunkDoesNotExist(gen_addr(rng, plain)),
        5 => ProtocolError::RegisterNotFound(Box::new(RegisterAddress::new(xor(rng), sk(rng).public_key()))),
        6 => ProtocolError::RegisterAlreadyClaimed(sk(rng).public_key()),
        7 => ProtocolError::RegisterRecordNotFound { holder: Box::new(gen_addr(rng, plain)), key: Box::new(gen_addr(rng, plain)) },
        8 => ProtocolError::ScratchpadHexDeserializeFailed,
        9 => ProtocolError::ScratchpadCipherTextFailed,
        10 => ProtocolError::ScratchpadCipherTextInvalid,
        11 => ProtocolError::GetStoreQuoteFailed,
        12 => ProtocolError::QuoteGenerationFailed,
        13 => ProtocolError::ReplicatedRecordNotFound { holder: Box::new(gen_addr(rng, plain)), key: Box::new(gen_addr(rng, plain)) },
        14 => ProtocolError::RecordHeaderParsingFailed,
        15 => ProtocolError::RecordParsingFailed,
        _ => {
            let n = rng.below(40) as usize;
            ProtocolError::RecordExists(PrettyPrintRecordKey::from(&RecordKey::new(&rng.bytes(n))).into_owned())
        }
    }
}
fn gen_string(rng: &mut Rng) -> String {
    let n = *rng.pick(&[0usize, 1, 5, 31, 32, 33, 255, 256, 300]);
    (0..n)
        .map(|_| *rng.pick(&['a', 'Z', ' ', '0', '~', 'é', '√', '😀', '\n', '\u{7f}']))
        .collect()
}
fn gen_cmd(rng: &mut Rng) -> Cmd {
    gen_cmd_p(rng, false)
}
fn gen_cmd_p(rng: &mut Rng, plain: bool) -> Cmd {
    if rng.chance(2, 3) {
        let n = rng.below(20);
        Cmd::Replicate { holder: gen_addr(rng, plain), keys: (0..n).map(|_| (gen_addr(rng, plain), gen_record_type(rng))).collect() }
    } else {
        Cmd::PeerConsideredAsBad { detected_by: gen_addr(rng, plain), bad_peer: gen_addr(rng, plain), bad_behaviour: gen_string(rng) }
    }
}
fn gen_query(rng: &mut Rng) -> Query {
    gen_query_p(rng, false)
}
fn gen_query_p(rng: &mut Rng, plain: bool) -> Query {
    match rng.below(6) {
        0 => Query::GetStoreQuote { key: gen_addr(rng, plain), nonce: if rng.chance(1, 2) { None } else { Some(gen_u64(rng)) }, difficulty: gen_u64(rng) as usize },
        1 => Query::GetReplicatedRecord { requester: gen_addr(rng, plain), key: gen_addr(rng, plain) },
        2 => Query::GetRegisterRecord { requester: gen_addr(rng, plain), key: gen_addr(rng, plain) },
        3 => Query::GetChunkExistenceProof { key: gen_addr(rng, plain), nonce: gen_u64(rng), difficulty: gen_u64(rng) as usize },
        4 => Query::CheckNodeInProblem(gen_addr(rng, plain)),
        _ => Query::GetClosestPeers {
            key: gen_addr(rng, plain),
            num_of_peers: if rng.chance(1, 2) { None } else { Some(gen_u64(rng) as usize) },
            range: if rng.chance(1, 2) { None } else { Some(xor(rng).0) },
            sign_result: rng.chance(1, 2),
        },
    }
}
fn gen_result<T>(rng: &mut Rng, ok: impl FnOnce(&mut Rng) -> T) -> Result<T, ProtocolError> {
    gen_result_p(rng, false, ok)
}
fn gen_result_p<T>(rng: &mut Rng, plain: bool, ok: impl FnOnce(&mut Rng) -> T) -> Result<T, ProtocolError> {
    if rng.chance(2, 3) {
        Ok(ok(rng))
    } else {
        Err(gen_error_p(rng, plain))
    }
}
fn gen_proofs(rng: &mut Rng) -> Vec<(NetworkAddress, Result<ChunkProof, ProtocolError>)> {
    gen_proofs_p(rng, false)
}
fn gen_proofs_p(rng: &mut Rng, plain: bool) -> Vec<(NetworkAddress, Result<ChunkProof, ProtocolError>)> {
    (0..rng.below(4))
        .map(|_| {
            let n = rng.below(20) as usize;
            (gen_addr(rng, plain), gen_result_p(rng, plain, |r| ChunkProof::new(&r.bytes(n), r.next())))
        })
        .collect()
}
fn gen_multiaddr(rng: &mut Rng) -> Multiaddr {
    let s = match rng.below(3) {
        0 => format!("/ip4/{}.{}.{}.{}/udp/{}/quic-v1", rng.below(256), rng.below(256), rng.below(256), rng.below(256), rng.below(65536)),
        1 => format!("/ip4/10.0.0.{}/tcp/{}", rng.below(256), rng.below(65536)),
        _ => format!("/ip4/127.0.0.1/udp/{}/quic-v1/p2p/{}", rng.below(65536), peer_id(rng)),
    };
    s.parse().expect("multiaddr")
}
fn gen_query_response(rng: &mut Rng) -> QueryResponse {
    gen_query_response_p(rng, false)
}
fn gen_query_response_p(rng: &mut Rng, plain: bool) -> QueryResponse {
    match rng.below(6) {
        0 => QueryResponse::GetStoreQuote { quote: gen_result_p(rng, plain, gen_quote), peer_address: gen_addr(rng, plain), storage_proofs: gen_proofs_p(rng, plain) },
        1 => QueryResponse::CheckNodeInProblem { reporter_address: gen_addr(rng, plain), target_address: gen_addr(rng, plain), is_in_trouble: rng.chance(1, 2) },
        2 => QueryResponse::GetReplicatedRecord(gen_result_p(rng, plain, |r| (gen_addr(r, plain), gen_bytes(r)))),
        3 => QueryResponse::GetRegisterRecord(gen_result_p(rng, plain, |r| (gen_addr(r, plain), gen_bytes(r)))),
        4 => QueryResponse::GetChunkExistenceProof(gen_proofs_p(rng, plain)),
        _ => QueryResponse::GetClosestPeers {
            target: gen_addr(rng, plain),
            peers: (0..rng.below(4)).map(|_| (gen_addr(rng, plain), (0..if plain { 0 } else { rng.below(3) }).map(|_| gen_multiaddr(rng)).collect())).collect(),
            signature: if rng.chance(1, 2) { None } else { Some(rng.bytes(*rng.clone().pick(&[0usize, 64, 96]))) },
        },
    }
}
fn gen_cmd_response(rng: &mut Rng) -> CmdResponse {
    gen_cmd_response_p(rng, false)
}
fn gen_cmd_response_p(rng: &mut Rng, plain: bool) -> CmdResponse {
    if rng.chance(1, 2) {
        CmdResponse::Replicate(gen_result_p(rng, plain, |_| ()))
    } else {
        CmdResponse::PeerConsideredAsBad(gen_result_p(rng, plain, |_| ()))
    }
}

fn tree_of<T: Serialize>(v: &T) -> Tree {
    to_tree(v).expect("value to tree")
}
/// a generated value of the named type, as a tree
fn gen_tree(rng: &mut Rng, name: &str, plain: bool) -> Tree {
    match name {
        "RecordHeader" => tree_of(&RecordHeader { kind: *rng.pick(&KINDS) }),
        "Chunk" => tree_of(&gen_chunk(rng)),
        "RecordType" => tree_of(&gen_record_type(rng)),
        "NetworkAddress" => tree_of(&gen_addr(rng, plain)),
        "QuotingMetrics" => tree_of(&gen_metrics(rng)),
        "PaymentQuote" => tree_of(&gen_quote(rng)),
        "ProofOfPayment" => tree_of(&gen_proof(rng)),
        "PaidChunk" => tree_of(&(gen_proof(rng), gen_chunk(rng))),
        "Scratchpad" => tree_of(&gen_scratchpad(rng)),
        "PaidScratchpad" => tree_of(&(gen_proof(rng), gen_scratchpad(rng))),
        "Transactions" => tree_of(&(0..rng.below(3)).map(|_| gen_transaction(rng)).collect::<Vec<_>>()),
        "PaidTransaction" => tree_of(&(gen_proof(rng), gen_transaction(rng))),
        "SignedRegister" => tree_of(&gen_signed_register(rng)),
        "PaidRegister" => tree_of(&(gen_proof(rng), gen_signed_register(rng))),
        "ProtocolError" => tree_of(&gen_error(rng)),
        "Cmd" => tree_of(&gen_cmd(rng)),
        "Query" => tree_of(&gen_query(rng)),
        "Request" => tree_of(&if rng.chance(1, 2) { Request::Cmd(gen_cmd(rng)) } else { Request::Query(gen_query(rng)) }),
        "CmdResponse" => tree_of(&gen_cmd_response(rng)),
        "QueryResponse" => tree_of(&gen_query_response(rng)),
        "Response" => tree_of(&if rng.chance(1, 3) { Response::Cmd(gen_cmd_response(rng)) } else { Response::Query(gen_query_response(rng)) }),
        _ => Tree::Unit,
    }
}
/// record kinds under which a type is stored
fn kinds_for(name: &str) -> &'static [RecordKind] {
    match name {
        "Chunk" => &[RecordKind::Chunk],
        "PaidChunk" => &[RecordKind::ChunkWithPayment],
        "Scratchpad" => &[RecordKind::Scratchpad],
        "PaidScratchpad" => &[RecordKind::ScratchpadWithPayment],
        "Transactions" => &[RecordKind::Transaction],
        "PaidTransaction" => &[RecordKind::TransactionWithPayment],
        "SignedRegister" => &[RecordKind::Register],
        "PaidRegister" => &[RecordKind::RegisterWithPayment],
        _ => &[],
    }
}

// ---------------------------------------------------------------- CBOR: the codec Request / Response really travel through

/// The codec type behind `libp2p::request_response::cbor::Behaviour<Request, Response>` — exactly the type
/// `ant-networking/src/driver.rs` instantiates.  Its module is private, so the type is recovered from the public alias.
trait CodecOf {
    type C;
}
impl<C: libp2p::request_response::Codec + Clone + Send + 'static> CodecOf for libp2p::request_response::Behaviour<C> {
    type C = C;
}
type RealCodec = <libp2p::request_response::cbor::Behaviour<Request, Response> as CodecOf>::C;

fn proto() -> libp2p::StreamProtocol {
    libp2p::StreamProtocol::new("/verif/c12")
}
fn codec_write_request(v: Request) -> Result<Vec<u8>, String> {
    use libp2p::request_response::Codec as _;
    let mut buf: Vec<u8> = vec![];
    futures::executor::block_on(RealCodec::default().write_request(&proto(), &mut buf, v)).map_err(|e| e.to_string())?;
    Ok(buf)
}
fn codec_write_response(v: Response) -> Result<Vec<u8>, String> {
    use libp2p::request_response::Codec as _;
    let mut buf: Vec<u8> = vec![];
    futures::executor::block_on(RealCodec::default().write_response(&proto(), &mut buf, v)).map_err(|e| e.to_string())?;
    Ok(buf)
}
fn codec_read_request(b: &[u8]) -> Result<Request, String> {
    use libp2p::request_response::Codec as _;
    let mut io = futures::io::Cursor::new(b.to_vec());
    futures::executor::block_on(RealCodec::default().read_request(&proto(), &mut io)).map_err(|e| e.to_string())
}
fn codec_read_response(b: &[u8]) -> Result<Response, String> {
    use libp2p::request_response::Codec as _;
    let mut io = futures::io::Cursor::new(b.to_vec());
    futures::executor::block_on(RealCodec::default().read_response(&proto(), &mut io)).map_err(|e| e.to_string())
}

struct CTy {
    name: &'static str,
    /// named tree -> typed value -> CBOR bytes; also checks that tree -> value -> tree is the identity
    enc: fn(&Tree) -> Result<Vec<u8>, String>,
    /// bytes -> typed value; Ok((named tree, re-serialised bytes))
    dec: fn(&[u8]) -> Result<(Tree, Vec<u8>), String>,
}
fn value_of<T: Serialize + DeserializeOwned>(t: &Tree) -> Result<T, String> {
    let v: T = from_tree(t).map_err(|e| format!("tree does not describe a value of this type: {e}"))?;
    let back = to_tree_named(&v).map_err(|e| e.to_string())?;
    if back != *t {
        return Err(format!("tree round trip differs: {}", back.text()));
    }
    Ok(v)
}
/// what the codec's `write_*` does with the value
fn cbor_to_vec<T: Serialize>(v: &T) -> Result<Vec<u8>, String> {
    cbor4ii::serde::to_vec(Vec::new(), v).map_err(|e| e.to_string())
}
fn cenc_t<T: Serialize + DeserializeOwned>(t: &Tree) -> Result<Vec<u8>, String> {
    cbor_to_vec(&value_of::<T>(t)?)
}
/// A decoded message is logged by its receiver (`{:?}` of the whole request / of its addresses at INFO and above in
/// ant-networking's request handlers): formatting what was decoded is part of "decoding never crashes" (a panic here
/// is caught by `exec`'s catch_unwind and reported as `panic`). Found by audit: `Debug for NetworkAddress::RecordKey`
/// sliced the key's hex `[0..6]`, so a well-formed message carrying a 0-2 byte record key panicked the handler.
fn log_like_a_receiver<T: std::fmt::Debug>(v: &T) {
    let _ = format!("{v:?}");
}
fn cdec_t<T: Serialize + DeserializeOwned + std::fmt::Debug>(b: &[u8]) -> Result<(Tree, Vec<u8>), String> {
    // what the codec's `read_*` does with the bytes it has read
    let v: T = cbor4ii::serde::from_slice(b).map_err(|e| e.to_string())?;
    log_like_a_receiver(&v);
    Ok((to_tree_named(&v).map_err(|e| e.to_string())?, cbor_to_vec(&v)?))
}
fn cenc_request(t: &Tree) -> Result<Vec<u8>, String> {
    codec_write_request(value_of::<Request>(t)?)
}
fn cenc_response(t: &Tree) -> Result<Vec<u8>, String> {
    codec_write_response(value_of::<Response>(t)?)
}
fn cdec_request(b: &[u8]) -> Result<(Tree, Vec<u8>), String> {
    let v = codec_read_request(b)?;
    log_like_a_receiver(&v);
    Ok((to_tree_named(&v).map_err(|e| e.to_string())?, codec_write_request(v)?))
}
fn cdec_response(b: &[u8]) -> Result<(Tree, Vec<u8>), String> {
    let v = codec_read_response(b)?;
    log_like_a_receiver(&v);
    Ok((to_tree_named(&v).map_err(|e| e.to_string())?, codec_write_response(v)?))
}
macro_rules! cty {
    ($name:expr, $t:ty) => {
        CTy { name: $name, enc: cenc_t::<$t>, dec: cdec_t::<$t> }
    };
}
fn ctypes() -> Vec<CTy> {
    vec![
        cty!("RecordType", RecordType),
        cty!("NetworkAddress", NetworkAddress),
        cty!("QuotingMetrics", QuotingMetrics),
        cty!("PaymentQuote", PaymentQuote),
        cty!("ProtocolError", ProtocolError),
        cty!("Cmd", Cmd),
        cty!("Query", Query),
        CTy { name: "Request", enc: cenc_request, dec: cdec_request },
        cty!("CmdResponse", CmdResponse),
        cty!("QueryResponse", QueryResponse),
        CTy { name: "Response", enc: cenc_response, dec: cdec_response },
    ]
}
fn named_tree_of<T: Serialize>(v: &T) -> Tree {
    to_tree_named(v).expect("value to named tree")
}
fn gen_request(rng: &mut Rng, plain: bool) -> Request {
    if rng.chance(1, 3) {
        Request::Cmd(gen_cmd_p(rng, plain))
    } else {
        Request::Query(gen_query_p(rng, plain))
    }
}
fn gen_response(rng: &mut Rng, plain: bool) -> Response {
    if rng.chance(1, 4) {
        Response::Cmd(gen_cmd_response_p(rng, plain))
    } else {
        Response::Query(gen_query_response_p(rng, plain))
    }
}
/// a generated value of the named CBOR type, as a named tree
fn gen_ctree(rng: &mut Rng, name: &str, plain: bool) -> Tree {
    match name {
        "RecordType" => named_tree_of(&gen_record_type(rng)),
        "NetworkAddress" => named_tree_of(&gen_addr(rng, plain)),
        "QuotingMetrics" => named_tree_of(&gen_metrics(rng)),
        "PaymentQuote" => named_tree_of(&gen_quote(rng)),
        "ProtocolError" => named_tree_of(&gen_error_p(rng, plain)),
        "Cmd" => named_tree_of(&gen_cmd_p(rng, plain)),
        "Query" => named_tree_of(&gen_query_p(rng, plain)),
        "Request" => named_tree_of(&gen_request(rng, plain)),
        "CmdResponse" => named_tree_of(&gen_cmd_response_p(rng, plain)),
        "QueryResponse" => named_tree_of(&gen_query_response_p(rng, plain)),
        "Response" => named_tree_of(&gen_response(rng, plain)),
        _ => Tree::Unit,
    }
}
/// one hand-built message per variant of Request / Response (and per interesting payload), the corpus every run starts with
fn message_corpus() -> Vec<(&'static str, Tree)> {
    let a = |b: u8| NetworkAddress::ChunkAddress(ChunkAddress::new(XorName([b; 32])));
    let peer = NetworkAddress::from_peer(libp2p::identity::Keypair::ed25519_from_bytes([7u8; 32]).expect("key").public().to_peer_id());
    let rk = NetworkAddress::RecordKey(Bytes::from_static(b"record-key"));
    let key = PrettyPrintRecordKey::from(&RecordKey::new(&[1u8, 2, 3, 0x18, 0xff])).into_owned();
    let mut quote = PaymentQuote::zero();
    quote.content = XorName([9; 32]);
    quote.timestamp = SystemTime::UNIX_EPOCH + Duration::new(1_700_000_000, 123_456_789);
    quote.quoting_metrics.network_size = Some(5000);
    quote.pub_key = vec![1, 2, 3];
    quote.signature = vec![4; 64];
    let rq = |r: Request| ("Request", named_tree_of(&r));
    let rs = |r: Response| ("Response", named_tree_of(&r));
    vec![
        rq(Request::Cmd(Cmd::Replicate { holder: peer.clone(), keys: vec![(a(1), RecordType::Chunk), (rk.clone(), RecordType::Scratchpad), (a(2), RecordType::NonChunk(XorName([3; 32])))] })),
        rq(Request::Cmd(Cmd::Replicate { holder: peer.clone(), keys: vec![] })),
        rq(Request::Cmd(Cmd::PeerConsideredAsBad { detected_by: peer.clone(), bad_peer: a(4), bad_behaviour: "failed chunk proof √".into() })),
        rq(Request::Query(Query::GetStoreQuote { key: a(5), nonce: None, difficulty: 0 })),
        rq(Request::Query(Query::GetStoreQuote { key: a(5), nonce: Some(u64::MAX), difficulty: 24 })),
        rq(Request::Query(Query::GetReplicatedRecord { requester: peer.clone(), key: a(6) })),
        rq(Request::Query(Query::GetRegisterRecord { requester: peer.clone(), key: rk.clone() })),
        rq(Request::Query(Query::GetChunkExistenceProof { key: a(7), nonce: 23, difficulty: 256 })),
        rq(Request::Query(Query::CheckNodeInProblem(peer.clone()))),
        rq(Request::Query(Query::GetClosestPeers { key: a(8), num_of_peers: Some(65536), range: Some([0xAA; 32]), sign_result: true })),
        rq(Request::Query(Query::GetClosestPeers { key: a(8), num_of_peers: None, range: None, sign_result: false })),
        rs(Response::Cmd(CmdResponse::Replicate(Ok(())))),
        rs(Response::Cmd(CmdResponse::PeerConsideredAsBad(Err(ProtocolError::RecordParsingFailed)))),
        rs(Response::Query(QueryResponse::GetStoreQuote { quote: Err(ProtocolError::RecordExists(key.clone())), peer_address: peer.clone(), storage_proofs: vec![] })),
        rs(Response::Query(QueryResponse::GetStoreQuote {
            quote: Ok(quote.clone()),
            peer_address: peer.clone(),
            storage_proofs: vec![(a(9), Ok(ChunkProof::new(b"value", 1))), (a(10), Err(ProtocolError::ChunkDoesNotExist(a(10))))],
        })),
        rs(Response::Query(QueryResponse::CheckNodeInProblem { reporter_address: peer.clone(), target_address: a(11), is_in_trouble: true })),
        rs(Response::Query(QueryResponse::GetReplicatedRecord(Ok((peer.clone(), Bytes::from(vec![0xEE; 300])))))),
        rs(Response::Query(QueryResponse::GetReplicatedRecord(Err(ProtocolError::ReplicatedRecordNotFound { holder: Box::new(peer.clone()), key: Box::new(a(12)) })))),
        rs(Response::Query(QueryResponse::GetRegisterRecord(Ok((peer.clone(), Bytes::new()))))),
        rs(Response::Query(QueryResponse::GetRegisterRecord(Err(ProtocolError::RegisterRecordNotFound { holder: Box::new(peer.clone()), key: Box::new(rk.clone()) })))),
        rs(Response::Query(QueryResponse::GetChunkExistenceProof(vec![(a(13), Ok(ChunkProof::new(b"x", 2)))]))),
        rs(Response::Query(QueryResponse::GetClosestPeers { target: a(14), peers: vec![(peer.clone(), vec!["/ip4/10.0.0.1/udp/1200/quic-v1".parse().expect("multiaddr")])], signature: Some(vec![5; 96]) })),
        rs(Response::Query(QueryResponse::GetClosestPeers { target: a(14), peers: vec![], signature: None })),
    ]
}

/// GOLDEN vectors: CBOR bytes of fixed messages as written by the code on the day they were recorded.  Nodes built from an
/// older source put exactly these bytes on the wire; the current code has to read them and write them back unchanged.
const GOLDEN: &[(&str, &str)] = &[
    // GOLDEN-BEGIN (the 23 corpus messages of `message_corpus`, recorded from the unmodified tree)
    ("Request", "a163436d64a1695265706c6963617465a266686f6c646572a1665065657249645826002408011220ea4a6c63e29c520abef5507b132ec5f9954776aebebe7b92421eea691446d22c646b6579738382a16c4368756e6b4164647265737398200101010101010101010101010101010101010101010101010101010101010101654368756e6b82a1695265636f72644b65794a7265636f72642d6b65796a5363726174636870616482a16c4368756e6b4164647265737398200202020202020202020202020202020202020202020202020202020202020202a1684e6f6e4368756e6b98200303030303030303030303030303030303030303030303030303030303030303"),
    ("Request", "a163436d64a1695265706c6963617465a266686f6c646572a1665065657249645826002408011220ea4a6c63e29c520abef5507b132ec5f9954776aebebe7b92421eea691446d22c646b65797380"),
    ("Request", "a163436d64a17350656572436f6e736964657265644173426164a36b64657465637465645f6279a1665065657249645826002408011220ea4a6c63e29c520abef5507b132ec5f9954776aebebe7b92421eea691446d22c686261645f70656572a16c4368756e6b41646472657373982004040404040404040404040404040404040404040404040404040404040404046d6261645f6265686176696f7572766661696c6564206368756e6b2070726f6f6620e2889a"),
    ("Request", "a1655175657279a16d47657453746f726551756f7465a3636b6579a16c4368756e6b4164647265737398200505050505050505050505050505050505050505050505050505050505050505656e6f6e6365f66a646966666963756c747900"),
    ("Request", "a1655175657279a16d47657453746f726551756f7465a3636b6579a16c4368756e6b4164647265737398200505050505050505050505050505050505050505050505050505050505050505656e6f6e63651bffffffffffffffff6a646966666963756c74791818"),
    ("Request", "a1655175657279a1734765745265706c6963617465645265636f7264a269726571756573746572a1665065657249645826002408011220ea4a6c63e29c520abef5507b132ec5f9954776aebebe7b92421eea691446d22c636b6579a16c4368756e6b4164647265737398200606060606060606060606060606060606060606060606060606060606060606"),
    ("Request", "a1655175657279a17147657452656769737465725265636f7264a269726571756573746572a1665065657249645826002408011220ea4a6c63e29c520abef5507b132ec5f9954776aebebe7b92421eea691446d22c636b6579a1695265636f72644b65794a7265636f72642d6b6579"),
    ("Request", "a1655175657279a1764765744368756e6b4578697374656e636550726f6f66a3636b6579a16c4368756e6b4164647265737398200707070707070707070707070707070707070707070707070707070707070707656e6f6e6365176a646966666963756c7479190100"),
    ("Request", "a1655175657279a172436865636b4e6f6465496e50726f626c656da1665065657249645826002408011220ea4a6c63e29c520abef5507b132ec5f9954776aebebe7b92421eea691446d22c"),
    ("Request", "a1655175657279a16f476574436c6f736573745065657273a4636b6579a16c4368756e6b41646472657373982008080808080808080808080808080808080808080808080808080808080808086c6e756d5f6f665f70656572731a000100006572616e6765982018aa18aa18aa18aa18aa18aa18aa18aa18aa18aa18aa18aa18aa18aa18aa18aa18aa18aa18aa18aa18aa18aa18aa18aa18aa18aa18aa18aa18aa18aa18aa18aa6b7369676e5f726573756c74f5"),
    ("Request", "a1655175657279a16f476574436c6f736573745065657273a4636b6579a16c4368756e6b41646472657373982008080808080808080808080808080808080808080808080808080808080808086c6e756d5f6f665f7065657273f66572616e6765f66b7369676e5f726573756c74f4"),
    ("Response", "a163436d64a1695265706c6963617465a1624f6b80"),
    ("Response", "a163436d64a17350656572436f6e736964657265644173426164a163457272735265636f726450617273696e674661696c6564"),
    ("Response", "a1655175657279a16d47657453746f726551756f7465a36571756f7465a163457272a16c5265636f726445786973747385010203181818ff6c706565725f61646472657373a1665065657249645826002408011220ea4a6c63e29c520abef5507b132ec5f9954776aebebe7b92421eea691446d22c6e73746f726167655f70726f6f667380"),
    ("Response", "a1655175657279a16d47657453746f726551756f7465a36571756f7465a1624f6ba667636f6e74656e74982009090909090909090909090909090909090909090909090909090909090909096974696d657374616d70a270736563735f73696e63655f65706f63681a6553f100716e616e6f735f73696e63655f65706f63681a075bcd156f71756f74696e675f6d657472696373a674636c6f73655f7265636f7264735f73746f726564006b6d61785f7265636f726473007672656365697665645f7061796d656e745f636f756e7400696c6976655f74696d65006f6e6574776f726b5f64656e73697479f66c6e6574776f726b5f73697a651913886f726577617264735f616464726573735414a1c4017979ad6e2d4bd1fdd420f76858c9b65d677075625f6b657983010203697369676e61747572659840040404040404040404040404040404040404040404040404040404040404040404040404040404040404040404040404040404040404040404040404040404046c706565725f61646472657373a1665065657249645826002408011220ea4a6c63e29c520abef5507b132ec5f9954776aebebe7b92421eea691446d22c6e73746f726167655f70726f6f66738282a16c4368756e6b4164647265737398200909090909090909090909090909090909090909090909090909090909090909a1624f6b9820187518c8182e1892188f185a18ec188318e71870186312185c18bc18d918c4183818e818a318f00f18c218521822130b18ed1866188018a718f90c82a16c4368756e6b4164647265737398200a0a0a0a0a0a0a0a0a0a0a0a0a0a0a0a0a0a0a0a0a0a0a0a0a0a0a0a0a0a0a0aa163457272a1714368756e6b446f65734e6f744578697374a16c4368756e6b4164647265737398200a0a0a0a0a0a0a0a0a0a0a0a0a0a0a0a0a0a0a0a0a0a0a0a0a0a0a0a0a0a0a0a"),
    ("Response", "a1655175657279a172436865636b4e6f6465496e50726f626c656da3707265706f727465725f61646472657373a1665065657249645826002408011220ea4a6c63e29c520abef5507b132ec5f9954776aebebe7b92421eea691446d22c6e7461726765745f61646472657373a16c4368756e6b4164647265737398200b0b0b0b0b0b0b0b0b0b0b0b0b0b0b0b0b0b0b0b0b0b0b0b0b0b0b0b0b0b0b0b6d69735f696e5f74726f75626c65f5"),
    ("Response", "a1655175657279a1734765745265706c6963617465645265636f7264a1624f6b82a1665065657249645826002408011220ea4a6c63e29c520abef5507b132ec5f9954776aebebe7b92421eea691446d22c59012ceeeeeeeeeeeeeeeeeeeeeeeeeeeeeeeeeeeeeeeeeeeeeeeeeeeeeeeeeeeeeeeeeeeeeeeeeeeeeeeeeeeeeeeeeeeeeeeeeeeeeeeeeeeeeeeeeeeeeeeeeeeeeeeeeeeeeeeeeeeeeeeeeeeeeeeeeeeeeeeeeeeeeeeeeeeeeeeeeeeeeeeeeeeeeeeeeeeeeeeeeeeeeeeeeeeeeeeeeeeeeeeeeeeeeeeeeeeeeeeeeeeeeeeeeeeeeeeeeeeeeeeeeeeeeeeeeeeeeeeeeeeeeeeeeeeeeeeeeeeeeeeeeeeeeeeeeeeeeeeeeeeeeeeeeeeeeeeeeeeeeeeeeeeeeeeeeeeeeeeeeeeeeeeeeeeeeeeeeeeeeeeeeeeeeeeeeeeeeeeeeeeeeeeeeeeeeeeeeeeeeeeeeeeeeeeeeeeeeeeeeeeeeeeeeeeeeeeeeeeeeeeeeeeeeeeeeeeeeeeeeeeeeeeeeeeeeeeeeeeeeeeeeeeeeeeeeeeeeeeeeeeeeeeeeeeeeeeeeeeeeeeeeeeeeeeeeeeeeeeeeeeeeeeeeeeeeeeeeeeeeeeeeeeeeeeeeeeeeeee"),
    ("Response", "a1655175657279a1734765745265706c6963617465645265636f7264a163457272a178185265706c6963617465645265636f72644e6f74466f756e64a266686f6c646572a1665065657249645826002408011220ea4a6c63e29c520abef5507b132ec5f9954776aebebe7b92421eea691446d22c636b6579a16c4368756e6b4164647265737398200c0c0c0c0c0c0c0c0c0c0c0c0c0c0c0c0c0c0c0c0c0c0c0c0c0c0c0c0c0c0c0c"),
    ("Response", "a1655175657279a17147657452656769737465725265636f7264a1624f6b82a1665065657249645826002408011220ea4a6c63e29c520abef5507b132ec5f9954776aebebe7b92421eea691446d22c40"),
    ("Response", "a1655175657279a17147657452656769737465725265636f7264a163457272a17652656769737465725265636f72644e6f74466f756e64a266686f6c646572a1665065657249645826002408011220ea4a6c63e29c520abef5507b132ec5f9954776aebebe7b92421eea691446d22c636b6579a1695265636f72644b65794a7265636f72642d6b6579"),
    ("Response", "a1655175657279a1764765744368756e6b4578697374656e636550726f6f668182a16c4368756e6b4164647265737398200d0d0d0d0d0d0d0d0d0d0d0d0d0d0d0d0d0d0d0d0d0d0d0d0d0d0d0d0d0d0d0da1624f6b982018ca185911187f1870189318ee1823188218f518aa182f18c8189218d118aa18ed18b018c6186b18981418af1859189a1418e518cc18ac18ea18431821"),
    ("Response", "a1655175657279a16f476574436c6f736573745065657273a366746172676574a16c4368756e6b4164647265737398200e0e0e0e0e0e0e0e0e0e0e0e0e0e0e0e0e0e0e0e0e0e0e0e0e0e0e0e0e0e0e0e6570656572738182a1665065657249645826002408011220ea4a6c63e29c520abef5507b132ec5f9954776aebebe7b92421eea691446d22c814b040a000001910204b0cd03697369676e61747572659860050505050505050505050505050505050505050505050505050505050505050505050505050505050505050505050505050505050505050505050505050505050505050505050505050505050505050505050505050505050505050505050505"),
    ("Response", "a1655175657279a16f476574436c6f736573745065657273a366746172676574a16c4368756e6b4164647265737398200e0e0e0e0e0e0e0e0e0e0e0e0e0e0e0e0e0e0e0e0e0e0e0e0e0e0e0e0e0e0e0e65706565727380697369676e6174757265f6"),
    // GOLDEN-END
];

/// every name that may appear as a map key of a Request / Response on the wire today (variant names and field names)
const WIRE_NAMES: &[&str] = &[
    "Cmd", "Query", "Replicate", "PeerConsideredAsBad", "holder", "keys", "detected_by", "bad_peer", "bad_behaviour",
    "GetStoreQuote", "GetReplicatedRecord", "GetRegisterRecord", "GetChunkExistenceProof", "CheckNodeInProblem", "GetClosestPeers",
    "key", "nonce", "difficulty", "requester", "num_of_peers", "range", "sign_result",
    "quote", "peer_address", "storage_proofs", "reporter_address", "target_address", "is_in_trouble", "target", "peers", "signature",
    "Ok", "Err",
    "PeerId", "ChunkAddress", "TransactionAddress", "RegisterAddress", "RecordKey", "ScratchpadAddress", "meta", "owner", "NonChunk",
    "content", "timestamp", "quoting_metrics", "rewards_address", "pub_key", "secs_since_epoch", "nanos_since_epoch",
    "close_records_stored", "max_records", "received_payment_count", "live_time", "network_density", "network_size",
    "ChunkDoesNotExist", "RegisterNotFound", "RegisterAlreadyClaimed", "RegisterRecordNotFound", "ReplicatedRecordNotFound", "RecordExists",
];

/// An independent, minimal reader of definite-length CBOR (the oracle's own; shares nothing with cbor4ii or the model):
/// walks one item and collects every text string that stands in map-key position.  None = not well-formed for this reader.
fn cbor_walk(b: &[u8], pos: &mut usize, keys: &mut Vec<String>, depth: usize) -> Option<()> {
    if depth > 64 {
        return None;
    }
    let first = *b.get(*pos)?;
    *pos += 1;
    let (major, info) = (first >> 5, first & 0x1f);
    let arg: u64 = match info {
        0..=23 => info as u64,
        24..=27 => {
            let n = 1usize << (info - 24);
            let s = b.get(*pos..*pos + n)?;
            *pos += n;
            s.iter().fold(0u64, |a, x| (a << 8) | *x as u64)
        }
        _ => return None,
    };
    match major {
        0 | 1 => Some(()),
        2 | 3 => {
            let n = usize::try_from(arg).ok()?;
            b.get(*pos..pos.checked_add(n)?)?;
            *pos += n;
            Some(())
        }
        4 => {
            for _ in 0..arg {
                cbor_walk(b, pos, keys, depth + 1)?;
            }
            Some(())
        }
        5 => {
            for _ in 0..arg {
                let start = *pos;
                cbor_walk(b, pos, keys, depth + 1)?;
                if b[start] >> 5 == 3 {
                    // a text key: header then the text
                    let hdr = match b[start] & 0x1f {
                        0..=23 => 1,
                        i => 1 + (1usize << (i - 24)),
                    };
                    keys.push(String::from_utf8_lossy(&b[start + hdr..*pos]).into_owned());
                }
                cbor_walk(b, pos, keys, depth + 1)?;
            }
            Some(())
        }
        7 if matches!(first, 0xf4 | 0xf5 | 0xf6) => Some(()),
        _ => None,
    }
}

/// the chain of variant names a message tree starts with (for the distribution counters)
fn variant_path(t: &Tree) -> String {
    let mut parts: Vec<String> = vec![];
    let mut cur = t;
    loop {
        match cur {
            Tree::NVar(n, p) => {
                parts.push(n.clone());
                cur = p;
            }
            Tree::UVar(n) => {
                parts.push(n.clone());
                break;
            }
            Tree::Rec(fs) => {
                // a Result-typed field decides the class of a response
                if let Some((k, Tree::NVar(r, p))) = fs.iter().find(|(_, v)| matches!(v, Tree::NVar(r, _) if r == "Ok" || r == "Err")) {
                    parts.push(format!("{k}={r}"));
                    if r == "Err" {
                        cur = p;
                        continue;
                    }
                }
                break;
            }
            _ => break,
        }
    }
    parts.join(":")
}

// ---------------------------------------------------------------- values the real serialiser refuses

/// A value whose `Serialize` impl writes `0` fields successfully and then fails (what any user type may do).
struct FailAfter(usize);
impl Serialize for FailAfter {
    fn serialize<S: serde::Serializer>(&self, s: S) -> Result<S::Ok, S::Error> {
        use serde::ser::SerializeTuple;
        let mut t = s.serialize_tuple(self.0 + 1)?;
        for i in 0..self.0 {
            t.serialize_element(&(i as u64 * 1000))?;
        }
        Err(serde::ser::Error::custom("refused"))
    }
}
fn pre_epoch_quote(secs_before: u64) -> PaymentQuote {
    let mut q = PaymentQuote::zero();
    q.content = XorName([0xAB; 32]);
    q.timestamp = SystemTime::UNIX_EPOCH - Duration::from_secs(secs_before); // serde: "SystemTime must be later than UNIX_EPOCH"
    q
}
const N_UNSER: u64 = 6;
/// try_serialize_record of the n-th unserialisable value; Ok(bytes) only if the serialiser unexpectedly accepts it
fn unserialisable(n: u64, k: RecordKind) -> Result<Vec<u8>, String> {
    let proof = |q: PaymentQuote| ProofOfPayment { peer_quotes: vec![(EncodedPeerId::from(PeerId::random()), q)] };
    let r = match n {
        0 => try_serialize_record(&(proof(pre_epoch_quote(1)), Chunk::new(Bytes::from_static(b"paid chunk"))), k),
        1 => try_serialize_record(&pre_epoch_quote(86_400), k),
        2 => {
            let good = PaymentQuote::zero();
            let p = ProofOfPayment { peer_quotes: vec![(EncodedPeerId::from(PeerId::random()), good), (EncodedPeerId::from(PeerId::random()), pre_epoch_quote(5))] };
            try_serialize_record(&(p, Chunk::new(Bytes::from(vec![7u8; 300]))), k)
        }
        3 => try_serialize_record(&FailAfter(0), k),
        4 => try_serialize_record(&FailAfter(3), k),
        _ => try_serialize_record(&vec![FailAfter(40)], k),
    };
    r.map(|b| b.to_vec()).map_err(|e| format!("{e:?}"))
}

// ---------------------------------------------------------------- execution on the real code

fn sha3_256(input: &[u8]) -> [u8; 32] {
    use tiny_keccak::{Hasher, Sha3};
    let mut h = Sha3::v256();
    let mut o = [0u8; 32];
    h.update(input);
    h.finalize(&mut o);
    o
}

fn rle(items: &[String]) -> String {
    let mut out: Vec<String> = vec![];
    let mut i = 0;
    while i < items.len() {
        let mut j = i;
        while j < items.len() && items[j] == items[i] {
            j += 1;
        }
        out.push(format!("{}*{}", items[i], j - i));
        i = j;
    }
    out.join(",")
}

fn exec(line: &str, tys: &[Ty]) -> String {
    let ws: Vec<&str> = line.split_whitespace().collect();
    let ty = |n: &str| tys.iter().find(|t| t.name == n);
    let r = catch_unwind(AssertUnwindSafe(|| -> Option<String> {
        match ws[0] {
            "hdr" => {
                let k = kind_of(ws[1])?;
                Some(match (RecordHeader { kind: k }).try_serialize() {
                    Ok(b) => hex(&b),
                    Err(_) => "err".into(),
                })
            }
            "hdrdec" => {
                let b = unhex(ws[1])?;
                Some(match RecordHeader::from_record(&record(b)) {
                    Ok(h) => format!("ok {}", kind_name(h.kind)),
                    Err(_) => "err".into(),
                })
            }
            "reghex" => {
                let text = String::from_utf8(unhex(ws[1])?).ok()?;
                Some(match RegisterAddress::from_hex(&text) {
                    Ok(a) if a.to_hex().eq_ignore_ascii_case(&text) => "ok".into(),
                    Ok(_) => "ok-but-prints-differently".into(),
                    Err(_) => "err".into(),
                })
            }
            "ischunk" => {
                let b = unhex(ws[1])?;
                Some(match RecordHeader::is_record_of_type_chunk(&record(b)) {
                    Ok(x) => format!("ok {x}"),
                    Err(_) => "err".into(),
                })
            }
            "ischunksweep" => {
                let b0 = u8::from_str_radix(ws[1], 16).ok()?;
                let mut parts = vec![];
                for b1 in 0..=255u8 {
                    let row: Vec<String> = (0..=255u8)
                        .map(|b2| match RecordHeader::is_record_of_type_chunk(&record(vec![b0, b1, b2, 0xc1])) {
                            Ok(true) => "t".into(),
                            Ok(false) => "f".into(),
                            Err(_) => "-".into(),
                        })
                        .collect();
                    if row.iter().any(|x| x != "-") {
                        parts.push(format!("{b1:02x}:{}", rle(&row)));
                    }
                }
                Some(if parts.is_empty() { "none".into() } else { parts.join(" ") })
            }
            "hdrtry" => {
                let b = unhex(ws[1])?;
                Some(match RecordHeader::try_deserialize(&b) {
                    Ok(h) => format!("ok {}", kind_name(h.kind)),
                    Err(_) => "err".into(),
                })
            }
            "hdrtrysweep2" => {
                let mut parts = vec![];
                for b0 in 0..=255u8 {
                    let row: Vec<String> = (0..=255u8)
                        .map(|b1| match RecordHeader::try_deserialize(&[b0, b1]) {
                            Ok(h) => kind_name(h.kind),
                            Err(_) => "-".into(),
                        })
                        .collect();
                    if row.iter().any(|x| x != "-") {
                        parts.push(format!("{b0:02x}:{}", rle(&row)));
                    }
                }
                Some(if parts.is_empty() { "none".into() } else { parts.join(" ") })
            }
            "hdrsweep" => {
                let b0 = u8::from_str_radix(ws[1], 16).ok()?;
                let mut parts = vec![];
                for b1 in 0..=255u8 {
                    let row: Vec<String> = (0..=255u8)
                        .map(|b2| match RecordHeader::from_record(&record(vec![b0, b1, b2, 0xc1])) {
                            Ok(h) => kind_name(h.kind),
                            Err(_) => "-".into(),
                        })
                        .collect();
                    if row.iter().any(|x| x != "-") {
                        parts.push(format!("{b1:02x}:{}", rle(&row)));
                    }
                }
                Some(if parts.is_empty() { "none".into() } else { parts.join(" ") })
            }
            "enc" => {
                let (t, _) = Tree::parse(&ws[2..])?;
                Some(match (ty(ws[1])?.enc)(&t) {
                    Ok(b) => hex(&b),
                    Err(e) => format!("bad-value {}", e.replace(char::is_whitespace, "_")),
                })
            }
            "rec" => {
                let k = kind_of(ws[1])?;
                let (t, _) = Tree::parse(&ws[3..])?;
                Some(match (ty(ws[2])?.rec)(&t, k) {
                    Ok(b) => hex(&b),
                    Err(e) => format!("bad-value {}", e.replace(char::is_whitespace, "_")),
                })
            }
            "recfail" => {
                let k = kind_of(ws[1])?;
                let n: u64 = ws[2].parse().ok()?;
                Some(match unserialisable(n % N_UNSER, k) {
                    Err(_) => "err".into(),
                    Ok(b) => format!("accepted {}", hex(&b)),
                })
            }
            "dec" | "decx" => {
                let b = unhex(ws[2])?;
                Some(match (ty(ws[1])?.dec)(&b) {
                    Ok((t, re)) if b.starts_with(&re) => format!("ok {}", t.text()),
                    Ok(_) => "reject".into(),
                    Err(_) => "reject".into(),
                })
            }
            "recdec" | "recdecx" => {
                let b = unhex(ws[2])?;
                let r = record(b.clone());
                let k = match RecordHeader::from_record(&r) {
                    Ok(h) => kind_name(h.kind),
                    Err(_) => return Some("hdr-err".into()),
                };
                Some(match (ty(ws[1])?.recdec)(&r) {
                    Ok((t, re)) if b[RecordHeader::SIZE..].starts_with(&re) => format!("{k} ok {}", t.text()),
                    _ => format!("{k} reject"),
                })
            }
            "cenc" => {
                let (t, _) = Tree::parse(&ws[2..])?;
                let cty = ctypes().into_iter().find(|t| t.name == ws[1])?;
                Some(match (cty.enc)(&t) {
                    Ok(b) => hex(&b),
                    Err(e) => format!("bad-value {}", e.replace(char::is_whitespace, "_")),
                })
            }
            "cdec" | "cgold" | "cdecx" => {
                let b = unhex(ws[2])?;
                let cty = ctypes().into_iter().find(|t| t.name == ws[1])?;
                let golden = ws[0] == "cgold";
                Some(match (cty.dec)(&b) {
                    Ok((t, re)) if (golden && re == b) || (!golden && b.starts_with(&re)) => format!("ok {}", t.text()),
                    _ => "reject".into(),
                })
            }
            "chunk" => {
                let addr: [u8; 32] = unhex(ws[1])?.try_into().ok()?;
                let value = unhex(ws[2])?;
                let forged = Chunk { address: ChunkAddress::new(XorName(addr)), value: Bytes::from(value.clone()) };
                let bytes = try_serialize_record(&forged, RecordKind::Chunk).ok()?;
                let back: Chunk = try_deserialize_record(&record(bytes.to_vec())).ok()?;
                let recomputed = back.address().xorname().0 == sha3_256(&value) && back.value.as_ref() == value.as_slice();
                Some(format!("{} {}", if recomputed { "recomputed" } else { "kept" }, hex(&back.address().xorname().0)))
            }
            _ => fam::exec_fam(&ws, tys),
        }
    }));
    match r {
        Ok(Some(s)) => s,
        Ok(None) => "bad-op".into(),
        Err(_) => "panic".into(),
    }
}

// ---------------------------------------------------------------- oracle (model-independent)

/// `input` is what a replay needs to reproduce the case: the op line itself, preceded by the failed encodes
/// that ran just before it on this thread (joined with " ; ").
fn oracle(line: &str, input: &str, res: &str, out: &mut Out, tys: &[Ty]) {
    let ws: Vec<&str> = line.split_whitespace().collect();
    if res == "panic" {
        out.oracle_fail("decoders-never-panic", input, "implementation panicked");
        return;
    }
    let ty = |n: &str| tys.iter().find(|t| t.name == n);
    match ws[0] {
        "hdr" => {
            // fixed-size prefix, fixed tag numbers (the assignment nodes on the network use today)
            let want = ["ChunkWithPayment", "Chunk", "Transaction", "Register", "RegisterWithPayment", "Scratchpad", "ScratchpadWithPayment", "TransactionWithPayment"]
                .iter()
                .position(|k| *k == ws[1]);
            if let Some(tag) = want {
                if res != format!("91{tag:02x}") {
                    out.oracle_fail("tag-fixed-and-two-bytes", input, &format!("header bytes {res}, expected 91{tag:02x}"));
                }
                let back = exec(&format!("hdrdec {res}c0"), tys);
                if back != format!("ok {}", ws[1]) {
                    out.oracle_fail("header-round-trip", input, &format!("header {res} decodes as `{back}`"));
                }
            }
        }
        "enc" | "rec" => {
            if res.starts_with("bad-value") {
                out.oracle_fail("harness-value-tree", input, res);
                return;
            }
            // value round trip through the real decoder
            let (tyname, back) = if ws[0] == "enc" {
                (ws[1], exec(&format!("dec {} {res}", ws[1]), tys))
            } else {
                (ws[2], exec(&format!("recdec {} {res}", ws[2]), tys))
            };
            let tree_text = if ws[0] == "enc" { ws[2..].join(" ") } else { ws[3..].join(" ") };
            let want = if ws[0] == "enc" { format!("ok {tree_text}") } else { format!("{} ok {tree_text}", ws[1]) };
            if back != want {
                out.oracle_fail("encode-decode-round-trip", input, &format!("{tyname}: decoding the encoded value gives `{}`", &back[..back.len().min(200)]));
            }
            if ws[0] == "rec" && !res.starts_with("91") {
                out.oracle_fail("tag-fixed-and-two-bytes", input, "record does not start with the 2-byte header");
            }
        }
        "cenc" => {
            if res.starts_with("bad-value") {
                out.oracle_fail("harness-value-tree", input, res);
                return;
            }
            let tyname = ws[1];
            let tree_text = ws[2..].join(" ");
            let Some(bytes) = unhex(res) else { return };
            // (1) the message survives the codec: reading the written bytes back gives the original value,
            //     also with other bytes behind it (the reader takes one value and ignores the rest)
            let back = exec(&format!("cdec {tyname} {res}"), tys);
            if back != format!("ok {tree_text}") {
                out.oracle_fail("message-round-trip-cbor", input, &format!("{tyname}: reading the written bytes gives `{}`", &back[..back.len().min(200)]));
                return;
            }
            let back2 = exec(&format!("cdec {tyname} {res}00ff41"), tys);
            if back2 != back {
                out.oracle_fail("message-round-trip-cbor", input, &format!("{tyname}: with trailing bytes the reader gives `{}`", &back2[..back2.len().min(200)]));
            }
            // (2) no strict prefix of a written message reads as a complete message (every one for short messages, a spread otherwise)
            let cty = ctypes().into_iter().find(|t| t.name == tyname);
            if let Some(cty) = cty {
                let n = bytes.len();
                let cuts: Vec<usize> = if n <= 96 { (0..n).collect() } else { (0..48).map(|i| i * n / 48).chain([n - 1, n - 2, n - 3]).collect() };
                for k in cuts {
                    let r = catch_unwind(AssertUnwindSafe(|| (cty.dec)(&bytes[..k]).is_ok()));
                    match r {
                        Ok(false) => {}
                        Ok(true) => {
                            out.oracle_fail("truncated-message-rejected", &format!("cdec {tyname} {}", hex(&bytes[..k])), &format!("a {k}-byte strict prefix of a {n}-byte {tyname} is accepted as a complete value"));
                            break;
                        }
                        Err(_) => {
                            out.oracle_fail("decoders-never-panic", &format!("cdec {tyname} {}", hex(&bytes[..k])), "implementation panicked on a truncated message");
                            break;
                        }
                    }
                }
            }
            // (3) wire stability: every map key on the wire is one of today's variant / field names, and a message opens with
            //     the one-entry map {"Cmd"|"Query": ..}  (read by the oracle's own CBOR walker)
            let mut keys = vec![];
            let mut pos = 0;
            if cbor_walk(&bytes, &mut pos, &mut keys, 0).is_none() || pos != bytes.len() {
                out.oracle_fail("message-wire-form", input, "the written bytes are not one definite-length CBOR item of the subset (uint, bytes, text, array, map, bool, null)");
            } else {
                if let Some(k) = keys.iter().find(|k| !WIRE_NAMES.contains(&k.as_str())) {
                    out.oracle_fail("message-names-fixed", input, &format!("map key `{k}` on the wire is not one of the fixed variant / field names"));
                }
                if (tyname == "Request" || tyname == "Response") && !(bytes[0] == 0xa1 && matches!(keys.first().map(|s| s.as_str()), Some("Cmd") | Some("Query"))) {
                    out.oracle_fail("message-names-fixed", input, "a message does not open with {\"Cmd\"|\"Query\": ..}");
                }
            }
        }
        "cgold" => {
            if !res.starts_with("ok ") {
                out.oracle_fail("message-golden-vector", input, "bytes written by an earlier build of the same protocol version are not read back and re-written identically by the current code");
            }
        }
        "ischunk" => {
            // the wrapper may say Ok(_) only where the header decoder accepts, and then `true` exactly for the Chunk kind;
            // arbitrary / truncated / unknown-kind bytes are an error, not "not a chunk"
            let hd = exec(&format!("hdrdec {}", ws[1]), tys);
            let want = match hd.strip_prefix("ok ") {
                Some(k) => format!("ok {}", k == "Chunk"),
                None => "err".to_string(),
            };
            if res != want {
                out.oracle_fail("chunk-test-errs-exactly-when-header-decoder-errs", input, &format!("is_record_of_type_chunk = `{res}` but from_record = `{hd}`"));
            }
        }
        "ischunksweep" => {
            // find the first window on which the wrapper and the decoder disagree and report it as a concrete input
            if let Ok(b0) = u8::from_str_radix(ws[1], 16) {
                'outer: for b1 in 0..=255u8 {
                    for b2 in 0..=255u8 {
                        let r = record(vec![b0, b1, b2, 0xc1]);
                        let a = RecordHeader::is_record_of_type_chunk(&r).ok();
                        let b = RecordHeader::from_record(&r).ok().map(|h| h.kind == RecordKind::Chunk);
                        if a != b {
                            out.oracle_fail(
                                "chunk-test-errs-exactly-when-header-decoder-errs",
                                &format!("ischunk {}", hex(&[b0, b1, b2, 0xc1])),
                                &format!("is_record_of_type_chunk = {a:?} but from_record gives {b:?}"),
                            );
                            break 'outer;
                        }
                    }
                }
            }
        }
        "dectrunc" | "cdectrunc" | "recdectrunc" => {
            if res.contains('P') {
                out.oracle_fail("decoders-never-panic", input, &format!("a decoder panicked on a truncated encoding (cuts: {res})"));
            } else if res.contains('a') || res.contains('b') {
                out.oracle_fail("truncated-message-rejected", input, &format!("a strict prefix of an encoding is accepted as a value (cuts: {res})"));
            }
        }
        "crepl" | "cresp" => {
            // within the codec's read limit a written message is read back as itself; above it the reader errs (never another value).
            // That an honest Replicate of <= MAX_RECORDS_COUNT records can be above the limit is known finding
            // K-r-replicate-exceeds-request-cap: the clause is restricted to what `honest_replicate_fits_iff` covers.
            let cap: usize = if ws[0] == "crepl" { 1024 * 1024 } else { 10 * 1024 * 1024 };
            let len: usize = res.split_whitespace().next().and_then(|x| x.strip_prefix("len=")).and_then(|x| x.parse().ok()).unwrap_or(0);
            let want = if len <= cap { "read=ok" } else { "read=err" };
            if !res.ends_with(want) {
                out.oracle_fail("message-size-limit", input, &format!("a {len}-byte message against the {cap}-byte read limit: `{res}`, expected {want}"));
            }
        }
        "chunk" | "pchunk" => {
            if !res.starts_with("recomputed ") {
                out.oracle_fail("chunk-address-recomputed", input, &format!("decoded chunk address: {res}"));
            }
        }
        "dec" | "recdec" => {
            // a truncated canonical encoding must not decode canonically to something else silently: nothing to state
            // model-independently beyond "no panic" (checked above) and, for accepted inputs, re-encoding stability (built into `ok`).
            let _ = ty;
        }
        _ => {}
    }
}

/// every MessagePack integer spelling of `t` (all widths that can hold it, unsigned and signed), plus a negative one
fn int_spellings(t: u64) -> Vec<Vec<u8>> {
    let mut v: Vec<Vec<u8>> = vec![];
    if t < 128 {
        v.push(vec![t as u8]);
    }
    if t < 256 {
        v.push(vec![0xcc, t as u8]);
    }
    if t < 65536 {
        v.push([vec![0xcd], (t as u16).to_be_bytes().to_vec()].concat());
    }
    if t < 1 << 32 {
        v.push([vec![0xce], (t as u32).to_be_bytes().to_vec()].concat());
    }
    v.push([vec![0xcf], t.to_be_bytes().to_vec()].concat());
    if t < 128 {
        v.push(vec![0xd0, t as u8]);
    }
    if t < 32768 {
        v.push([vec![0xd1], (t as u16).to_be_bytes().to_vec()].concat());
    }
    if t < 1 << 31 {
        v.push([vec![0xd2], (t as u32).to_be_bytes().to_vec()].concat());
    }
    if t < 1 << 63 {
        v.push([vec![0xd3], t.to_be_bytes().to_vec()].concat());
    }
    v.push(vec![0xd0, 0x80 | (t as u8)]); // negative i8
    v.push(vec![0xe0 | (t as u8 & 0x1f)]); // negative fixint
    v
}

fn mutate(rng: &mut Rng, b: &[u8]) -> Vec<u8> {
    let mut v = b.to_vec();
    match rng.below(8) {
        0 | 1 => {
            let n = rng.below(v.len() as u64 + 1) as usize;
            v.truncate(n);
        }
        2 | 3 => {
            if !v.is_empty() {
                let i = rng.below(v.len() as u64) as usize;
                v[i] ^= 1 << rng.below(8);
            }
        }
        4 => {
            if !v.is_empty() {
                let i = rng.below(v.len().min(6) as u64) as usize;
                v[i] = rng.next() as u8;
            }
        }
        5 => v.extend_from_slice(&rng.bytes(3)),
        6 => {
            if !v.is_empty() {
                let i = rng.below(v.len() as u64) as usize;
                v.insert(i, rng.next() as u8);
            }
        }
        _ => {
            if !v.is_empty() {
                let i = rng.below(v.len() as u64) as usize;
                v.remove(i);
            }
        }
    }
    v
}

fn main() {
    let args = &common::parse_args();
    let mut out = Out::new(&args.out);
    std::panic::set_hook(Box::new(|_| {}));
    let tys = types();
    if args.extra.contains_key("samples") {
        let mut rng = Rng::new(args.seed);
        for t in &tys {
            for _ in 0..3 {
                let tr = gen_tree(&mut rng, t.name, false);
                println!("{} {}\n   {}", t.name, tr.text(), (t.enc)(&tr).map(|b| hex(&b)).unwrap_or_else(|e| e));
            }
        }
        return;
    }
    let lines: Vec<String> = if let Some(p) = &args.replay {
        common::read_lines(p)
    } else {
        let mut rng = Rng::new(args.seed);
        let mut v: Vec<String> = vec![];
        for k in KINDS {
            v.push(format!("hdr {}", kind_name(k)));
        }
        // the header decoder, exhaustively for the first bytes that can matter and a few that cannot
        for b0 in ["91", "81", "c4", "90", "92", "dc", "de", "c5", "d9", "a1", "00", "c0", "ff"] {
            v.push(format!("hdrsweep {b0}"));
        }
        for h in ["-", "91", "9101", "910100", "91cc05", "91cc08", "91d007", "91d0ff", "91cd00", "810003", "c40106", "c40206", "92010203", "9108ff", "91ccff", "91c000"] {
            v.push(format!("hdrdec {h}"));
            v.push(format!("ischunk {h}"));
            v.push(format!("hdrtry {h}"));
        }
        {
            let a = RegisterAddress::new(xor(&mut rng), sk(&mut rng).public_key()).to_hex();
            for t in [String::new(), "ab".into(), "abcd".into(), a[..62].into(), a[..64].into(), a[..66].into(), a[..158].into(), a[..159].into(), a.clone(), a.to_uppercase(), format!("{a}00"), format!("{a}0"), a.replacen('a', "g", 1), format!("zz{}", &a[2..])] {
                v.push(format!("reghex {}", hex(t.as_bytes())));
            }
        }
        for b0 in ["91", "81", "c4", "00", "92"] {
            v.push(format!("ischunksweep {b0}"));
        }
        v.push("hdrtrysweep2".into());
        // the tag in every integer width (unsigned, non-negative and negative signed), every 1-array / 1-bin spelling
        for t in [0u64, 1, 7, 8, 127, 128, 255, 256, 65535, 65536, 4294967295, 4294967296, u64::MAX] {
            for w in int_spellings(t) {
                for pre in [vec![0x91u8], vec![0xdc, 0, 1], vec![0xdd, 0, 0, 0, 1]] {
                    let mut b = pre.clone();
                    b.extend_from_slice(&w);
                    v.push(format!("hdrtry {}", hex(&b)));
                }
            }
        }
        for h in ["c4010100", "c5000105", "c600000001", "c60000000107ff", "c5000205", "dc000201", "dc0000", "dd0000000201", "91d1ffff", "91d3ffffffffffffffff", "91ca00000000", "91c0", "91a0", "9190", "9201", "90"] {
            v.push(format!("hdrtry {h}"));
        }
        v.push(format!("chunk {} {}", hex(&[0u8; 32]), hex(b"hello")));
        // the two register kinds: typed records of real registers (with and without ops / payment)
        for _ in 0..4 {
            v.push(format!("rec Register SignedRegister {}", gen_tree(&mut rng, "SignedRegister", false).text()));
            v.push(format!("rec RegisterWithPayment PaidRegister {}", gen_tree(&mut rng, "PaidRegister", false).text()));
        }
        // a failed encode must leave no trace in the next successful one on the same thread
        for n in 0..N_UNSER {
            let k = KINDS[(n as usize) % KINDS.len()];
            v.push(format!("recfail {} {n}", kind_name(k)));
            v.push(format!("rec Chunk Chunk {}", tree_of(&Chunk::new(Bytes::from(vec![n as u8 + 1; 5 + n as usize]))).text()));
            v.push(format!("recfail {} {n}", kind_name(k)));
            v.push(format!("recfail {} {}", kind_name(KINDS[(n as usize + 3) % 8]), (n + 1) % N_UNSER));
            v.push(format!("chunk {} {}", hex(&[n as u8; 32]), hex(&[9u8, n as u8, 7])));
        }
        let names: Vec<&str> = tys.iter().map(|t| t.name).collect();
        for _ in 0..args.n {
            match rng.below(20) {
                0..=7 => {
                    let n = *rng.pick(&names);
                    v.push(format!("enc {n} {}", gen_tree(&mut rng, n, false).text()));
                }
                8..=10 => {
                    let n = *rng.pick(&["Chunk", "PaidChunk", "Scratchpad", "PaidScratchpad", "Transactions", "PaidTransaction", "SignedRegister", "PaidRegister"]);
                    let k = if rng.chance(5, 6) { kinds_for(n)[0] } else { *rng.pick(&KINDS) };
                    v.push(format!("rec {} {n} {}", kind_name(k), gen_tree(&mut rng, n, false).text()));
                }
                11..=14 => {
                    // arbitrary / truncated / bit-flipped bytes for the plain types
                    let n = *rng.pick(&PLAIN);
                    let t = gen_tree(&mut rng, n, true);
                    let ty = tys.iter().find(|x| x.name == n).unwrap();
                    let good = (ty.enc)(&t).unwrap_or_default();
                    let bytes = if rng.chance(1, 8) { rng.bytes(rng.clone().below(12) as usize) } else { mutate(&mut rng, &good) };
                    v.push(format!("dec {n} {}", hex(&bytes)));
                }
                15..=16 => {
                    // records: unknown kinds, damaged headers, damaged bodies
                    let n = *rng.pick(&["Chunk", "PaidChunk"]);
                    let t = gen_tree(&mut rng, n, true);
                    let ty = tys.iter().find(|x| x.name == n).unwrap();
                    let mut bytes = (ty.rec)(&t, *rng.pick(&KINDS)).unwrap_or_default();
                    match rng.below(5) {
                        0 => bytes[1] = *rng.pick(&[8u8, 9, 0x7f, 0x80, 0xcc, 0xd0, 0xff]),
                        1 => bytes[0] = rng.next() as u8,
                        2 => {
                            let n = rng.below(4) as usize;
                            bytes.truncate(n)
                        }
                        3 => {
                            // non-minimal header [0x91, 0xcc, tag] followed by the body
                            let tag = bytes[1];
                            bytes.splice(1..2, [0xcc, tag]);
                        }
                        _ => bytes = mutate(&mut rng, &bytes),
                    }
                    v.push(format!("recdec {n} {}", hex(&bytes)));
                }
                17 => {
                    let mut b = rng.bytes(3);
                    if rng.chance(2, 3) {
                        b[0] = *rng.pick(&[0x91u8, 0x81, 0xc4, 0x92]);
                    }
                    if rng.chance(1, 2) {
                        b[1] = *rng.pick(&[0u8, 1, 7, 8, 0xcc, 0xd0, 0xcd, 0xc0]);
                    }
                    let n = rng.below(5) as usize;
                    b.truncate(n.max(1));
                    b.extend_from_slice(&rng.bytes(rng.clone().below(3) as usize));
                    v.push(format!("hdrdec {}", hex(&b)));
                    v.push(format!("ischunk {}", hex(&b)));
                    if !(b.len() > 3 && (b[0] & 0xf0 == 0x80 || b[0] == 0xde || b[0] == 0xdf)) {
                        v.push(format!("hdrtry {}", hex(&b)));
                    }
                    if rng.chance(1, 3) {
                        // a whole record (valid kind, unknown kind, damaged) through the chunk test
                        let t = gen_tree(&mut rng, "Chunk", true);
                        let ty = tys.iter().find(|x| x.name == "Chunk").unwrap();
                        let mut bytes = (ty.rec)(&t, *rng.pick(&KINDS)).unwrap_or_default();
                        match rng.below(4) {
                            0 => bytes[1] = *rng.pick(&[8u8, 9, 0x7f, 0x80, 0xcc, 0xd0, 0xff]),
                            1 => bytes[0] = rng.next() as u8,
                            2 => bytes.truncate(rng.below(4) as usize),
                            _ => {}
                        }
                        v.push(format!("ischunk {}", hex(&bytes)));
                    }
                    if rng.chance(1, 3) {
                        let t = gen_u64(&mut rng);
                        let w = int_spellings(t);
                        let mut b = rng.pick(&[vec![0x91u8], vec![0xdc, 0, 1], vec![0xdd, 0, 0, 0, 1]]).clone();
                        let pick: &Vec<u8> = rng.pick(&w[..]);
                        b.extend_from_slice(pick);
                        if rng.chance(1, 4) {
                            b.pop();
                        }
                        v.push(format!("hdrtry {}", hex(&b)));
                    }
                    if rng.chance(1, 8) {
                        v.push(format!("ischunksweep {:02x}", rng.below(256)));
                    }
                    if rng.chance(1, 4) {
                        let a = RegisterAddress::new(xor(&mut rng), sk(&mut rng).public_key()).to_hex();
                        let t = match rng.below(6) {
                            0 => a.clone(),
                            1 | 2 => a[..rng.below(160) as usize].to_string(),
                            3 => format!("{a}{}", &a[..rng.range(1, 8) as usize]),
                            4 => {
                                let mut c: Vec<char> = a.chars().collect();
                                let i = rng.below(160) as usize;
                                c[i] = *rng.pick(&['g', 'z', ' ', '-', 'x']);
                                c.into_iter().collect()
                            }
                            _ => a[..(2 * rng.below(32)) as usize].to_string(),
                        };
                        v.push(format!("reghex {}", hex(t.as_bytes())));
                    }
                }
                18 => {
                    let n = gen_len(&mut rng).min(3000);
                    v.push(format!("chunk {} {}", hex(&xor(&mut rng).0), hex(&rng.bytes(n))));
                }
                19 if rng.chance(1, 2) => {
                    // failed encode(s), then a successful one of a random record type on the same thread
                    for _ in 0..rng.range(1, 2) {
                        v.push(format!("recfail {} {}", kind_name(*rng.pick(&KINDS)), rng.below(N_UNSER)));
                    }
                    let n = *rng.pick(&["Chunk", "PaidChunk", "Scratchpad", "PaidScratchpad", "Transactions", "PaidTransaction", "SignedRegister", "PaidRegister"]);
                    v.push(format!("rec {} {n} {}", kind_name(kinds_for(n)[0]), gen_tree(&mut rng, n, false).text()));
                }
                _ => v.push(format!("hdrsweep {:02x}", rng.below(256))),
            }
        }
        v
    };
    // CBOR ops: appended after the MessagePack stream, from their own generator state (the earlier stream is unchanged)
    let lines: Vec<String> = if args.replay.is_some() {
        lines
    } else {
        let mut v = lines;
        let ctys = ctypes();
        let mut rng = Rng::new(args.seed ^ 0xC0B0);
        for (ty, hexs) in GOLDEN {
            v.push(format!("cgold {ty} {hexs}"));
        }
        for (ty, t) in message_corpus() {
            v.push(format!("cenc {ty} {}", t.text()));
        }
        // every width boundary of the CBOR argument (immediate / 1 / 2 / 4 / 8 bytes) in an integer and in a length
        for d in [0usize, 23, 24, 255, 256, 65535, 65536, 4294967295, 4294967296, usize::MAX] {
            v.push(format!("cenc Query {}", named_tree_of(&Query::GetStoreQuote { key: NetworkAddress::RecordKey(Bytes::new()), nonce: Some(d as u64), difficulty: d }).text()));
        }
        for n in [0usize, 23, 24, 255, 256, 65535, 65536] {
            v.push(format!("cenc NetworkAddress {}", named_tree_of(&NetworkAddress::RecordKey(Bytes::from(vec![0x5A; n]))).text()));
            v.push(format!("cenc Response {}", named_tree_of(&Response::Query(QueryResponse::GetReplicatedRecord(Ok((NetworkAddress::RecordKey(Bytes::new()), Bytes::from(vec![n as u8; n])))))).text()));
        }
        for n in [23usize, 24, 255, 256] {
            let keys = (0..n).map(|i| (NetworkAddress::RecordKey(Bytes::from(vec![i as u8])), if i % 2 == 0 { RecordType::Chunk } else { RecordType::Scratchpad })).collect();
            v.push(format!("cenc Request {}", named_tree_of(&Request::Cmd(Cmd::Replicate { holder: NetworkAddress::RecordKey(Bytes::new()), keys })).text()));
            v.push(format!("cenc Cmd {}", named_tree_of(&Cmd::PeerConsideredAsBad { detected_by: NetworkAddress::RecordKey(Bytes::new()), bad_peer: NetworkAddress::RecordKey(Bytes::new()), bad_behaviour: "x".repeat(n) }).text()));
        }
        // hand-made malformed / non-canonical inputs: indefinite lengths, tags, floats, undefined, reserved infos, wrong majors,
        // non-minimal arguments, unknown variant, unknown / missing / reordered / duplicated field, trailing bytes, empty
        for (ty, h) in [
            ("Request", "-"),
            ("Request", "a1"),
            ("Request", "a16351756572"),
            ("Request", "a1655175657279a172436865636b4e6f6465496e50726f626c656d"),
            ("Request", "bf655175657279a172436865636b4e6f6465496e50726f626c656da1695265636f72644b657940ff"),
            ("Request", "a1655175657279a172436865636b4e6f6465496e50726f626c656da1695265636f72644b657940"),
            ("Request", "a1655175657279a172436865636b4e6f6465496e50726f626c656da1695265636f72644b6579400000"),
            ("Request", "a1655175657279a172436865636b4e6f6465496e50726f626c656da1695265636f72644b65795f40ff"),
            ("Request", "a1655175657279a172436865636b4e6f6465496e50726f626c656da1695265636f72644b6579581f"),
            ("Request", "a1655175657279a172436865636b4e6f6465496e50726f626c656da1695265636f72644b65795800"),
            ("Request", "a1655175657279a172436865636b4e6f6465496e50726f626c656da1695265636f72644b657900"),
            ("Request", "a1655175657279a172436865636b4e6f6465496e50726f626c656da1695265636f72644b657960"),
            ("Request", "a16551756572797143686563"),
            ("Request", "a1655175657279a16a4e6f5375636851756572794000"),
            ("Request", "a1654f74686572a0"),
            ("Request", "a2655175657279f6"),
            ("Request", "b801655175657279f6"),
            ("Request", "c1a1655175657279f6"),
            ("Request", "f6"),
            ("Request", "f7"),
            ("Request", "f97e00"),
            ("Request", "fb3ff0000000000000"),
            ("Request", "ff"),
            ("Request", "1c"),
            ("Request", "9f"),
            ("Request", "5b7fffffffffffffff00"),
            ("Request", "9b7fffffffffffffff00"),
            ("Request", "bb7fffffffffffffff00"),
            ("Response", "a163436d64a1695265706c6963617465a1624f6b80"),
            ("Response", "a163436d64a1695265706c6963617465a1624f6bf6"),
            ("Response", "a163436d64a1695265706c6963617465a1624f6b9fff"),
            ("Response", "a163436d64a1695265706c6963617465a1624f6b8100"),
            ("Response", "a163436d64a1695265706c6963617465a1634572727352656 36f726450617273696e674661696c6564"),
            ("RecordType", "654368756e6b"),
            ("RecordType", "a1654368756e6b"),
            ("RecordType", "a1654368756e6b80"),
            ("RecordType", "684e6f6e4368756e6b"),
            ("RecordType", "784368756e6b"),
            ("RecordType", "7805 4368756e6b"),
            ("RecordType", "65436875ff6b"),
            ("RecordType", "454368756e6b"),
        ] {
            v.push(format!("cdec {ty} {}", h.replace(' ', "")));
        }
        let names: Vec<&str> = ctys.iter().map(|t| t.name).collect();
        for _ in 0..(args.n * 2 / 3) {
            match rng.below(10) {
                0..=4 => {
                    // messages proper (two thirds) and their component types
                    let n = if rng.chance(2, 3) { *rng.pick(&["Request", "Response"]) } else { *rng.pick(&names) };
                    v.push(format!("cenc {n} {}", gen_ctree(&mut rng, n, false).text()));
                }
                _ => {
                    // truncated / bit-flipped / spliced / random bytes, from messages without crypto-validated leaves
                    let n = if rng.chance(2, 3) { *rng.pick(&["Request", "Response"]) } else { *rng.pick(&names) };
                    let t = gen_ctree(&mut rng, n, true);
                    let cty = ctys.iter().find(|x| x.name == n).unwrap();
                    let good = (cty.enc)(&t).unwrap_or_default();
                    let bytes = match rng.below(12) {
                        0 => rng.bytes(rng.clone().below(12) as usize),
                        1 => {
                            // a complete message followed by other bytes
                            let mut b = good.clone();
                            b.extend_from_slice(&rng.bytes(1 + rng.clone().below(4) as usize));
                            b
                        }
                        2 => {
                            // a header byte replaced by one of the forms the encoder never writes
                            let mut b = good.clone();
                            if !b.is_empty() {
                                let i = rng.below(b.len().min(40) as u64) as usize;
                                b[i] = *rng.pick(&[0x5fu8, 0x7f, 0x9f, 0xbf, 0xff, 0xf7, 0xf6, 0xc0, 0xfa, 0x1c, 0x18, 0x19, 0x38, 0xa0, 0xa2, 0x80]);
                            }
                            b
                        }
                        _ => mutate(&mut rng, &good),
                    };
                    v.push(format!("cdec {n} {}", hex(&bytes)));
                }
            }
        }
        v
    };
    // audit families (wire/fam.rs): damaged input for the decoders of every type with validated leaves, the codec's size limits
    // on the real codec object, forged addresses in paid chunks — appended, from their own generator state
    let lines: Vec<String> = if args.replay.is_some() {
        lines
    } else {
        let mut v = lines;
        v.extend(fam::corpus());
        v.extend(fam::generate(args.seed, args.n, &tys));
        v
    };
    // model-independent, outside the op stream: what the op lines cannot carry
    if args.replay.is_none() {
        fam::check_tree_writer(args.seed, &mut out, &tys);
        let mut rng = Rng::new(args.seed ^ 0x0C12);
        // the codec object and the call it is documented to make write the same bytes
        for _ in 0..40 {
            let rq = gen_request(&mut rng, false);
            let rs = gen_response(&mut rng, false);
            if codec_write_request(rq.clone()).ok() != cbor_to_vec(&rq).ok() {
                out.oracle_fail("message-round-trip-cbor", &format!("cenc Request {}", named_tree_of(&rq).text()), "request_response::cbor::Codec::write_request differs from cbor4ii::serde::to_vec");
            }
            if codec_write_response(rs.clone()).ok() != cbor_to_vec(&rs).ok() {
                out.oracle_fail("message-round-trip-cbor", &format!("cenc Response {}", named_tree_of(&rs).text()), "request_response::cbor::Codec::write_response differs from cbor4ii::serde::to_vec");
            }
            out.count("oracle:codec-equals-to_vec");
        }
        // a request longer than the codec's read limit is cut by the reader and must then be an error (never a shorter message)
        let big = Request::Cmd(Cmd::Replicate {
            holder: NetworkAddress::RecordKey(Bytes::new()),
            keys: (0..9000u32).map(|i| (NetworkAddress::RecordKey(Bytes::from(vec![(i % 251) as u8; 120])), RecordType::Chunk)).collect(),
        });
        match codec_write_request(big) {
            Ok(b) if b.len() > 1024 * 1024 => {
                let r = catch_unwind(AssertUnwindSafe(|| codec_read_request(&b).is_ok()));
                if !matches!(r, Ok(false)) {
                    out.oracle_fail("truncated-message-rejected", "oversize-request (Cmd::Replicate, 9000 keys of 120 bytes)", &format!("a {}-byte request read through the 1 MiB limit gives {:?}", b.len(), r.ok()));
                }
                out.count("oracle:oversize-request-rejected");
            }
            _ => out.oracle_fail("harness-value-tree", "oversize-request", "could not build a request above the read limit"),
        }
    }
    for (i, l) in lines.iter().enumerate() {
        let r = exec(l, &tys);
        // failed encodes among the three preceding ops belong to the reproduction of this case
        let from = (i.saturating_sub(3)..i).find(|j| lines[*j].starts_with("recfail")).unwrap_or(i);
        let input = lines[from..=i].join(" ; ");
        oracle(l, &input, &r, &mut out, &tys);
        let ws: Vec<&str> = l.split_whitespace().collect();
        let class = match ws[0] {
            "enc" => format!("enc:{}", ws[1]),
            "rec" => format!("rec:{}", ws[2]),
            "dec" => format!("dec:{}:{}", ws[1], r.split_whitespace().next().unwrap_or("")),
            "recdec" => format!("recdec:{}", if r == "hdr-err" { "hdr-err" } else if r.contains(" ok ") { "ok" } else { "reject" }),
            "hdrdec" => format!("hdrdec:{}", r.split_whitespace().next().unwrap_or("")),
            "cenc" => format!("cenc:{}:{}", ws[1], Tree::parse(&ws[2..]).map(|(t, _)| variant_path(&t)).unwrap_or_default()),
            "cdec" | "cgold" => format!("{}:{}:{}", ws[0], ws[1], r.split_whitespace().next().unwrap_or("")),
            "decx" | "recdecx" | "cdecx" => format!("{}:{}:{}:{}", ws[0], ws[1], ws.get(4).copied().unwrap_or("-"), if r.starts_with("ok ") || r.contains(" ok ") { "accepted" } else { "rejected" }),
            "dectrunc" | "cdectrunc" | "recdectrunc" => format!("{}:{}", ws[0], ws[1]),
            "crepl" | "cresp" => format!("{}:{}", ws[0], if r.ends_with("read=ok") { "within-limit" } else { "over-limit" }),
            o => o.to_string(),
        };
        out.count(&class);
        out.nontrivial_case(l);
        out.line(l.clone(), r);
    }
    out.notes.push("Request/Response travel as CBOR: cenc/cdec/cgold lines go through the real libp2p request_response::cbor codec object (write_request/read_request/..) and are compared byte for byte with the Lean CBOR model".into());
    out.finish();
}
