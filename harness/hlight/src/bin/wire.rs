//! C12: record / message encodings — the real serialisers (ant-protocol, ant-evm, rmp_serde) vs. the Lean model.
//!
//! Values travel as neutral serde-data-model trees (see wire/tree.rs for the token syntax).  Ops (inputs only):
//!   hdr <Kind>                 -> hex of RecordHeader{kind}.try_serialize()
//!   hdrdec <hex>               -> ok <Kind> | err              (RecordHeader::from_record, compared exactly)
//!   reghex <hex of the text>   -> ok | err      (RegisterAddress::from_hex on arbitrary text; inputs that decode to exactly 80
//!                                 bytes are only generated from real addresses, the key bytes being opaque to the model)
//!   ischunk <hex>              -> ok true|ok false|err    (RecordHeader::is_record_of_type_chunk, compared exactly)
//!   ischunksweep <b0 hex>      -> the same over every (b1,b2), run-length coded: t|f|- (exact, exhaustive)
//!   hdrtry <hex>               -> ok <Kind> | err              (RecordHeader::try_deserialize on the whole slice: 1-arrays with the tag
//!                                 in ANY integer width, 1-byte bins, the 3-byte map; longer maps are not generated)
//!   hdrtrysweep2               -> try_deserialize over all 65536 two-byte slices, run-length coded (exact)
//!   hdrsweep <b0 hex>          -> every (b1,b2) with from_record([b0,b1,b2,..]) accepted, run-length coded (exact, exhaustive)
//!   enc <Type> <tree>          -> hex of rmp_serde::to_vec(value)            (value rebuilt from the tree)
//!   rec <Kind> <Type> <tree>   -> hex of try_serialize_record(value, kind)
//!   dec <Type> <hex>           -> ok <tree> | reject
//!   recdec <Type> <hex>        -> hdr-err | <Kind> ok <tree> | <Kind> reject   (from_record + try_deserialize_record)
//!   recfail <Kind> <n>         -> err : try_serialize_record of an UNSERIALISABLE value (variant n, see `unserialisable`) under
//!                                 that kind must fail and must have no effect on any later encode on the same thread
//!   chunk <addr hex32> <value hex> -> serialise a Chunk carrying that (possibly forged) address, deserialise: recomputed|kept
//! `dec`/`recdec` print `ok` only when the implementation accepts AND re-serialising the decoded value gives a prefix
//! of the input (canonical acceptance); the model applies the same rule.  So: model accepts ⇒ implementation accepts
//! with the same value, canonical inputs are compared exactly, and for every other input only "no panic" is required.
#[path = "wire/tree.rs"]
mod tree;

use ant_evm::{EncodedPeerId, PaymentQuote, ProofOfPayment, QuotingMetrics, RewardsAddress};
use ant_protocol::error::Error as ProtocolError;
use ant_protocol::messages::{ChunkProof, Cmd, CmdResponse, Query, QueryResponse, Request, Response};
use ant_protocol::storage::{
    try_deserialize_record, try_serialize_record, Chunk, ChunkAddress, RecordHeader, RecordKind, RecordType, RegisterAddress, Scratchpad,
    ScratchpadAddress, Transaction, TransactionAddress,
};
use ant_protocol::{NetworkAddress, PrettyPrintRecordKey};
use bytes::Bytes;
use common::{hex, unhex, Out, Rng};
use libp2p::kad::{Record, RecordKey};
use libp2p::{Multiaddr, PeerId};
use rand::{Rng as _, SeedableRng};
use serde::{de::DeserializeOwned, Serialize};
use std::panic::{catch_unwind, AssertUnwindSafe};
use std::time::{Duration, SystemTime};
use tree::{from_tree, to_tree, Tree};
use xor_name::XorName;

const KINDS: [RecordKind; 8] = [
    RecordKind::Chunk,
    RecordKind::ChunkWithPayment,
    RecordKind::Transaction,
    RecordKind::TransactionWithPayment,
    RecordKind::Register,
    RecordKind::RegisterWithPayment,
    RecordKind::Scratchpad,
    RecordKind::ScratchpadWithPayment,
];
fn kind_name(k: RecordKind) -> String {
    format!("{k:?}")
}
fn kind_of(s: &str) -> Option<RecordKind> {
    KINDS.iter().copied().find(|k| kind_name(*k) == s)
}
fn record(bytes: Vec<u8>) -> Record {
    Record { key: RecordKey::new(b"k"), value: bytes, publisher: None, expires: None }
}

// ---------------------------------------------------------------- type registry

struct Ty {
    name: &'static str,
    /// tree -> typed value -> rmp_serde bytes; also checks that tree -> value -> tree is the identity
    enc: fn(&Tree) -> Result<Vec<u8>, String>,
    rec: fn(&Tree, RecordKind) -> Result<Vec<u8>, String>,
    /// bytes -> typed value; Ok((tree, re-serialised bytes))
    dec: fn(&[u8]) -> Result<(Tree, Vec<u8>), String>,
    recdec: fn(&Record) -> Result<(Tree, Vec<u8>), String>,
}

fn enc_t<T: Serialize + DeserializeOwned>(t: &Tree) -> Result<Vec<u8>, String> {
    let v: T = from_tree(t).map_err(|e| format!("tree does not describe a value of this type: {e}"))?;
    let back = to_tree(&v).map_err(|e| e.to_string())?;
    if back != *t {
        return Err(format!("tree round trip differs: {}", back.text()));
    }
    rmp_serde::to_vec(&v).map_err(|e| e.to_string())
}
fn rec_t<T: Serialize + DeserializeOwned>(t: &Tree, k: RecordKind) -> Result<Vec<u8>, String> {
    let v: T = from_tree(t).map_err(|e| format!("tree does not describe a value of this type: {e}"))?;
    try_serialize_record(&v, k).map(|b| b.to_vec()).map_err(|e| format!("{e:?}"))
}
fn dec_t<T: Serialize + DeserializeOwned>(b: &[u8]) -> Result<(Tree, Vec<u8>), String> {
    let v: T = rmp_serde::from_slice(b).map_err(|e| e.to_string())?;
    Ok((to_tree(&v).map_err(|e| e.to_string())?, rmp_serde::to_vec(&v).map_err(|e| e.to_string())?))
}
fn recdec_t<T: Serialize + DeserializeOwned>(r: &Record) -> Result<(Tree, Vec<u8>), String> {
    let v: T = try_deserialize_record(r).map_err(|e| format!("{e:?}"))?;
    Ok((to_tree(&v).map_err(|e| e.to_string())?, rmp_serde::to_vec(&v).map_err(|e| e.to_string())?))
}
macro_rules! ty {
    ($name:expr, $t:ty) => {
        Ty { name: $name, enc: enc_t::<$t>, rec: rec_t::<$t>, dec: dec_t::<$t>, recdec: recdec_t::<$t> }
    };
}
fn types() -> Vec<Ty> {
    vec![
        ty!("RecordHeader", RecordHeader),
        ty!("Chunk", Chunk),
        ty!("RecordType", RecordType),
        ty!("NetworkAddress", NetworkAddress),
        ty!("QuotingMetrics", QuotingMetrics),
        ty!("PaymentQuote", PaymentQuote),
        ty!("ProofOfPayment", ProofOfPayment),
        ty!("PaidChunk", (ProofOfPayment, Chunk)),
        ty!("Scratchpad", Scratchpad),
        ty!("PaidScratchpad", (ProofOfPayment, Scratchpad)),
        ty!("Transactions", Vec<Transaction>),
        ty!("PaidTransaction", (ProofOfPayment, Transaction)),
        ty!("ProtocolError", ProtocolError),
        ty!("Cmd", Cmd),
        ty!("Query", Query),
        ty!("Request", Request),
        ty!("CmdResponse", CmdResponse),
        ty!("QueryResponse", QueryResponse),
        ty!("Response", Response),
    ]
}
/// types whose decoding involves no cryptographic / multiaddr validity check: safe for arbitrary byte mutations
const PLAIN: [&str; 7] = ["RecordHeader", "Chunk", "RecordType", "QuotingMetrics", "PaymentQuote", "ProofOfPayment", "PaidChunk"];

// ---------------------------------------------------------------- generators (typed values)

fn xor(rng: &mut Rng) -> XorName {
    let mut a = [0u8; 32];
    if rng.chance(3, 4) {
        a.copy_from_slice(&rng.bytes(32));
    } else {
        a = [*rng.pick(&[0u8, 1, 0x7f, 0x80, 0xff]); 32];
    }
    XorName(a)
}
fn sk(rng: &mut Rng) -> bls::SecretKey {
    rand::rngs::StdRng::seed_from_u64(rng.next()).gen()
}
fn gen_u64(rng: &mut Rng) -> u64 {
    match rng.below(5) {
        0 => *rng.pick(&[0u64, 1, 127, 128, 255, 256, 65535, 65536, 4294967295, 4294967296, 1 << 63, u64::MAX]),
        1 => rng.below(300),
        2 => rng.next() >> rng.below(64),
        3 => (1u64 << rng.below(64)).wrapping_sub(rng.below(2)),
        _ => rng.next(),
    }
}
fn gen_len(rng: &mut Rng) -> usize {
    match rng.below(10) {
        0 => 0,
        1 => *rng.pick(&[1usize, 15, 16, 31, 32, 33, 255, 256, 257]),
        2 => rng.range(1000, 3000) as usize,
        3 => *rng.pick(&[65535usize, 65536, 70000]),
        _ => rng.below(64) as usize,
    }
}
fn gen_bytes(rng: &mut Rng) -> Bytes {
    let n = gen_len(rng);
    Bytes::from(rng.bytes(n))
}
fn peer_id(rng: &mut Rng) -> PeerId {
    let mut b = [0u8; 32];
    b.copy_from_slice(&rng.bytes(32));
    libp2p::identity::Keypair::ed25519_from_bytes(b).expect("key").public().to_peer_id()
}
fn gen_addr(rng: &mut Rng, plain: bool) -> NetworkAddress {
    match rng.below(if plain { 4 } else { 6 }) {
        0 => NetworkAddress::from_peer(peer_id(rng)),
        1 => NetworkAddress::ChunkAddress(ChunkAddress::new(xor(rng))),
        2 => NetworkAddress::TransactionAddress(TransactionAddress::new(xor(rng))),
        3 => {
            let n = *rng.pick(&[0usize, 1, 32, 38, 255, 256]);
            NetworkAddress::RecordKey(Bytes::from(rng.bytes(n)))
        }
        4 => NetworkAddress::RegisterAddress(RegisterAddress::new(xor(rng), sk(rng).public_key())),
        _ => NetworkAddress::ScratchpadAddress(ScratchpadAddress::new(sk(rng).public_key())),
    }
}
fn gen_record_type(rng: &mut Rng) -> RecordType {
    match rng.below(3) {
        0 => RecordType::Chunk,
        1 => RecordType::Scratchpad,
        _ => RecordType::NonChunk(xor(rng)),
    }
}
fn gen_metrics(rng: &mut Rng) -> QuotingMetrics {
    QuotingMetrics {
        close_records_stored: gen_u64(rng) as usize,
        max_records: gen_u64(rng) as usize,
        received_payment_count: gen_u64(rng) as usize,
        live_time: gen_u64(rng),
        network_density: if rng.chance(1, 2) { None } else { Some(xor(rng).0) },
        network_size: if rng.chance(1, 2) { None } else { Some(gen_u64(rng)) },
    }
}
fn gen_quote(rng: &mut Rng) -> PaymentQuote {
    let mut r = [0u8; 20];
    r.copy_from_slice(&rng.bytes(20));
    let n1 = *rng.pick(&[0usize, 36, 36, 40]);
    let n2 = *rng.pick(&[0usize, 64, 64, 70]);
    PaymentQuote {
        content: xor(rng),
        timestamp: SystemTime::UNIX_EPOCH + Duration::new(gen_u64(rng) >> 2, rng.below(1_000_000_000) as u32),
        quoting_metrics: gen_metrics(rng),
        rewards_address: RewardsAddress::from(r),
        pub_key: rng.bytes(n1),
        signature: rng.bytes(n2),
    }
}
fn gen_proof(rng: &mut Rng) -> ProofOfPayment {
    let n = rng.below(4);
    ProofOfPayment { peer_quotes: (0..n).map(|_| (EncodedPeerId::from(peer_id(rng)), gen_quote(rng))).collect() }
}
fn gen_chunk(rng: &mut Rng) -> Chunk {
    Chunk::new(gen_bytes(rng))
}
fn gen_scratchpad(rng: &mut Rng) -> Scratchpad {
    let k = sk(rng);
    let mut s = Scratchpad::new(k.public_key(), gen_u64(rng));
    for _ in 0..rng.below(3) {
        let n = rng.below(40) as usize;
        s.update_and_sign(Bytes::from(rng.bytes(n)), &k);
    }
    s
}
fn gen_transaction(rng: &mut Rng) -> Transaction {
    let k = sk(rng);
    let parents = (0..rng.below(3)).map(|_| sk(rng).public_key()).collect();
    let outputs = (0..rng.below(3)).map(|_| (sk(rng).public_key(), xor(rng).0)).collect();
    Transaction::new(k.public_key(), parents, xor(rng).0, outputs, &k)
}
fn gen_error(rng: &mut Rng) -> ProtocolError {
    match rng.below(17) {
        0 => ProtocolError::UserDataDirectoryNotObtainable,
        1 => ProtocolError::CouldNotObtainPortFromMultiAddr,
        2 => ProtocolError::ParseRetryStrategyError,
        3 => ProtocolError::CouldNotObtainDataDir,
        4 => ProtocolError::ChunkDoesNotExist(gen_addr(rng, false)),
        5 => ProtocolError::RegisterNotFound(Box::new(RegisterAddress::new(xor(rng), sk(rng).public_key()))),
        6 => ProtocolError::RegisterAlreadyClaimed(sk(rng).public_key()),
        7 => ProtocolError::RegisterRecordNotFound { holder: Box::new(gen_addr(rng, false)), key: Box::new(gen_addr(rng, false)) },
        8 => ProtocolError::ScratchpadHexDeserializeFailed,
        9 => ProtocolError::ScratchpadCipherTextFailed,
        10 => ProtocolError::ScratchpadCipherTextInvalid,
        11 => ProtocolError::GetStoreQuoteFailed,
        12 => ProtocolError::QuoteGenerationFailed,
        13 => ProtocolError::ReplicatedRecordNotFound { holder: Box::new(gen_addr(rng, false)), key: Box::new(gen_addr(rng, false)) },
        14 => ProtocolError::RecordHeaderParsingFailed,
        15 => ProtocolError::RecordParsingFailed,
        _ => {
            let n = rng.below(40) as usize;
            ProtocolError::RecordExists(PrettyPrintRecordKey::from(&RecordKey::new(&rng.bytes(n))).into_owned())
        }
    }
}
fn gen_string(rng: &mut Rng) -> String {
    let n = *rng.pick(&[0usize, 1, 5, 31, 32, 33, 255, 256, 300]);
    (0..n)
        .map(|_| *rng.pick(&['a', 'Z', ' ', '0', '~', 'é', '√', '😀', '\n', '\u{7f}']))
        .collect()
}
fn gen_cmd(rng: &mut Rng) -> Cmd {
    if rng.chance(2, 3) {
        let n = rng.below(20);
        Cmd::Replicate { holder: gen_addr(rng, false), keys: (0..n).map(|_| (gen_addr(rng, false), gen_record_type(rng))).collect() }
    } else {
        Cmd::PeerConsideredAsBad { detected_by: gen_addr(rng, false), bad_peer: gen_addr(rng, false), bad_behaviour: gen_string(rng) }
    }
}
fn gen_query(rng: &mut Rng) -> Query {
    match rng.below(6) {
        0 => Query::GetStoreQuote { key: gen_addr(rng, false), nonce: if rng.chance(1, 2) { None } else { Some(gen_u64(rng)) }, difficulty: gen_u64(rng) as usize },
        1 => Query::GetReplicatedRecord { requester: gen_addr(rng, false), key: gen_addr(rng, false) },
        2 => Query::GetRegisterRecord { requester: gen_addr(rng, false), key: gen_addr(rng, false) },
        3 => Query::GetChunkExistenceProof { key: gen_addr(rng, false), nonce: gen_u64(rng), difficulty: gen_u64(rng) as usize },
        4 => Query::CheckNodeInProblem(gen_addr(rng, false)),
        _ => Query::GetClosestPeers {
            key: gen_addr(rng, false),
            num_of_peers: if rng.chance(1, 2) { None } else { Some(gen_u64(rng) as usize) },
            range: if rng.chance(1, 2) { None } else { Some(xor(rng).0) },
            sign_result: rng.chance(1, 2),
        },
    }
}
fn gen_result<T>(rng: &mut Rng, ok: impl FnOnce(&mut Rng) -> T) -> Result<T, ProtocolError> {
    if rng.chance(2, 3) {
        Ok(ok(rng))
    } else {
        Err(gen_error(rng))
    }
}
fn gen_proofs(rng: &mut Rng) -> Vec<(NetworkAddress, Result<ChunkProof, ProtocolError>)> {
    (0..rng.below(4))
        .map(|_| {
            let n = rng.below(20) as usize;
            (gen_addr(rng, false), gen_result(rng, |r| ChunkProof::new(&r.bytes(n), r.next())))
        })
        .collect()
}
fn gen_multiaddr(rng: &mut Rng) -> Multiaddr {
    let s = match rng.below(3) {
        0 => format!("/ip4/{}.{}.{}.{}/udp/{}/quic-v1", rng.below(256), rng.below(256), rng.below(256), rng.below(256), rng.below(65536)),
        1 => format!("/ip4/10.0.0.{}/tcp/{}", rng.below(256), rng.below(65536)),
        _ => format!("/ip4/127.0.0.1/udp/{}/quic-v1/p2p/{}", rng.below(65536), peer_id(rng)),
    };
    s.parse().expect("multiaddr")
}
fn gen_query_response(rng: &mut Rng) -> QueryResponse {
    match rng.below(6) {
        0 => QueryResponse::GetStoreQuote { quote: gen_result(rng, gen_quote), peer_address: gen_addr(rng, false), storage_proofs: gen_proofs(rng) },
        1 => QueryResponse::CheckNodeInProblem { reporter_address: gen_addr(rng, false), target_address: gen_addr(rng, false), is_in_trouble: rng.chance(1, 2) },
        2 => QueryResponse::GetReplicatedRecord(gen_result(rng, |r| (gen_addr(r, false), gen_bytes(r)))),
        3 => QueryResponse::GetRegisterRecord(gen_result(rng, |r| (gen_addr(r, false), gen_bytes(r)))),
        4 => QueryResponse::GetChunkExistenceProof(gen_proofs(rng)),
        _ => QueryResponse::GetClosestPeers {
            target: gen_addr(rng, false),
            peers: (0..rng.below(4)).map(|_| (gen_addr(rng, false), (0..rng.below(3)).map(|_| gen_multiaddr(rng)).collect())).collect(),
            signature: if rng.chance(1, 2) { None } else { Some(rng.bytes(*rng.clone().pick(&[0usize, 64, 96]))) },
        },
    }
}
fn gen_cmd_response(rng: &mut Rng) -> CmdResponse {
    if rng.chance(1, 2) {
        CmdResponse::Replicate(gen_result(rng, |_| ()))
    } else {
        CmdResponse::PeerConsideredAsBad(gen_result(rng, |_| ()))
    }
}

fn tree_of<T: Serialize>(v: &T) -> Tree {
    to_tree(v).expect("value to tree")
}
/// a generated value of the named type, as a tree
fn gen_tree(rng: &mut Rng, name: &str, plain: bool) -> Tree {
    match name {
        "RecordHeader" => tree_of(&RecordHeader { kind: *rng.pick(&KINDS) }),
        "Chunk" => tree_of(&gen_chunk(rng)),
        "RecordType" => tree_of(&gen_record_type(rng)),
        "NetworkAddress" => tree_of(&gen_addr(rng, plain)),
        "QuotingMetrics" => tree_of(&gen_metrics(rng)),
        "PaymentQuote" => tree_of(&gen_quote(rng)),
        "ProofOfPayment" => tree_of(&gen_proof(rng)),
        "PaidChunk" => tree_of(&(gen_proof(rng), gen_chunk(rng))),
        "Scratchpad" => tree_of(&gen_scratchpad(rng)),
        "PaidScratchpad" => tree_of(&(gen_proof(rng), gen_scratchpad(rng))),
        "Transactions" => tree_of(&(0..rng.below(3)).map(|_| gen_transaction(rng)).collect::<Vec<_>>()),
        "PaidTransaction" => tree_of(&(gen_proof(rng), gen_transaction(rng))),
        "ProtocolError" => tree_of(&gen_error(rng)),
        "Cmd" => tree_of(&gen_cmd(rng)),
        "Query" => tree_of(&gen_query(rng)),
        "Request" => tree_of(&if rng.chance(1, 2) { Request::Cmd(gen_cmd(rng)) } else { Request::Query(gen_query(rng)) }),
        "CmdResponse" => tree_of(&gen_cmd_response(rng)),
        "QueryResponse" => tree_of(&gen_query_response(rng)),
        "Response" => tree_of(&if rng.chance(1, 3) { Response::Cmd(gen_cmd_response(rng)) } else { Response::Query(gen_query_response(rng)) }),
        _ => Tree::Unit,
    }
}
/// record kinds under which a type is stored
fn kinds_for(name: &str) -> &'static [RecordKind] {
    match name {
        "Chunk" => &[RecordKind::Chunk],
        "PaidChunk" => &[RecordKind::ChunkWithPayment],
        "Scratchpad" => &[RecordKind::Scratchpad],
        "PaidScratchpad" => &[RecordKind::ScratchpadWithPayment],
        "Transactions" => &[RecordKind::Transaction],
        "PaidTransaction" => &[RecordKind::TransactionWithPayment],
        _ => &[],
    }
}

// ---------------------------------------------------------------- values the real serialiser refuses

/// A value whose `Serialize` impl writes `0` fields successfully and then fails (what any user type may do).
struct FailAfter(usize);
impl Serialize for FailAfter {
    fn serialize<S: serde::Serializer>(&self, s: S) -> Result<S::Ok, S::Error> {
        use serde::ser::SerializeTuple;
        let mut t = s.serialize_tuple(self.0 + 1)?;
        for i in 0..self.0 {
            t.serialize_element(&(i as u64 * 1000))?;
        }
        Err(serde::ser::Error::custom("refused"))
    }
}
fn pre_epoch_quote(secs_before: u64) -> PaymentQuote {
    let mut q = PaymentQuote::zero();
    q.content = XorName([0xAB; 32]);
    q.timestamp = SystemTime::UNIX_EPOCH - Duration::from_secs(secs_before); // serde: "SystemTime must be later than UNIX_EPOCH"
    q
}
const N_UNSER: u64 = 6;
/// try_serialize_record of the n-th unserialisable value; Ok(bytes) only if the serialiser unexpectedly accepts it
fn unserialisable(n: u64, k: RecordKind) -> Result<Vec<u8>, String> {
    let proof = |q: PaymentQuote| ProofOfPayment { peer_quotes: vec![(EncodedPeerId::from(PeerId::random()), q)] };
    let r = match n {
        0 => try_serialize_record(&(proof(pre_epoch_quote(1)), Chunk::new(Bytes::from_static(b"paid chunk"))), k),
        1 => try_serialize_record(&pre_epoch_quote(86_400), k),
        2 => {
            let good = PaymentQuote::zero();
            let p = ProofOfPayment { peer_quotes: vec![(EncodedPeerId::from(PeerId::random()), good), (EncodedPeerId::from(PeerId::random()), pre_epoch_quote(5))] };
            try_serialize_record(&(p, Chunk::new(Bytes::from(vec![7u8; 300]))), k)
        }
        3 => try_serialize_record(&FailAfter(0), k),
        4 => try_serialize_record(&FailAfter(3), k),
        _ => try_serialize_record(&vec![FailAfter(40)], k),
    };
    r.map(|b| b.to_vec()).map_err(|e| format!("{e:?}"))
}

// ---------------------------------------------------------------- execution on the real code

fn sha3_256(input: &[u8]) -> [u8; 32] {
    use tiny_keccak::{Hasher, Sha3};
    let mut h = Sha3::v256();
    let mut o = [0u8; 32];
    h.update(input);
    h.finalize(&mut o);
    o
}

fn rle(items: &[String]) -> String {
    let mut out: Vec<String> = vec![];
    let mut i = 0;
    while i < items.len() {
        let mut j = i;
        while j < items.len() && items[j] == items[i] {
            j += 1;
        }
        out.push(format!("{}*{}", items[i], j - i));
        i = j;
    }
    out.join(",")
}

fn exec(line: &str, tys: &[Ty]) -> String {
    let ws: Vec<&str> = line.split_whitespace().collect();
    let ty = |n: &str| tys.iter().find(|t| t.name == n);
    let r = catch_unwind(AssertUnwindSafe(|| -> Option<String> {
        match ws[0] {
            "hdr" => {
                let k = kind_of(ws[1])?;
                Some(match (RecordHeader { kind: k }).try_serialize() {
                    Ok(b) => hex(&b),
                    Err(_) => "err".into(),
                })
            }
            "hdrdec" => {
                let b = unhex(ws[1])?;
                Some(match RecordHeader::from_record(&record(b)) {
                    Ok(h) => format!("ok {}", kind_name(h.kind)),
                    Err(_) => "err".into(),
                })
            }
            "reghex" => {
                let text = String::from_utf8(unhex(ws[1])?).ok()?;
                Some(match RegisterAddress::from_hex(&text) {
                    Ok(a) if a.to_hex().eq_ignore_ascii_case(&text) => "ok".into(),
                    Ok(_) => "ok-but-prints-differently".into(),
                    Err(_) => "err".into(),
                })
            }
            "ischunk" => {
                let b = unhex(ws[1])?;
                Some(match RecordHeader::is_record_of_type_chunk(&record(b)) {
                    Ok(x) => format!("ok {x}"),
                    Err(_) => "err".into(),
                })
            }
            "ischunksweep" => {
                let b0 = u8::from_str_radix(ws[1], 16).ok()?;
                let mut parts = vec![];
                for b1 in 0..=255u8 {
                    let row: Vec<String> = (0..=255u8)
                        .map(|b2| match RecordHeader::is_record_of_type_chunk(&record(vec![b0, b1, b2, 0xc1])) {
                            Ok(true) => "t".into(),
                            Ok(false) => "f".into(),
                            Err(_) => "-".into(),
                        })
                        .collect();
                    if row.iter().any(|x| x != "-") {
                        parts.push(format!("{b1:02x}:{}", rle(&row)));
                    }
                }
                Some(if parts.is_empty() { "none".into() } else { parts.join(" ") })
            }
            "hdrtry" => {
                let b = unhex(ws[1])?;
                Some(match RecordHeader::try_deserialize(&b) {
                    Ok(h) => format!("ok {}", kind_name(h.kind)),
                    Err(_) => "err".into(),
                })
            }
            "hdrtrysweep2" => {
                let mut parts = vec![];
                for b0 in 0..=255u8 {
                    let row: Vec<String> = (0..=255u8)
                        .map(|b1| match RecordHeader::try_deserialize(&[b0, b1]) {
                            Ok(h) => kind_name(h.kind),
                            Err(_) => "-".into(),
                        })
                        .collect();
                    if row.iter().any(|x| x != "-") {
                        parts.push(format!("{b0:02x}:{}", rle(&row)));
                    }
                }
                Some(if parts.is_empty() { "none".into() } else { parts.join(" ") })
            }
            "hdrsweep" => {
                let b0 = u8::from_str_radix(ws[1], 16).ok()?;
                let mut parts = vec![];
                for b1 in 0..=255u8 {
                    let row: Vec<String> = (0..=255u8)
                        .map(|b2| match RecordHeader::from_record(&record(vec![b0, b1, b2, 0xc1])) {
                            Ok(h) => kind_name(h.kind),
                            Err(_) => "-".into(),
                        })
                        .collect();
                    if row.iter().any(|x| x != "-") {
                        parts.push(format!("{b1:02x}:{}", rle(&row)));
                    }
                }
                Some(if parts.is_empty() { "none".into() } else { parts.join(" ") })
            }
            "enc" => {
                let (t, _) = Tree::parse(&ws[2..])?;
                Some(match (ty(ws[1])?.enc)(&t) {
                    Ok(b) => hex(&b),
                    Err(e) => format!("bad-value {}", e.replace(char::is_whitespace, "_")),
                })
            }
            "rec" => {
                let k = kind_of(ws[1])?;
                let (t, _) = Tree::parse(&ws[3..])?;
                Some(match (ty(ws[2])?.rec)(&t, k) {
                    Ok(b) => hex(&b),
                    Err(e) => format!("bad-value {}", e.replace(char::is_whitespace, "_")),
                })
            }
            "recfail" => {
                let k = kind_of(ws[1])?;
                let n: u64 = ws[2].parse().ok()?;
                Some(match unserialisable(n % N_UNSER, k) {
                    Err(_) => "err".into(),
                    Ok(b) => format!("accepted {}", hex(&b)),
                })
            }
            "dec" => {
                let b = unhex(ws[2])?;
                Some(match (ty(ws[1])?.dec)(&b) {
                    Ok((t, re)) if b.starts_with(&re) => format!("ok {}", t.text()),
                    Ok(_) => "reject".into(),
                    Err(_) => "reject".into(),
                })
            }
            "recdec" => {
                let b = unhex(ws[2])?;
                let r = record(b.clone());
                let k = match RecordHeader::from_record(&r) {
                    Ok(h) => kind_name(h.kind),
                    Err(_) => return Some("hdr-err".into()),
                };
                Some(match (ty(ws[1])?.recdec)(&r) {
                    Ok((t, re)) if b[RecordHeader::SIZE..].starts_with(&re) => format!("{k} ok {}", t.text()),
                    _ => format!("{k} reject"),
                })
            }
            "chunk" => {
                let addr: [u8; 32] = unhex(ws[1])?.try_into().ok()?;
                let value = unhex(ws[2])?;
                let forged = Chunk { address: ChunkAddress::new(XorName(addr)), value: Bytes::from(value.clone()) };
                let bytes = try_serialize_record(&forged, RecordKind::Chunk).ok()?;
                let back: Chunk = try_deserialize_record(&record(bytes.to_vec())).ok()?;
                let recomputed = back.address().xorname().0 == sha3_256(&value) && back.value.as_ref() == value.as_slice();
                Some(format!("{} {}", if recomputed { "recomputed" } else { "kept" }, hex(&back.address().xorname().0)))
            }
            _ => None,
        }
    }));
    match r {
        Ok(Some(s)) => s,
        Ok(None) => "bad-op".into(),
        Err(_) => "panic".into(),
    }
}

// ---------------------------------------------------------------- oracle (model-independent)

fn cbor_round_trip<T: Serialize + DeserializeOwned + PartialEq>(v: &T) -> bool {
    let bytes = match cbor4ii::serde::to_vec(Vec::new(), v) {
        Ok(b) => b,
        Err(_) => return false,
    };
    matches!(cbor4ii::serde::from_slice::<T>(&bytes), Ok(back) if back == *v)
}

/// `input` is what a replay needs to reproduce the case: the op line itself, preceded by the failed encodes
/// that ran just before it on this thread (joined with " ; ").
fn oracle(line: &str, input: &str, res: &str, out: &mut Out, tys: &[Ty]) {
    let ws: Vec<&str> = line.split_whitespace().collect();
    if res == "panic" {
        out.oracle_fail("decoders-never-panic", input, "implementation panicked");
        return;
    }
    let ty = |n: &str| tys.iter().find(|t| t.name == n);
    match ws[0] {
        "hdr" => {
            // fixed-size prefix, fixed tag numbers (the assignment nodes on the network use today)
            let want = ["ChunkWithPayment", "Chunk", "Transaction", "Register", "RegisterWithPayment", "Scratchpad", "ScratchpadWithPayment", "TransactionWithPayment"]
                .iter()
                .position(|k| *k == ws[1]);
            if let Some(tag) = want {
                if res != format!("91{tag:02x}") {
                    out.oracle_fail("tag-fixed-and-two-bytes", input, &format!("header bytes {res}, expected 91{tag:02x}"));
                }
                let back = exec(&format!("hdrdec {res}c0"), tys);
                if back != format!("ok {}", ws[1]) {
                    out.oracle_fail("header-round-trip", input, &format!("header {res} decodes as `{back}`"));
                }
            }
        }
        "enc" | "rec" => {
            if res.starts_with("bad-value") {
                out.oracle_fail("harness-value-tree", input, res);
                return;
            }
            // value round trip through the real decoder
            let (tyname, back) = if ws[0] == "enc" {
                (ws[1], exec(&format!("dec {} {res}", ws[1]), tys))
            } else {
                (ws[2], exec(&format!("recdec {} {res}", ws[2]), tys))
            };
            let tree_text = if ws[0] == "enc" { ws[2..].join(" ") } else { ws[3..].join(" ") };
            let want = if ws[0] == "enc" { format!("ok {tree_text}") } else { format!("{} ok {tree_text}", ws[1]) };
            if back != want {
                out.oracle_fail("encode-decode-round-trip", input, &format!("{tyname}: decoding the encoded value gives `{}`", &back[..back.len().min(200)]));
            }
            if ws[0] == "rec" && !res.starts_with("91") {
                out.oracle_fail("tag-fixed-and-two-bytes", input, "record does not start with the 2-byte header");
            }
        }
        "ischunk" => {
            // the wrapper may say Ok(_) only where the header decoder accepts, and then `true` exactly for the Chunk kind;
            // arbitrary / truncated / unknown-kind bytes are an error, not "not a chunk"
            let hd = exec(&format!("hdrdec {}", ws[1]), tys);
            let want = match hd.strip_prefix("ok ") {
                Some(k) => format!("ok {}", k == "Chunk"),
                None => "err".to_string(),
            };
            if res != want {
                out.oracle_fail("chunk-test-errs-exactly-when-header-decoder-errs", input, &format!("is_record_of_type_chunk = `{res}` but from_record = `{hd}`"));
            }
        }
        "ischunksweep" => {
            // find the first window on which the wrapper and the decoder disagree and report it as a concrete input
            if let Ok(b0) = u8::from_str_radix(ws[1], 16) {
                'outer: for b1 in 0..=255u8 {
                    for b2 in 0..=255u8 {
                        let r = record(vec![b0, b1, b2, 0xc1]);
                        let a = RecordHeader::is_record_of_type_chunk(&r).ok();
                        let b = RecordHeader::from_record(&r).ok().map(|h| h.kind == RecordKind::Chunk);
                        if a != b {
                            out.oracle_fail(
                                "chunk-test-errs-exactly-when-header-decoder-errs",
                                &format!("ischunk {}", hex(&[b0, b1, b2, 0xc1])),
                                &format!("is_record_of_type_chunk = {a:?} but from_record gives {b:?}"),
                            );
                            break 'outer;
                        }
                    }
                }
            }
        }
        "chunk" => {
            if !res.starts_with("recomputed ") {
                out.oracle_fail("chunk-address-recomputed", input, &format!("decoded chunk address: {res}"));
            }
        }
        "dec" | "recdec" => {
            // a truncated canonical encoding must not decode canonically to something else silently: nothing to state
            // model-independently beyond "no panic" (checked above) and, for accepted inputs, re-encoding stability (built into `ok`).
            let _ = ty;
        }
        _ => {}
    }
}

/// every MessagePack integer spelling of `t` (all widths that can hold it, unsigned and signed), plus a negative one
fn int_spellings(t: u64) -> Vec<Vec<u8>> {
    let mut v: Vec<Vec<u8>> = vec![];
    if t < 128 {
        v.push(vec![t as u8]);
    }
    if t < 256 {
        v.push(vec![0xcc, t as u8]);
    }
    if t < 65536 {
        v.push([vec![0xcd], (t as u16).to_be_bytes().to_vec()].concat());
    }
    if t < 1 << 32 {
        v.push([vec![0xce], (t as u32).to_be_bytes().to_vec()].concat());
    }
    v.push([vec![0xcf], t.to_be_bytes().to_vec()].concat());
    if t < 128 {
        v.push(vec![0xd0, t as u8]);
    }
    if t < 32768 {
        v.push([vec![0xd1], (t as u16).to_be_bytes().to_vec()].concat());
    }
    if t < 1 << 31 {
        v.push([vec![0xd2], (t as u32).to_be_bytes().to_vec()].concat());
    }
    if t < 1 << 63 {
        v.push([vec![0xd3], t.to_be_bytes().to_vec()].concat());
    }
    v.push(vec![0xd0, 0x80 | (t as u8)]); // negative i8
    v.push(vec![0xe0 | (t as u8 & 0x1f)]); // negative fixint
    v
}

fn mutate(rng: &mut Rng, b: &[u8]) -> Vec<u8> {
    let mut v = b.to_vec();
    match rng.below(8) {
        0 | 1 => {
            let n = rng.below(v.len() as u64 + 1) as usize;
            v.truncate(n);
        }
        2 | 3 => {
            if !v.is_empty() {
                let i = rng.below(v.len() as u64) as usize;
                v[i] ^= 1 << rng.below(8);
            }
        }
        4 => {
            if !v.is_empty() {
                let i = rng.below(v.len().min(6) as u64) as usize;
                v[i] = rng.next() as u8;
            }
        }
        5 => v.extend_from_slice(&rng.bytes(3)),
        6 => {
            if !v.is_empty() {
                let i = rng.below(v.len() as u64) as usize;
                v.insert(i, rng.next() as u8);
            }
        }
        _ => {
            if !v.is_empty() {
                let i = rng.below(v.len() as u64) as usize;
                v.remove(i);
            }
        }
    }
    v
}

fn main() {
    let args = &common::parse_args();
    let mut out = Out::new(&args.out);
    std::panic::set_hook(Box::new(|_| {}));
    let tys = types();
    if args.extra.contains_key("samples") {
        let mut rng = Rng::new(args.seed);
        for t in &tys {
            for _ in 0..3 {
                let tr = gen_tree(&mut rng, t.name, false);
                println!("{} {}\n   {}", t.name, tr.text(), (t.enc)(&tr).map(|b| hex(&b)).unwrap_or_else(|e| e));
            }
        }
        return;
    }
    let lines: Vec<String> = if let Some(p) = &args.replay {
        common::read_lines(p)
    } else {
        let mut rng = Rng::new(args.seed);
        let mut v: Vec<String> = vec![];
        for k in KINDS {
            v.push(format!("hdr {}", kind_name(k)));
        }
        // the header decoder, exhaustively for the first bytes that can matter and a few that cannot
        for b0 in ["91", "81", "c4", "90", "92", "dc", "de", "c5", "d9", "a1", "00", "c0", "ff"] {
            v.push(format!("hdrsweep {b0}"));
        }
        for h in ["-", "91", "9101", "910100", "91cc05", "91cc08", "91d007", "91d0ff", "91cd00", "810003", "c40106", "c40206", "92010203", "9108ff", "91ccff", "91c000"] {
            v.push(format!("hdrdec {h}"));
            v.push(format!("ischunk {h}"));
            v.push(format!("hdrtry {h}"));
        }
        {
            let a = RegisterAddress::new(xor(&mut rng), sk(&mut rng).public_key()).to_hex();
            for t in [String::new(), "ab".into(), "abcd".into(), a[..62].into(), a[..64].into(), a[..66].into(), a[..158].into(), a[..159].into(), a.clone(), a.to_uppercase(), format!("{a}00"), format!("{a}0"), a.replacen('a', "g", 1), format!("zz{}", &a[2..])] {
                v.push(format!("reghex {}", hex(t.as_bytes())));
            }
        }
        for b0 in ["91", "81", "c4", "00", "92"] {
            v.push(format!("ischunksweep {b0}"));
        }
        v.push("hdrtrysweep2".into());
        // the tag in every integer width (unsigned, non-negative and negative signed), every 1-array / 1-bin spelling
        for t in [0u64, 1, 7, 8, 127, 128, 255, 256, 65535, 65536, 4294967295, 4294967296, u64::MAX] {
            for w in int_spellings(t) {
                for pre in [vec![0x91u8], vec![0xdc, 0, 1], vec![0xdd, 0, 0, 0, 1]] {
                    let mut b = pre.clone();
                    b.extend_from_slice(&w);
                    v.push(format!("hdrtry {}", hex(&b)));
                }
            }
        }
        for h in ["c4010100", "c5000105", "c600000001", "c60000000107ff", "c5000205", "dc000201", "dc0000", "dd0000000201", "91d1ffff", "91d3ffffffffffffffff", "91ca00000000", "91c0", "91a0", "9190", "9201", "90"] {
            v.push(format!("hdrtry {h}"));
        }
        v.push(format!("chunk {} {}", hex(&[0u8; 32]), hex(b"hello")));
        // a failed encode must leave no trace in the next successful one on the same thread
        for n in 0..N_UNSER {
            let k = KINDS[(n as usize) % KINDS.len()];
            v.push(format!("recfail {} {n}", kind_name(k)));
            v.push(format!("rec Chunk Chunk {}", tree_of(&Chunk::new(Bytes::from(vec![n as u8 + 1; 5 + n as usize]))).text()));
            v.push(format!("recfail {} {n}", kind_name(k)));
            v.push(format!("recfail {} {}", kind_name(KINDS[(n as usize + 3) % 8]), (n + 1) % N_UNSER));
            v.push(format!("chunk {} {}", hex(&[n as u8; 32]), hex(&[9u8, n as u8, 7])));
        }
        let names: Vec<&str> = tys.iter().map(|t| t.name).collect();
        for _ in 0..args.n {
            match rng.below(20) {
                0..=7 => {
                    let n = *rng.pick(&names);
                    v.push(format!("enc {n} {}", gen_tree(&mut rng, n, false).text()));
                }
                8..=10 => {
                    let n = *rng.pick(&["Chunk", "PaidChunk", "Scratchpad", "PaidScratchpad", "Transactions", "PaidTransaction"]);
                    let k = if rng.chance(5, 6) { kinds_for(n)[0] } else { *rng.pick(&KINDS) };
                    v.push(format!("rec {} {n} {}", kind_name(k), gen_tree(&mut rng, n, false).text()));
                }
                11..=14 => {
                    // arbitrary / truncated / bit-flipped bytes for the plain types
                    let n = *rng.pick(&PLAIN);
                    let t = gen_tree(&mut rng, n, true);
                    let ty = tys.iter().find(|x| x.name == n).unwrap();
                    let good = (ty.enc)(&t).unwrap_or_default();
                    let bytes = if rng.chance(1, 8) { rng.bytes(rng.clone().below(12) as usize) } else { mutate(&mut rng, &good) };
                    v.push(format!("dec {n} {}", hex(&bytes)));
                }
                15..=16 => {
                    // records: unknown kinds, damaged headers, damaged bodies
                    let n = *rng.pick(&["Chunk", "PaidChunk"]);
                    let t = gen_tree(&mut rng, n, true);
                    let ty = tys.iter().find(|x| x.name == n).unwrap();
                    let mut bytes = (ty.rec)(&t, *rng.pick(&KINDS)).unwrap_or_default();
                    match rng.below(5) {
                        0 => bytes[1] = *rng.pick(&[8u8, 9, 0x7f, 0x80, 0xcc, 0xd0, 0xff]),
                        1 => bytes[0] = rng.next() as u8,
                        2 => {
                            let n = rng.below(4) as usize;
                            bytes.truncate(n)
                        }
                        3 => {
                            // non-minimal header [0x91, 0xcc, tag] followed by the body
                            let tag = bytes[1];
                            bytes.splice(1..2, [0xcc, tag]);
                        }
                        _ => bytes = mutate(&mut rng, &bytes),
                    }
                    v.push(format!("recdec {n} {}", hex(&bytes)));
                }
                17 => {
                    let mut b = rng.bytes(3);
                    if rng.chance(2, 3) {
                        b[0] = *rng.pick(&[0x91u8, 0x81, 0xc4, 0x92]);
                    }
                    if rng.chance(1, 2) {
                        b[1] = *rng.pick(&[0u8, 1, 7, 8, 0xcc, 0xd0, 0xcd, 0xc0]);
                    }
                    let n = rng.below(5) as usize;
                    b.truncate(n.max(1));
                    b.extend_from_slice(&rng.bytes(rng.clone().below(3) as usize));
                    v.push(format!("hdrdec {}", hex(&b)));
                    v.push(format!("ischunk {}", hex(&b)));
                    if !(b.len() > 3 && (b[0] & 0xf0 == 0x80 || b[0] == 0xde || b[0] == 0xdf)) {
                        v.push(format!("hdrtry {}", hex(&b)));
                    }
                    if rng.chance(1, 3) {
                        // a whole record (valid kind, unknown kind, damaged) through the chunk test
                        let t = gen_tree(&mut rng, "Chunk", true);
                        let ty = tys.iter().find(|x| x.name == "Chunk").unwrap();
                        let mut bytes = (ty.rec)(&t, *rng.pick(&KINDS)).unwrap_or_default();
                        match rng.below(4) {
                            0 => bytes[1] = *rng.pick(&[8u8, 9, 0x7f, 0x80, 0xcc, 0xd0, 0xff]),
                            1 => bytes[0] = rng.next() as u8,
                            2 => bytes.truncate(rng.below(4) as usize),
                            _ => {}
                        }
                        v.push(format!("ischunk {}", hex(&bytes)));
                    }
                    if rng.chance(1, 3) {
                        let t = gen_u64(&mut rng);
                        let w = int_spellings(t);
                        let mut b = rng.pick(&[vec![0x91u8], vec![0xdc, 0, 1], vec![0xdd, 0, 0, 0, 1]]).clone();
                        let pick: &Vec<u8> = rng.pick(&w[..]);
                        b.extend_from_slice(pick);
                        if rng.chance(1, 4) {
                            b.pop();
                        }
                        v.push(format!("hdrtry {}", hex(&b)));
                    }
                    if rng.chance(1, 8) {
                        v.push(format!("ischunksweep {:02x}", rng.below(256)));
                    }
                    if rng.chance(1, 4) {
                        let a = RegisterAddress::new(xor(&mut rng), sk(&mut rng).public_key()).to_hex();
                        let t = match rng.below(6) {
                            0 => a.clone(),
                            1 | 2 => a[..rng.below(160) as usize].to_string(),
                            3 => format!("{a}{}", &a[..rng.range(1, 8) as usize]),
                            4 => {
                                let mut c: Vec<char> = a.chars().collect();
                                let i = rng.below(160) as usize;
                                c[i] = *rng.pick(&['g', 'z', ' ', '-', 'x']);
                                c.into_iter().collect()
                            }
                            _ => a[..(2 * rng.below(32)) as usize].to_string(),
                        };
                        v.push(format!("reghex {}", hex(t.as_bytes())));
                    }
                }
                18 => {
                    let n = gen_len(&mut rng).min(3000);
                    v.push(format!("chunk {} {}", hex(&xor(&mut rng).0), hex(&rng.bytes(n))));
                }
                19 if rng.chance(1, 2) => {
                    // failed encode(s), then a successful one of a random record type on the same thread
                    for _ in 0..rng.range(1, 2) {
                        v.push(format!("recfail {} {}", kind_name(*rng.pick(&KINDS)), rng.below(N_UNSER)));
                    }
                    let n = *rng.pick(&["Chunk", "PaidChunk", "Scratchpad", "PaidScratchpad", "Transactions", "PaidTransaction"]);
                    v.push(format!("rec {} {n} {}", kind_name(kinds_for(n)[0]), gen_tree(&mut rng, n, false).text()));
                }
                _ => v.push(format!("hdrsweep {:02x}", rng.below(256))),
            }
        }
        v
    };
    // model-independent: every Request/Response survives the codec the network really uses (libp2p request_response::cbor = cbor4ii)
    if args.replay.is_none() {
        let mut rng = Rng::new(args.seed ^ 0xC0B0);
        let mut bad = 0;
        for _ in 0..(args.n / 10).max(50) {
            let rq = if rng.chance(1, 2) { Request::Cmd(gen_cmd(&mut rng)) } else { Request::Query(gen_query(&mut rng)) };
            let rs = if rng.chance(1, 3) { Response::Cmd(gen_cmd_response(&mut rng)) } else { Response::Query(gen_query_response(&mut rng)) };
            if !cbor_round_trip(&rq) {
                bad += 1;
                out.oracle_fail("message-round-trip-cbor", &format!("enc Request {}", tree_of(&rq).text()), "Request does not survive the CBOR codec");
            }
            if !cbor_round_trip(&rs) {
                bad += 1;
                out.oracle_fail("message-round-trip-cbor", &format!("enc Response {}", tree_of(&rs).text()), "Response does not survive the CBOR codec");
            }
            out.count("oracle:cbor-round-trip");
        }
        let _ = bad;
    }
    for (i, l) in lines.iter().enumerate() {
        let r = exec(l, &tys);
        // failed encodes among the three preceding ops belong to the reproduction of this case
        let from = (i.saturating_sub(3)..i).find(|j| lines[*j].starts_with("recfail")).unwrap_or(i);
        let input = lines[from..=i].join(" ; ");
        oracle(l, &input, &r, &mut out, &tys);
        let ws: Vec<&str> = l.split_whitespace().collect();
        let class = match ws[0] {
            "enc" => format!("enc:{}", ws[1]),
            "rec" => format!("rec:{}", ws[2]),
            "dec" => format!("dec:{}:{}", ws[1], r.split_whitespace().next().unwrap_or("")),
            "recdec" => format!("recdec:{}", if r == "hdr-err" { "hdr-err" } else if r.contains(" ok ") { "ok" } else { "reject" }),
            "hdrdec" => format!("hdrdec:{}", r.split_whitespace().next().unwrap_or("")),
            o => o.to_string(),
        };
        out.count(&class);
        out.nontrivial_case(l);
        out.line(l.clone(), r);
    }
    out.notes.push("Request/Response travel as CBOR (libp2p request_response::cbor); their serde shape is compared through rmp_serde and a CBOR round trip is checked by the oracle".into());
    out.finish();
}
