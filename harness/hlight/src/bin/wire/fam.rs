//! C12 audit families: "arbitrary / truncated bytes never crash" on the REAL decoders of every type whose decoding validates a
//! leaf (BLS G1 / G2 points, the `BTreeSet<RegisterOp>` / crdts node, multiaddrs), i.e. the types the plain streams leave out.
//!
//! New op lines (inputs + the implementation's verdict as a witness, because the comparison is ONE-WAY there: the model treats
//! such leaves as opaque bytes, so it accepts canonical encodings the real decoder refuses):
//!   decx <Type> <hex> <a|r> [label]     like `dec`;    `a` = the real decoder accepted canonically when the line was generated.
//!   recdecx <Type> <hex> <a|r> [label]  like `recdec`  The model prints its own verdict under `a` (so: implementation accepts ⇒
//!   cdecx <Type> <hex> <a|r> [label]    like `cdec`    model accepts THE SAME VALUE) and `reject` under `r`.
//!   dectrunc <Type> <hex>               every cut of `cuts(len)` through `rmp_serde::from_slice::<T>`: run-length coded a|r (raw
//!   cdectrunc <Type> <hex>              acceptance; exact: no strict prefix of an encoding is a value on either side)
//!   recdectrunc <Type> <hex>            the same through from_record AND try_deserialize_record (both on every cut): a (both accept) |
//!                                       r (header only) | h (neither) | b (body without a header)
//!   crepl <n> <byte hex>                the worst-case honest `Cmd::Replicate` of n records (32-byte record keys, NonChunk content
//!                                       hashes, every byte = <byte>) through the real codec: `len=.. fnv=.. read=ok|err`
//!   crepl <n> <byte hex> <c>            the same with c chunk entries (`RecordType::Chunk`, 52 bytes each) in front of the n non-chunk ones
//!   cresp <n> <byte hex>                `GetReplicatedRecord(Ok((RecordKey(), n × <byte>)))` through the real codec, likewise
//!   pchunk <addr hex32> <value hex>     a `(ProofOfPayment, Chunk)` record whose chunk carries that (possibly forged) address
use super::*;

pub const NONPLAIN: [&str; 14] = [
    "NetworkAddress", "Scratchpad", "PaidScratchpad", "Transactions", "PaidTransaction", "SignedRegister", "PaidRegister", "ProtocolError", "Cmd",
    "Query", "Request", "CmdResponse", "QueryResponse", "Response",
];
pub const RECORD_TYPES: [&str; 8] = ["Chunk", "PaidChunk", "Scratchpad", "PaidScratchpad", "Transactions", "PaidTransaction", "SignedRegister", "PaidRegister"];

/// the cut positions of the truncation families (the Lean driver computes the same list)
pub fn cuts(n: usize) -> Vec<usize> {
    let mut v: Vec<usize> = (0..n.min(64)).collect();
    v.extend((0..24).map(|i| i * n / 24));
    v.extend([n.saturating_sub(1), n.saturating_sub(2), n.saturating_sub(3)]);
    v.into_iter().filter(|k| *k < n).collect()
}

pub fn fnv64(b: &[u8]) -> u64 {
    b.iter().fold(0xcbf29ce484222325u64, |h, x| (h ^ *x as u64).wrapping_mul(0x100000001b3))
}

// ---------------------------------------------------------------- where the length headers are

/// offsets of the MessagePack length headers (array / bin / str / map) of the item starting at `*pos`, with the header's
/// length and kind (0 array, 1 bin, 2 str, 3 map); stops quietly on anything it cannot walk
fn mp_headers(b: &[u8], pos: &mut usize, out: &mut Vec<(usize, usize, u8)>, depth: usize) -> Option<()> {
    if depth > 32 {
        return None;
    }
    let at = *pos;
    let m = *b.get(at)?;
    let be = |from: usize, n: usize| -> Option<usize> { Some(b.get(from..from + n)?.iter().fold(0usize, |a, x| (a << 8) | *x as usize)) };
    let (kind, hdr, len): (u8, usize, usize) = match m {
        0x00..=0x7f | 0xe0..=0xff | 0xc0 | 0xc2 | 0xc3 => (9, 1, 0),
        0xcc | 0xd0 => (9, 2, 0),
        0xcd | 0xd1 => (9, 3, 0),
        0xce | 0xd2 | 0xca => (9, 5, 0),
        0xcf | 0xd3 | 0xcb => (9, 9, 0),
        0x90..=0x9f => (0, 1, (m & 0x0f) as usize),
        0xdc => (0, 3, be(at + 1, 2)?),
        0xdd => (0, 5, be(at + 1, 4)?),
        0x80..=0x8f => (3, 1, (m & 0x0f) as usize),
        0xde => (3, 3, be(at + 1, 2)?),
        0xdf => (3, 5, be(at + 1, 4)?),
        0xa0..=0xbf => (2, 1, (m & 0x1f) as usize),
        0xd9 => (2, 2, be(at + 1, 1)?),
        0xda => (2, 3, be(at + 1, 2)?),
        0xdb => (2, 5, be(at + 1, 4)?),
        0xc4 => (1, 2, be(at + 1, 1)?),
        0xc5 => (1, 3, be(at + 1, 2)?),
        0xc6 => (1, 5, be(at + 1, 4)?),
        _ => return None,
    };
    *pos = at + hdr;
    match kind {
        9 => {}
        1 | 2 => {
            out.push((at, hdr, kind));
            *pos = pos.checked_add(len)?;
            if *pos > b.len() {
                return None;
            }
        }
        0 => {
            out.push((at, hdr, kind));
            for _ in 0..len {
                mp_headers(b, pos, out, depth + 1)?;
            }
        }
        _ => {
            out.push((at, hdr, kind));
            for _ in 0..2 * len {
                mp_headers(b, pos, out, depth + 1)?;
            }
        }
    }
    Some(())
}

/// the same for definite-length CBOR: kind = major type (2 bytes, 3 text, 4 array, 5 map)
fn cbor_headers(b: &[u8], pos: &mut usize, out: &mut Vec<(usize, usize, u8)>, depth: usize) -> Option<()> {
    if depth > 32 {
        return None;
    }
    let at = *pos;
    let first = *b.get(at)?;
    let (major, info) = (first >> 5, first & 0x1f);
    let (hdr, arg): (usize, usize) = match info {
        0..=23 => (1, info as usize),
        24..=27 => {
            let n = 1usize << (info - 24);
            (1 + n, b.get(at + 1..at + 1 + n)?.iter().fold(0usize, |a, x| (a << 8) | *x as usize))
        }
        _ => return None,
    };
    *pos = at + hdr;
    match major {
        0 | 1 => {}
        2 | 3 => {
            out.push((at, hdr, major));
            *pos = pos.checked_add(arg)?;
            if *pos > b.len() {
                return None;
            }
        }
        4 => {
            out.push((at, hdr, major));
            for _ in 0..arg {
                cbor_headers(b, pos, out, depth + 1)?;
            }
        }
        5 => {
            out.push((at, hdr, major));
            for _ in 0..2 * arg {
                cbor_headers(b, pos, out, depth + 1)?;
            }
        }
        7 if matches!(first, 0xf4 | 0xf5 | 0xf6) => {}
        _ => return None,
    }
    Some(())
}

/// one length header replaced by a huge one of the same kind (the declared length far beyond the input)
pub fn inflate(rng: &mut Rng, b: &[u8], cbor: bool) -> Vec<u8> {
    let mut hs = vec![];
    let mut pos = 0;
    if cbor {
        let _ = cbor_headers(b, &mut pos, &mut hs, 0);
    } else {
        let _ = mp_headers(b, &mut pos, &mut hs, 0);
    }
    if hs.is_empty() {
        return b.to_vec();
    }
    let (at, hdr, kind) = *rng.pick(&hs);
    let big: Vec<u8> = if cbor {
        let m = kind << 5;
        match rng.below(4) {
            0 => vec![m | 26, 0xff, 0xff, 0xff, 0xff],
            1 => vec![m | 27, 0xff, 0xff, 0xff, 0xff, 0xff, 0xff, 0xff, 0xff],
            2 => vec![m | 27, 0x7f, 0xff, 0xff, 0xff, 0xff, 0xff, 0xff, 0xff],
            _ => vec![m | 26, 0x00, 0xff, 0xff, 0xff],
        }
    } else {
        let m = [0xddu8, 0xc6, 0xdb, 0xdf][kind as usize];
        if rng.chance(3, 4) {
            vec![m, 0xff, 0xff, 0xff, 0xff]
        } else {
            vec![m, 0x00, 0xff, 0xff, 0xff]
        }
    };
    let mut v = b[..at].to_vec();
    v.extend_from_slice(&big);
    v.extend_from_slice(&b[at + hdr..]);
    v
}

// ---------------------------------------------------------------- damaged leaves (tree level)

fn is_point_leaf(t: &Tree) -> bool {
    matches!(t, Tree::Tup(ts) if (ts.len() == 48 || ts.len() == 96) && ts.iter().all(|x| matches!(x, Tree::U(n) if *n < 256)))
}
fn is_leaf(t: &Tree) -> bool {
    is_point_leaf(t) || matches!(t, Tree::Bytes(b) if !b.is_empty())
}
fn count_leaves(t: &Tree) -> usize {
    if is_leaf(t) {
        return 1;
    }
    match t {
        Tree::Some(x) | Tree::NVar(_, x) => count_leaves(x),
        Tree::Seq(ts) | Tree::Tup(ts) => ts.iter().map(count_leaves).sum(),
        Tree::Rec(fs) => fs.iter().map(|(_, x)| count_leaves(x)).sum(),
        Tree::Map(ps) => ps.iter().map(|(k, v)| count_leaves(k) + count_leaves(v)).sum(),
        _ => 0,
    }
}
fn nth_leaf<'a>(t: &'a mut Tree, n: &mut usize) -> Option<&'a mut Tree> {
    if is_leaf(t) {
        if *n == 0 {
            return Some(t);
        }
        *n -= 1;
        return None;
    }
    match t {
        Tree::Some(x) | Tree::NVar(_, x) => nth_leaf(x, n),
        Tree::Seq(ts) | Tree::Tup(ts) => ts.iter_mut().find_map(|x| nth_leaf(x, n)),
        Tree::Rec(fs) => fs.iter_mut().find_map(|(_, x)| nth_leaf(x, n)),
        Tree::Map(ps) => ps.iter_mut().find_map(|(_, v)| nth_leaf(v, n)),
        _ => None,
    }
}
fn u8s(b: &[u8]) -> Vec<Tree> {
    b.iter().map(|x| Tree::U(*x as u64)).collect()
}
/// damage one validated leaf of the value; returns the name of the damage (None: the value has no such leaf)
pub fn damage_leaf(rng: &mut Rng, t: &mut Tree) -> Option<&'static str> {
    let n = count_leaves(t);
    if n == 0 {
        return None;
    }
    let mut k = rng.below(n as u64) as usize;
    let leaf = nth_leaf(t, &mut k)?;
    Some(match leaf {
        Tree::Tup(ts) => {
            let len = ts.len();
            let mut raw: Vec<u8> = ts.iter().map(|x| if let Tree::U(n) = x { *n as u8 } else { 0 }).collect();
            let what = match rng.below(11) {
                0 | 1 => {
                    let i = rng.below(len as u64) as usize;
                    raw[i] ^= 1 << rng.below(8);
                    "point-bitflip"
                }
                2 => {
                    raw = vec![0; len];
                    "point-zeros"
                }
                3 => {
                    raw = vec![0xff; len];
                    "point-ones"
                }
                4 => {
                    raw = vec![0; len];
                    raw[0] = 0xc0;
                    "point-infinity"
                }
                5 => {
                    raw[len - 1] = raw[len - 1].wrapping_add(1);
                    "point-x-plus-1"
                }
                6 => {
                    raw[0] &= 0x1f;
                    "point-flags-cleared"
                }
                7 => {
                    // bytes of a point of the OTHER group in this slot
                    raw = if len == 48 { sk(rng).sign(b"c12").to_bytes()[..48].to_vec() } else { [sk(rng).public_key().to_bytes(), sk(rng).public_key().to_bytes()].concat() };
                    "point-wrong-group"
                }
                8 => {
                    raw.pop();
                    "point-short"
                }
                9 => {
                    raw.push(0);
                    "point-long"
                }
                _ => {
                    *ts = u8s(&raw);
                    let i = rng.below(len as u64) as usize;
                    ts[i] = Tree::U(*rng.pick(&[256u64, 300, 65536, u64::MAX]));
                    return Some("point-item-not-u8");
                }
            };
            *ts = u8s(&raw);
            what
        }
        Tree::Bytes(b) => match rng.below(5) {
            0 | 1 => {
                let i = rng.below(b.len() as u64) as usize;
                b[i] ^= 1 << rng.below(8);
                "bytes-bitflip"
            }
            2 => {
                let n = rng.below(b.len() as u64) as usize;
                b.truncate(n);
                "bytes-short"
            }
            3 => {
                b.extend_from_slice(&rng.bytes(1 + rng.clone().below(3) as usize));
                "bytes-long"
            }
            _ => {
                *b = rng.bytes(b.len());
                "bytes-random"
            }
        },
        _ => return None,
    })
}

// ---------------------------------------------------------------- the big messages

pub fn worst_replicate(n: usize, fill: u8) -> Request {
    Request::Cmd(Cmd::Replicate {
        holder: NetworkAddress::PeerId(Bytes::from(vec![fill; 38])),
        keys: (0..n).map(|_| (NetworkAddress::RecordKey(Bytes::from(vec![fill; 32])), RecordType::NonChunk(XorName([fill; 32])))).collect(),
    })
}
/// `c` chunk entries (`RecordType::Chunk`, 52 CBOR bytes each) in front of `n` non-chunk entries
pub fn mixed_replicate(c: usize, n: usize, fill: u8) -> Request {
    let key = || NetworkAddress::RecordKey(Bytes::from(vec![fill; 32]));
    Request::Cmd(Cmd::Replicate {
        holder: NetworkAddress::PeerId(Bytes::from(vec![fill; 38])),
        keys: (0..c).map(|_| (key(), RecordType::Chunk)).chain((0..n).map(|_| (key(), RecordType::NonChunk(XorName([fill; 32]))))).collect(),
    })
}
pub fn big_response(n: usize, fill: u8) -> Response {
    Response::Query(QueryResponse::GetReplicatedRecord(Ok((NetworkAddress::RecordKey(Bytes::new()), Bytes::from(vec![fill; n])))))
}

pub fn exec_fam(ws: &[&str], tys: &[Ty]) -> Option<String> {
    let ty = |n: &str| tys.iter().find(|t| t.name == n);
    let verdicts = |n: usize, f: &dyn Fn(usize) -> &'static str| -> String {
        let items: Vec<String> = cuts(n).into_iter().map(|k| catch_unwind(AssertUnwindSafe(|| f(k))).unwrap_or("P").to_string()).collect();
        if items.is_empty() {
            "none".into()
        } else {
            rle(&items)
        }
    };
    match ws[0] {
        "dectrunc" => {
            let b = unhex(ws[2])?;
            let t = ty(ws[1])?;
            Some(verdicts(b.len(), &|k| if (t.dec)(&b[..k]).is_ok() { "a" } else { "r" }))
        }
        "cdectrunc" => {
            let b = unhex(ws[2])?;
            let t = ctypes().into_iter().find(|t| t.name == ws[1])?;
            Some(verdicts(b.len(), &|k| if (t.dec)(&b[..k]).is_ok() { "a" } else { "r" }))
        }
        "recdectrunc" => {
            let b = unhex(ws[2])?;
            let t = ty(ws[1])?;
            Some(verdicts(b.len(), &|k| {
                // both entry points on every cut, also below the header's length (callers reach try_deserialize_record
                // without from_record, e.g. the client's get paths)
                let r = record(b[..k].to_vec());
                match (RecordHeader::from_record(&r).is_ok(), (t.recdec)(&r).is_ok()) {
                    (true, true) => "a",
                    (true, false) => "r",
                    (false, false) => "h",
                    (false, true) => "b",
                }
            }))
        }
        "crepl" | "cresp" => {
            let n: usize = ws[1].parse().ok()?;
            let fill = u8::from_str_radix(ws[2], 16).ok()?;
            if n > 24 * 1024 * 1024 {
                return None;
            }
            let (bytes, back) = if ws[0] == "crepl" {
                let chunks: usize = if ws.len() > 3 { ws[3].parse().ok()? } else { 0 };
                if chunks > 24 * 1024 * 1024 {
                    return None;
                }
                let v = if ws.len() > 3 { mixed_replicate(chunks, n, fill) } else { worst_replicate(n, fill) };
                let bytes = codec_write_request(v.clone()).ok()?;
                let back = codec_read_request(&bytes).map(|r| {
                    log_like_a_receiver(&r);
                    r == v
                });
                (bytes, back)
            } else {
                let v = big_response(n, fill);
                let bytes = codec_write_response(v.clone()).ok()?;
                let back = codec_read_response(&bytes).map(|r| r == v);
                (bytes, back)
            };
            let read = match back {
                Ok(true) => "ok",
                Ok(false) => "other-value",
                Err(_) => "err",
            };
            Some(format!("len={} fnv={:016x} read={read}", bytes.len(), fnv64(&bytes)))
        }
        "pchunk" => {
            let addr: [u8; 32] = unhex(ws[1])?.try_into().ok()?;
            let value = unhex(ws[2])?;
            let forged = Chunk { address: ChunkAddress::new(XorName(addr)), value: Bytes::from(value.clone()) };
            let proof = ProofOfPayment { peer_quotes: vec![] };
            let bytes = try_serialize_record(&(proof, forged), RecordKind::ChunkWithPayment).ok()?;
            let (_, back): (ProofOfPayment, Chunk) = try_deserialize_record(&record(bytes.to_vec())).ok()?;
            let recomputed = back.address().xorname().0 == sha3_256(&value) && back.value.as_ref() == value.as_slice();
            Some(format!("{} {}", if recomputed { "recomputed" } else { "kept" }, hex(&back.address().xorname().0)))
        }
        _ => None,
    }
}

/// `a` if the real decoder accepts the input canonically right now (the witness carried on a one-way op line)
fn witness(op: &str, ty: &str, bytes: &[u8], tys: &[Ty]) -> char {
    let r = exec(&format!("{op} {ty} {}", hex(bytes)), tys);
    if r.starts_with("ok ") || r.contains(" ok ") {
        'a'
    } else {
        'r'
    }
}

/// the generated family lines (their own generator state; appended after the earlier streams)
pub fn generate(seed: u64, n: u64, tys: &[Ty]) -> Vec<String> {
    let mut rng = Rng::new(seed ^ 0xC121);
    let ctys = ctypes();
    let mut v: Vec<String> = vec![];
    let x = |op: &str, ty: &str, bytes: &[u8], label: &str, v: &mut Vec<String>| {
        let base = &op[..op.len() - 1];
        v.push(format!("{op} {ty} {} {} {label}", hex(bytes), witness(base, ty, bytes, tys)));
    };
    // corpus: one of each family per non-plain type
    let rounds = 1 + n / 400;
    for round in 0..rounds {
        for name in NONPLAIN {
            let t = gen_tree(&mut rng, name, false);
            let tyd = tys.iter().find(|x| x.name == name).unwrap();
            let good = (tyd.enc)(&t).unwrap_or_default();
            if round == 0 || rng.chance(1, 3) {
                v.push(format!("dectrunc {name} {}", hex(&good)));
            }
            x("decx", name, &good, "intact", &mut v);
            x("decx", name, &mutate(&mut rng, &good), "mutate", &mut v);
            x("decx", name, &inflate(&mut rng, &good, false), "inflate", &mut v);
            let mut d = t.clone();
            if let Some(what) = damage_leaf(&mut rng, &mut d) {
                if let Ok(b) = rmp_serde::to_vec(&d) {
                    x("decx", name, &b, what, &mut v);
                }
            }
        }
        for name in RECORD_TYPES {
            let t = gen_tree(&mut rng, name, false);
            let tyd = tys.iter().find(|x| x.name == name).unwrap();
            let kind = if rng.chance(4, 5) { kinds_for(name)[0] } else { *rng.pick(&KINDS) };
            let good = (tyd.rec)(&t, kind).unwrap_or_default();
            if round == 0 || rng.chance(1, 3) {
                v.push(format!("recdectrunc {name} {}", hex(&good)));
            }
            x("recdecx", name, &mutate(&mut rng, &good), "mutate", &mut v);
            let mut infl = good[..2].to_vec();
            infl.extend_from_slice(&inflate(&mut rng, &good[2..], false));
            x("recdecx", name, &infl, "inflate", &mut v);
            let mut d = t.clone();
            if let Some(what) = damage_leaf(&mut rng, &mut d) {
                if let Ok(b) = rmp_serde::to_vec(&d) {
                    let mut r = good[..2].to_vec();
                    r.extend_from_slice(&b);
                    x("recdecx", name, &r, what, &mut v);
                }
            }
            // the body of ANOTHER kind behind this header
            let other = *rng.pick(&RECORD_TYPES);
            let ot = gen_tree(&mut rng, other, false);
            if let Ok(b) = (tys.iter().find(|x| x.name == other).unwrap().enc)(&ot) {
                let mut r = good[..2].to_vec();
                r.extend_from_slice(&b);
                x("recdecx", name, &r, "foreign-body", &mut v);
            }
        }
        for cty in &ctys {
            let name = cty.name;
            let t = gen_ctree(&mut rng, name, false);
            let good = (cty.enc)(&t).unwrap_or_default();
            if round == 0 || rng.chance(1, 3) {
                v.push(format!("cdectrunc {name} {}", hex(&good)));
            }
            x("cdecx", name, &mutate(&mut rng, &good), "mutate", &mut v);
            x("cdecx", name, &inflate(&mut rng, &good, true), "inflate", &mut v);
            let mut d = t.clone();
            if let Some(what) = damage_leaf(&mut rng, &mut d) {
                if let Ok(b) = cbor4ii::serde::to_vec(Vec::new(), &d) {
                    x("cdecx", name, &b, what, &mut v);
                }
            }
        }
        // the error variants that carry a BLS key, and the multiaddr list, always (they are rare in the random stream)
        let pk = sk(&mut rng).public_key();
        let specials: Vec<(&str, Tree)> = vec![
            ("Response", named_tree_of(&Response::Cmd(CmdResponse::Replicate(Err(ProtocolError::RegisterAlreadyClaimed(pk)))))),
            ("Response", named_tree_of(&Response::Query(QueryResponse::GetRegisterRecord(Err(ProtocolError::RegisterNotFound(Box::new(RegisterAddress::new(xor(&mut rng), pk)))))))),
            (
                "Response",
                named_tree_of(&Response::Query(QueryResponse::GetClosestPeers {
                    target: gen_addr(&mut rng, false),
                    peers: vec![(gen_addr(&mut rng, false), vec![gen_multiaddr(&mut rng), gen_multiaddr(&mut rng)])],
                    signature: None,
                })),
            ),
            ("Request", named_tree_of(&Request::Query(Query::GetRegisterRecord { requester: gen_addr(&mut rng, false), key: NetworkAddress::RegisterAddress(RegisterAddress::new(xor(&mut rng), pk)) }))),
            ("Request", named_tree_of(&Request::Query(Query::CheckNodeInProblem(NetworkAddress::ScratchpadAddress(ScratchpadAddress::new(pk)))))),
        ];
        for (name, t) in specials {
            let cty = ctys.iter().find(|x| x.name == name).unwrap();
            let good = (cty.enc)(&t).unwrap_or_default();
            x("cdecx", name, &good, "intact", &mut v);
            for _ in 0..3 {
                let mut d = t.clone();
                if let Some(what) = damage_leaf(&mut rng, &mut d) {
                    if let Ok(b) = cbor4ii::serde::to_vec(Vec::new(), &d) {
                        x("cdecx", name, &b, what, &mut v);
                    }
                }
            }
            x("cdecx", name, &inflate(&mut rng, &good, true), "inflate", &mut v);
        }
    }
    v
}

/// the generic tree writer must agree with the typed writers (otherwise the damaged-leaf inputs would not be canonical)
pub fn check_tree_writer(seed: u64, out: &mut Out, tys: &[Ty]) {
    let mut rng = Rng::new(seed ^ 0x7EE);
    for name in NONPLAIN.iter().chain(PLAIN.iter()) {
        let t = gen_tree(&mut rng, name, false);
        let typed = (tys.iter().find(|x| x.name == *name).unwrap().enc)(&t).ok();
        if typed != rmp_serde::to_vec(&t).ok() {
            out.oracle_fail("harness-value-tree", &format!("enc {name} {}", t.text()), "the harness's generic tree writer and the typed rmp_serde writer disagree");
        }
        out.count("oracle:tree-writer-equals-typed");
    }
    for cty in ctypes() {
        let t = gen_ctree(&mut rng, cty.name, false);
        if (cty.enc)(&t).ok() != cbor4ii::serde::to_vec(Vec::new(), &t).ok() {
            out.oracle_fail("harness-value-tree", &format!("cenc {} {}", cty.name, t.text()), "the harness's generic tree writer and the typed cbor4ii writer disagree");
        }
        out.count("oracle:tree-writer-equals-typed");
    }
}

/// fixed lines: the codec's two size limits at their boundaries (through the real codec object), the honest worst-case
/// Replicate at and around the largest size that still fits, a full node's advertisement, forged addresses in paid chunks
pub fn corpus() -> Vec<String> {
    let mut v: Vec<String> = vec![];
    for (n, b) in [(0usize, 0xffu8), (1, 0x17), (23, 0xff), (24, 0x18), (255, 0xff), (256, 0x80), (8594, 0xff), (8595, 0xff), (8594, 0x18), (8595, 0x18), (11649, 0x00), (11650, 0x17), (16384, 0xff), (16384, 0x00)] {
        v.push(format!("crepl {n} {b:02x}"));
    }
    // mixed lists: a node full of chunks only fits; 4000 non-chunk records leave room for 10778 chunks, not for 10779
    for (n, b, c) in [(0usize, 0xffu8, 16384usize), (0, 0x00, 16384), (4000, 0xff, 10778), (4000, 0xff, 10779), (1, 0x18, 1), (8594, 0xff, 1)] {
        v.push(format!("crepl {n} {b:02x} {c}"));
    }
    for (n, b) in [(0usize, 0u8), (23, 1), (24, 2), (65535, 3), (65536, 4), (10485710, 0xee), (10485711, 0xee)] {
        v.push(format!("cresp {n} {b:02x}"));
    }
    v.push(format!("pchunk {} {}", hex(&[0u8; 32]), hex(b"hello")));
    v.push(format!("pchunk {} -", hex(&[0xabu8; 32])));
    v.push(format!("pchunk {} {}", hex(&sha3_256(b"other")), hex(b"paid chunk")));
    v
}
