//! A neutral value tree for serde's data model, its text form, a `Serializer` that records a value as
//! a tree and a `Deserializer` that rebuilds a typed value from a tree (both non-human-readable, like rmp_serde).
//! Text tokens: N unit | T F | U<dec> | I<dec> (the negative integer -(m+1)) | S<hex> str | B<hex> bytes |
//! O none | J <t> some | Q<n> <t>*n seq | P<n> <t>*n tuple/struct fields in order | V:<name> unit variant |
//! W:<name> <t> variant with payload (tuple/struct variants carry a P node) | M<n> (<k> <v>)*n map |
//! R<n> (.<field> <t>)*n a struct / struct-variant body WITH its field names (only produced in "named" mode, which the
//! CBOR ops use: cbor4ii writes structs as maps keyed by field name, so the names are part of the wire format).
use serde::de::{self, DeserializeSeed, IntoDeserializer, Visitor};
use serde::ser::{self, Serialize};
use std::fmt;

#[derive(Clone, Debug, PartialEq)]
pub enum Tree {
    Unit,
    Bool(bool),
    U(u64),
    I(u64),
    Str(Vec<u8>),
    Bytes(Vec<u8>),
    None,
    Some(Box<Tree>),
    Seq(Vec<Tree>),
    Tup(Vec<Tree>),
    UVar(String),
    NVar(String, Box<Tree>),
    Map(Vec<(Tree, Tree)>),
    Rec(Vec<(String, Tree)>),
}

fn hx(b: &[u8]) -> String {
    common::hex(b)
}

impl Tree {
    pub fn tokens(&self, out: &mut Vec<String>) {
        match self {
            Tree::Unit => out.push("N".into()),
            Tree::Bool(b) => out.push(if *b { "T" } else { "F" }.into()),
            Tree::U(n) => out.push(format!("U{n}")),
            Tree::I(m) => out.push(format!("I{m}")),
            Tree::Str(s) => out.push(format!("S{}", hx(s))),
            Tree::Bytes(s) => out.push(format!("B{}", hx(s))),
            Tree::None => out.push("O".into()),
            Tree::Some(t) => {
                out.push("J".into());
                t.tokens(out)
            }
            Tree::Seq(ts) => {
                out.push(format!("Q{}", ts.len()));
                ts.iter().for_each(|t| t.tokens(out))
            }
            Tree::Tup(ts) => {
                out.push(format!("P{}", ts.len()));
                ts.iter().for_each(|t| t.tokens(out))
            }
            Tree::UVar(n) => out.push(format!("V:{n}")),
            Tree::NVar(n, t) => {
                out.push(format!("W:{n}"));
                t.tokens(out)
            }
            Tree::Map(ps) => {
                out.push(format!("M{}", ps.len()));
                ps.iter().for_each(|(k, v)| {
                    k.tokens(out);
                    v.tokens(out)
                })
            }
            Tree::Rec(fs) => {
                out.push(format!("R{}", fs.len()));
                fs.iter().for_each(|(k, v)| {
                    out.push(format!(".{k}"));
                    v.tokens(out)
                })
            }
        }
    }
    pub fn text(&self) -> String {
        let mut v = vec![];
        self.tokens(&mut v);
        v.join(" ")
    }
    pub fn parse(ws: &[&str]) -> Option<(Tree, usize)> {
        let w = *ws.first()?;
        let many = |n: usize, from: usize| -> Option<(Vec<Tree>, usize)> {
            let mut i = from;
            let mut v = vec![];
            for _ in 0..n {
                let (t, used) = Tree::parse(&ws[i..])?;
                v.push(t);
                i += used;
            }
            Some((v, i))
        };
        let (c, rest) = w.split_at(1);
        Some(match c {
            "N" if rest.is_empty() => (Tree::Unit, 1),
            "T" if rest.is_empty() => (Tree::Bool(true), 1),
            "F" if rest.is_empty() => (Tree::Bool(false), 1),
            "U" => (Tree::U(rest.parse().ok()?), 1),
            "I" => (Tree::I(rest.parse().ok()?), 1),
            "S" => (Tree::Str(common::unhex(rest)?), 1),
            "B" => (Tree::Bytes(common::unhex(rest)?), 1),
            "O" if rest.is_empty() => (Tree::None, 1),
            "J" if rest.is_empty() => {
                let (t, used) = Tree::parse(&ws[1..])?;
                (Tree::Some(Box::new(t)), 1 + used)
            }
            "Q" => {
                let (v, i) = many(rest.parse().ok()?, 1)?;
                (Tree::Seq(v), i)
            }
            "P" => {
                let (v, i) = many(rest.parse().ok()?, 1)?;
                (Tree::Tup(v), i)
            }
            "V" => (Tree::UVar(rest.strip_prefix(':')?.to_string()), 1),
            "W" => {
                let (t, used) = Tree::parse(&ws[1..])?;
                (Tree::NVar(rest.strip_prefix(':')?.to_string(), Box::new(t)), 1 + used)
            }
            "M" => {
                let n: usize = rest.parse().ok()?;
                let (v, i) = many(2 * n, 1)?;
                let mut ps = vec![];
                let mut it = v.into_iter();
                while let (Some(k), Some(v)) = (it.next(), it.next()) {
                    ps.push((k, v));
                }
                (Tree::Map(ps), i)
            }
            "R" => {
                let n: usize = rest.parse().ok()?;
                let mut i = 1;
                let mut fs = vec![];
                for _ in 0..n {
                    let name = ws.get(i)?.strip_prefix('.')?.to_string();
                    let (t, used) = Tree::parse(&ws[i + 1..])?;
                    fs.push((name, t));
                    i += 1 + used;
                }
                (Tree::Rec(fs), i)
            }
            _ => return None,
        })
    }
}

#[derive(Debug)]
pub struct TErr(pub String);
impl fmt::Display for TErr {
    fn fmt(&self, f: &mut fmt::Formatter<'_>) -> fmt::Result {
        write!(f, "{}", self.0)
    }
}
impl std::error::Error for TErr {}
impl ser::Error for TErr {
    fn custom<T: fmt::Display>(m: T) -> Self {
        TErr(m.to_string())
    }
}
impl de::Error for TErr {
    fn custom<T: fmt::Display>(m: T) -> Self {
        TErr(m.to_string())
    }
}

// ------------------------------------------------------------------ value -> tree

pub fn to_tree<T: Serialize + ?Sized>(v: &T) -> Result<Tree, TErr> {
    v.serialize(TreeSer(false))
}
/// the same with struct / struct-variant bodies recorded as `Rec` nodes carrying the field names
pub fn to_tree_named<T: Serialize + ?Sized>(v: &T) -> Result<Tree, TErr> {
    v.serialize(TreeSer(true))
}

/// `.0` = named mode
#[derive(Clone, Copy)]
pub struct TreeSer(pub bool);
pub struct SeqSer {
    items: Vec<Tree>,
    names: Vec<String>,
    kind: u8, // 0 seq, 1 tuple, 2 struct with names
    variant: Option<String>,
    named: bool,
}
pub struct MapSer {
    items: Vec<(Tree, Tree)>,
    key: Option<Tree>,
    named: bool,
}

fn int(v: i64) -> Tree {
    if v >= 0 {
        Tree::U(v as u64)
    } else {
        Tree::I((-(v + 1)) as u64)
    }
}

impl ser::Serializer for TreeSer {
    type Ok = Tree;
    type Error = TErr;
    type SerializeSeq = SeqSer;
    type SerializeTuple = SeqSer;
    type SerializeTupleStruct = SeqSer;
    type SerializeTupleVariant = SeqSer;
    type SerializeMap = MapSer;
    type SerializeStruct = SeqSer;
    type SerializeStructVariant = SeqSer;
    fn is_human_readable(&self) -> bool {
        false
    }
    fn serialize_bool(self, v: bool) -> Result<Tree, TErr> {
        Ok(Tree::Bool(v))
    }
    fn serialize_i8(self, v: i8) -> Result<Tree, TErr> {
        Ok(int(v as i64))
    }
    fn serialize_i16(self, v: i16) -> Result<Tree, TErr> {
        Ok(int(v as i64))
    }
    fn serialize_i32(self, v: i32) -> Result<Tree, TErr> {
        Ok(int(v as i64))
    }
    fn serialize_i64(self, v: i64) -> Result<Tree, TErr> {
        Ok(int(v))
    }
    fn serialize_u8(self, v: u8) -> Result<Tree, TErr> {
        Ok(Tree::U(v as u64))
    }
    fn serialize_u16(self, v: u16) -> Result<Tree, TErr> {
        Ok(Tree::U(v as u64))
    }
    fn serialize_u32(self, v: u32) -> Result<Tree, TErr> {
        Ok(Tree::U(v as u64))
    }
    fn serialize_u64(self, v: u64) -> Result<Tree, TErr> {
        Ok(Tree::U(v))
    }
    fn serialize_f32(self, _: f32) -> Result<Tree, TErr> {
        Err(TErr("f32 unsupported".into()))
    }
    fn serialize_f64(self, _: f64) -> Result<Tree, TErr> {
        Err(TErr("f64 unsupported".into()))
    }
    fn serialize_char(self, v: char) -> Result<Tree, TErr> {
        Ok(Tree::Str(v.to_string().into_bytes()))
    }
    fn serialize_str(self, v: &str) -> Result<Tree, TErr> {
        Ok(Tree::Str(v.as_bytes().to_vec()))
    }
    fn serialize_bytes(self, v: &[u8]) -> Result<Tree, TErr> {
        Ok(Tree::Bytes(v.to_vec()))
    }
    fn serialize_none(self) -> Result<Tree, TErr> {
        Ok(Tree::None)
    }
    fn serialize_some<T: Serialize + ?Sized>(self, v: &T) -> Result<Tree, TErr> {
        Ok(Tree::Some(Box::new(v.serialize(self)?)))
    }
    fn serialize_unit(self) -> Result<Tree, TErr> {
        Ok(Tree::Unit)
    }
    fn serialize_unit_struct(self, _: &'static str) -> Result<Tree, TErr> {
        Ok(Tree::Tup(vec![]))
    }
    fn serialize_unit_variant(self, _: &'static str, _: u32, variant: &'static str) -> Result<Tree, TErr> {
        Ok(Tree::UVar(variant.into()))
    }
    fn serialize_newtype_struct<T: Serialize + ?Sized>(self, _: &'static str, v: &T) -> Result<Tree, TErr> {
        v.serialize(self)
    }
    fn serialize_newtype_variant<T: Serialize + ?Sized>(self, _: &'static str, _: u32, variant: &'static str, v: &T) -> Result<Tree, TErr> {
        Ok(Tree::NVar(variant.into(), Box::new(v.serialize(self)?)))
    }
    fn serialize_seq(self, _: Option<usize>) -> Result<SeqSer, TErr> {
        Ok(SeqSer { items: vec![], names: vec![], kind: 0, variant: None, named: self.0 })
    }
    fn serialize_tuple(self, _: usize) -> Result<SeqSer, TErr> {
        Ok(SeqSer { items: vec![], names: vec![], kind: 1, variant: None, named: self.0 })
    }
    fn serialize_tuple_struct(self, _: &'static str, _: usize) -> Result<SeqSer, TErr> {
        Ok(SeqSer { items: vec![], names: vec![], kind: 1, variant: None, named: self.0 })
    }
    fn serialize_tuple_variant(self, _: &'static str, _: u32, variant: &'static str, _: usize) -> Result<SeqSer, TErr> {
        Ok(SeqSer { items: vec![], names: vec![], kind: 1, variant: Some(variant.into()), named: self.0 })
    }
    fn serialize_map(self, _: Option<usize>) -> Result<MapSer, TErr> {
        Ok(MapSer { items: vec![], key: None, named: self.0 })
    }
    fn serialize_struct(self, _: &'static str, _: usize) -> Result<SeqSer, TErr> {
        Ok(SeqSer { items: vec![], names: vec![], kind: if self.0 { 2 } else { 1 }, variant: None, named: self.0 })
    }
    fn serialize_struct_variant(self, _: &'static str, _: u32, variant: &'static str, _: usize) -> Result<SeqSer, TErr> {
        Ok(SeqSer { items: vec![], names: vec![], kind: if self.0 { 2 } else { 1 }, variant: Some(variant.into()), named: self.0 })
    }
    fn serialize_u128(self, _: u128) -> Result<Tree, TErr> {
        Err(TErr("u128 unsupported".into()))
    }
    fn serialize_i128(self, _: i128) -> Result<Tree, TErr> {
        Err(TErr("i128 unsupported".into()))
    }
}

impl SeqSer {
    fn push<T: Serialize + ?Sized>(&mut self, v: &T) -> Result<(), TErr> {
        self.items.push(v.serialize(TreeSer(self.named))?);
        Ok(())
    }
    fn field<T: Serialize + ?Sized>(&mut self, name: &'static str, v: &T) -> Result<(), TErr> {
        self.names.push(name.to_string());
        self.push(v)
    }
    fn done(self) -> Result<Tree, TErr> {
        let body = match self.kind {
            0 => Tree::Seq(self.items),
            2 => Tree::Rec(self.names.into_iter().zip(self.items).collect()),
            _ => Tree::Tup(self.items),
        };
        Ok(match self.variant {
            Some(n) => Tree::NVar(n, Box::new(body)),
            None => body,
        })
    }
}
impl ser::SerializeSeq for SeqSer {
    type Ok = Tree;
    type Error = TErr;
    fn serialize_element<T: Serialize + ?Sized>(&mut self, v: &T) -> Result<(), TErr> {
        self.push(v)
    }
    fn end(self) -> Result<Tree, TErr> {
        self.done()
    }
}
impl ser::SerializeTuple for SeqSer {
    type Ok = Tree;
    type Error = TErr;
    fn serialize_element<T: Serialize + ?Sized>(&mut self, v: &T) -> Result<(), TErr> {
        self.push(v)
    }
    fn end(self) -> Result<Tree, TErr> {
        self.done()
    }
}
impl ser::SerializeTupleStruct for SeqSer {
    type Ok = Tree;
    type Error = TErr;
    fn serialize_field<T: Serialize + ?Sized>(&mut self, v: &T) -> Result<(), TErr> {
        self.push(v)
    }
    fn end(self) -> Result<Tree, TErr> {
        self.done()
    }
}
impl ser::SerializeTupleVariant for SeqSer {
    type Ok = Tree;
    type Error = TErr;
    fn serialize_field<T: Serialize + ?Sized>(&mut self, v: &T) -> Result<(), TErr> {
        self.push(v)
    }
    fn end(self) -> Result<Tree, TErr> {
        self.done()
    }
}
impl ser::SerializeStruct for SeqSer {
    type Ok = Tree;
    type Error = TErr;
    fn serialize_field<T: Serialize + ?Sized>(&mut self, name: &'static str, v: &T) -> Result<(), TErr> {
        self.field(name, v)
    }
    fn end(self) -> Result<Tree, TErr> {
        self.done()
    }
}
impl ser::SerializeStructVariant for SeqSer {
    type Ok = Tree;
    type Error = TErr;
    fn serialize_field<T: Serialize + ?Sized>(&mut self, name: &'static str, v: &T) -> Result<(), TErr> {
        self.field(name, v)
    }
    fn end(self) -> Result<Tree, TErr> {
        self.done()
    }
}
impl ser::SerializeMap for MapSer {
    type Ok = Tree;
    type Error = TErr;
    fn serialize_key<T: Serialize + ?Sized>(&mut self, k: &T) -> Result<(), TErr> {
        self.key = Some(k.serialize(TreeSer(self.named))?);
        Ok(())
    }
    fn serialize_value<T: Serialize + ?Sized>(&mut self, v: &T) -> Result<(), TErr> {
        let k = self.key.take().ok_or_else(|| TErr("value without key".into()))?;
        self.items.push((k, v.serialize(TreeSer(self.named))?));
        Ok(())
    }
    fn end(self) -> Result<Tree, TErr> {
        Ok(Tree::Map(self.items))
    }
}

// ------------------------------------------------------------------ tree -> value

pub fn from_tree<T: de::DeserializeOwned>(t: &Tree) -> Result<T, TErr> {
    T::deserialize(TreeDe(t))
}

pub struct TreeDe<'a>(pub &'a Tree);

struct SeqAcc<'a>(std::slice::Iter<'a, Tree>);
impl<'de, 'a> de::SeqAccess<'de> for SeqAcc<'a> {
    type Error = TErr;
    fn next_element_seed<S: DeserializeSeed<'de>>(&mut self, seed: S) -> Result<Option<S::Value>, TErr> {
        match self.0.next() {
            Some(t) => seed.deserialize(TreeDe(t)).map(Some),
            None => Ok(None),
        }
    }
    fn size_hint(&self) -> Option<usize> {
        Some(self.0.len())
    }
}
struct MapAcc<'a>(std::slice::Iter<'a, (Tree, Tree)>, Option<&'a Tree>);
impl<'de, 'a> de::MapAccess<'de> for MapAcc<'a> {
    type Error = TErr;
    fn next_key_seed<S: DeserializeSeed<'de>>(&mut self, seed: S) -> Result<Option<S::Value>, TErr> {
        match self.0.next() {
            Some((k, v)) => {
                self.1 = Some(v);
                seed.deserialize(TreeDe(k)).map(Some)
            }
            None => Ok(None),
        }
    }
    fn next_value_seed<S: DeserializeSeed<'de>>(&mut self, seed: S) -> Result<S::Value, TErr> {
        seed.deserialize(TreeDe(self.1.take().ok_or_else(|| TErr("no value".into()))?))
    }
}
struct RecAcc<'a>(std::slice::Iter<'a, (String, Tree)>, Option<&'a Tree>);
impl<'de, 'a> de::MapAccess<'de> for RecAcc<'a> {
    type Error = TErr;
    fn next_key_seed<S: DeserializeSeed<'de>>(&mut self, seed: S) -> Result<Option<S::Value>, TErr> {
        match self.0.next() {
            Some((k, v)) => {
                self.1 = Some(v);
                let de: de::value::StrDeserializer<'_, TErr> = k.as_str().into_deserializer();
                seed.deserialize(de).map(Some)
            }
            None => Ok(None),
        }
    }
    fn next_value_seed<S: DeserializeSeed<'de>>(&mut self, seed: S) -> Result<S::Value, TErr> {
        seed.deserialize(TreeDe(self.1.take().ok_or_else(|| TErr("no value".into()))?))
    }
}
struct EnumAcc<'a>(&'a str, Option<&'a Tree>);
impl<'de, 'a> de::EnumAccess<'de> for EnumAcc<'a> {
    type Error = TErr;
    type Variant = VarAcc<'a>;
    fn variant_seed<S: DeserializeSeed<'de>>(self, seed: S) -> Result<(S::Value, VarAcc<'a>), TErr> {
        let de: de::value::StrDeserializer<'_, TErr> = self.0.into_deserializer();
        Ok((seed.deserialize(de)?, VarAcc(self.1)))
    }
}
struct VarAcc<'a>(Option<&'a Tree>);
impl<'de, 'a> de::VariantAccess<'de> for VarAcc<'a> {
    type Error = TErr;
    fn unit_variant(self) -> Result<(), TErr> {
        match self.0 {
            None => Ok(()),
            Some(_) => Err(TErr("payload on unit variant".into())),
        }
    }
    fn newtype_variant_seed<S: DeserializeSeed<'de>>(self, seed: S) -> Result<S::Value, TErr> {
        seed.deserialize(TreeDe(self.0.ok_or_else(|| TErr("no payload".into()))?))
    }
    fn tuple_variant<V: Visitor<'de>>(self, _: usize, v: V) -> Result<V::Value, TErr> {
        de::Deserializer::deserialize_any(TreeDe(self.0.ok_or_else(|| TErr("no payload".into()))?), v)
    }
    fn struct_variant<V: Visitor<'de>>(self, _: &'static [&'static str], v: V) -> Result<V::Value, TErr> {
        de::Deserializer::deserialize_any(TreeDe(self.0.ok_or_else(|| TErr("no payload".into()))?), v)
    }
}

impl<'de, 'a> de::Deserializer<'de> for TreeDe<'a> {
    type Error = TErr;
    fn is_human_readable(&self) -> bool {
        false
    }
    fn deserialize_any<V: Visitor<'de>>(self, v: V) -> Result<V::Value, TErr> {
        match self.0 {
            Tree::Unit => v.visit_unit(),
            Tree::Bool(b) => v.visit_bool(*b),
            Tree::U(n) => v.visit_u64(*n),
            Tree::I(m) => v.visit_i64(-(*m as i64) - 1),
            Tree::Str(s) => match std::str::from_utf8(s) {
                Ok(s) => v.visit_str(s),
                Err(_) => v.visit_bytes(s),
            },
            Tree::Bytes(b) => v.visit_byte_buf(b.clone()),
            Tree::None => v.visit_none(),
            Tree::Some(t) => v.visit_some(TreeDe(t)),
            Tree::Seq(ts) | Tree::Tup(ts) => v.visit_seq(SeqAcc(ts.iter())),
            Tree::Map(ps) => v.visit_map(MapAcc(ps.iter(), None)),
            Tree::Rec(fs) => v.visit_map(RecAcc(fs.iter(), None)),
            Tree::UVar(n) => v.visit_enum(EnumAcc(n, None)),
            Tree::NVar(n, t) => v.visit_enum(EnumAcc(n, Some(t))),
        }
    }
    fn deserialize_option<V: Visitor<'de>>(self, v: V) -> Result<V::Value, TErr> {
        match self.0 {
            Tree::None => v.visit_none(),
            Tree::Some(t) => v.visit_some(TreeDe(t)),
            _ => Err(TErr("expected option".into())),
        }
    }
    fn deserialize_newtype_struct<V: Visitor<'de>>(self, _: &'static str, v: V) -> Result<V::Value, TErr> {
        v.visit_newtype_struct(self)
    }
    fn deserialize_unit_struct<V: Visitor<'de>>(self, _: &'static str, v: V) -> Result<V::Value, TErr> {
        v.visit_unit()
    }
    serde::forward_to_deserialize_any! {
        bool i8 i16 i32 i64 i128 u8 u16 u32 u64 u128 f32 f64 char str string bytes byte_buf unit
        seq tuple tuple_struct map struct enum identifier ignored_any
    }
}

// ------------------------------------------------------------------ tree -> bytes through ANY serde serializer
//
// `Serialize for Tree` replays the tree on a real serializer (rmp_serde, cbor4ii) exactly as the derived impl of the typed
// value would: this is how a value with a DAMAGED leaf (a public key that is not a curve point, a multiaddr that does not
// parse — something no typed value can hold) is put into canonical bytes for the decoders.  serde wants `&'static str`
// names; they are interned (the set of names is the finite vocabulary of the wire types).

fn intern(s: &str) -> &'static str {
    use std::collections::HashMap;
    use std::sync::{Mutex, OnceLock};
    static NAMES: OnceLock<Mutex<HashMap<String, &'static str>>> = OnceLock::new();
    let mut m = NAMES.get_or_init(|| Mutex::new(HashMap::new())).lock().unwrap_or_else(|e| e.into_inner());
    if let Some(x) = m.get(s) {
        return x;
    }
    let leaked: &'static str = Box::leak(s.to_string().into_boxed_str());
    m.insert(s.to_string(), leaked);
    leaked
}

impl Serialize for Tree {
    fn serialize<S: ser::Serializer>(&self, s: S) -> Result<S::Ok, S::Error> {
        use ser::{SerializeMap, SerializeSeq, SerializeStruct, SerializeTuple};
        match self {
            Tree::Unit => s.serialize_unit(),
            Tree::Bool(b) => s.serialize_bool(*b),
            Tree::U(n) => s.serialize_u64(*n),
            Tree::I(m) => s.serialize_i64(-(*m as i64) - 1),
            Tree::Str(b) => match std::str::from_utf8(b) {
                Ok(t) => s.serialize_str(t),
                Err(_) => Err(ser::Error::custom("text is not UTF-8")),
            },
            Tree::Bytes(b) => s.serialize_bytes(b),
            Tree::None => s.serialize_none(),
            Tree::Some(t) => s.serialize_some(&**t),
            Tree::Seq(ts) => {
                let mut q = s.serialize_seq(Some(ts.len()))?;
                for t in ts {
                    q.serialize_element(t)?;
                }
                q.end()
            }
            Tree::Tup(ts) => {
                let mut q = s.serialize_tuple(ts.len())?;
                for t in ts {
                    q.serialize_element(t)?;
                }
                q.end()
            }
            Tree::UVar(n) => s.serialize_unit_variant("", 0, intern(n)),
            Tree::NVar(n, t) => s.serialize_newtype_variant("", 0, intern(n), &**t),
            Tree::Map(ps) => {
                let mut m = s.serialize_map(Some(ps.len()))?;
                for (k, v) in ps {
                    m.serialize_entry(k, v)?;
                }
                m.end()
            }
            Tree::Rec(fs) => {
                let mut r = s.serialize_struct("", fs.len())?;
                for (k, v) in fs {
                    r.serialize_field(intern(k), v)?;
                }
                r.end()
            }
        }
    }
}
