//! C04 (key derivation): how the real types derive a record key from content / owner — real code vs. the Lean model,
//! in which `XorName::from_content` is SHA3-256 defined in Lean (`Base/Sha3`). The oracle recomputes every name with
//! tiny-keccak directly from the raw bytes.
//! Op lines (all hex, `-` = empty):
//!   chunk <value>           -> "<name> <record key>"   Chunk::new(value) / NetworkAddress::from_chunk_address(..).to_record_key()
//!   pad <owner pk>          -> "<name> <record key>"   ScratchpadAddress::new(pk)
//!   tx <owner pk>           -> "<name> <record key>"   TransactionAddress::from_owner(pk)
//!   reg <label> <owner pk>  -> "<name> <record key>"   RegisterAddress::new(label, pk)
//!   content <value>         -> "<hash>"                XorName::from_content(value) (RecordType::NonChunk content hash)
use ant_protocol::{
    storage::{Chunk, ScratchpadAddress, TransactionAddress},
    NetworkAddress,
};
use ant_registers::RegisterAddress;
use bytes::Bytes;
use common::{hex, unhex, Out, Rng};
use std::panic::{catch_unwind, AssertUnwindSafe};
use xor_name::XorName;

fn sha3(input: &[u8]) -> [u8; 32] {
    use tiny_keccak::{Hasher, Sha3};
    let mut h = Sha3::v256();
    let mut o = [0u8; 32];
    h.update(input);
    h.finalize(&mut o);
    o
}

fn pk(bytes: &[u8]) -> Option<bls::PublicKey> {
    let a: [u8; 48] = bytes.try_into().ok()?;
    bls::PublicKey::from_bytes(a).ok()
}

fn exec(line: &str) -> String {
    let ws: Vec<&str> = line.split_whitespace().collect();
    let r = catch_unwind(AssertUnwindSafe(|| -> Option<String> {
        match ws.as_slice() {
            ["chunk", v] => {
                let c = Chunk::new(Bytes::from(unhex(v)?));
                let key = NetworkAddress::from_chunk_address(*c.address()).to_record_key();
                Some(format!("{} {}", hex(&c.address().xorname().0), hex(key.as_ref())))
            }
            ["pad", o] => {
                let a = ScratchpadAddress::new(pk(&unhex(o)?)?);
                let key = NetworkAddress::from_scratchpad_address(a).to_record_key();
                Some(format!("{} {}", hex(&a.xorname().0), hex(key.as_ref())))
            }
            ["tx", o] => {
                let a = TransactionAddress::from_owner(pk(&unhex(o)?)?);
                let key = NetworkAddress::from_transaction_address(a).to_record_key();
                Some(format!("{} {}", hex(&a.xorname().0), hex(key.as_ref())))
            }
            ["reg", l, o] => {
                let l: [u8; 32] = unhex(l)?.try_into().ok()?;
                let a = RegisterAddress::new(XorName(l), pk(&unhex(o)?)?);
                let key = NetworkAddress::from_register_address(a).to_record_key();
                Some(format!("{} {}", hex(&a.xorname().0), hex(key.as_ref())))
            }
            ["content", v] => Some(hex(&XorName::from_content(&unhex(v)?).0)),
            _ => None,
        }
    }));
    match r {
        Ok(Some(s)) => s,
        Ok(None) => "bad-op".into(),
        Err(_) => "panic".into(),
    }
}

fn oracle(line: &str, r: &str, out: &mut Out) {
    let ws: Vec<&str> = line.split_whitespace().collect();
    if r == "panic" {
        out.oracle_fail("no-panic", line, "panicked");
        return;
    }
    let expect = match ws.as_slice() {
        ["chunk", v] | ["pad", v] | ["tx", v] => unhex(v).map(|b| { let h = hex(&sha3(&b)); format!("{h} {h}") }),
        ["reg", l, o] => match (unhex(l), unhex(o)) {
            (Some(mut l), Some(o)) => { l.extend_from_slice(&o); let h = hex(&sha3(&l)); Some(format!("{h} {h}")) }
            _ => None,
        },
        ["content", v] => unhex(v).map(|b| hex(&sha3(&b))),
        _ => None,
    };
    if let Some(e) = expect {
        if r != e {
            out.oracle_fail("key-is-derived-from-content-or-owner", line, &format!("got {r}, SHA3-256 of the content / owner bytes gives {e}"));
        }
    }
}

fn rand_pk(rng: &mut Rng) -> Vec<u8> {
    let mut skb = [0u8; 32];
    skb.copy_from_slice(&rng.bytes(32));
    skb[0] &= 0x3f;
    bls::SecretKey::from_bytes(skb).expect("sk").public_key().to_bytes().to_vec()
}

fn main() {
    let args = &common::parse_args();
    common::install_tracing();
    let mut out = Out::new(&args.out);
    std::panic::set_hook(Box::new(|_| {}));
    let lines: Vec<String> = if let Some(p) = &args.replay {
        common::read_lines(p)
    } else {
        let mut rng = Rng::new(args.seed);
        let mut v = vec![];
        // lengths around the sponge rate (136) and its multiples, and the empty value
        for n in [0usize, 1, 31, 32, 135, 136, 137, 271, 272, 273, 408, 1000] {
            v.push(format!("chunk {}", hex(&rng.bytes(n))));
            v.push(format!("content {}", hex(&vec![0xa3u8; n])));
        }
        for _ in 0..args.n {
            match rng.below(6) {
                0 => { let n = *rng.pick(&[0u64, 1, 5, 64, 135, 136, 137, 300, 2000]); let n = n + rng.below(3); v.push(format!("chunk {}", hex(&rng.bytes(n as usize)))) }
                1 => v.push(format!("pad {}", hex(&rand_pk(&mut rng)))),
                2 => v.push(format!("tx {}", hex(&rand_pk(&mut rng)))),
                3 => v.push(format!("reg {} {}", hex(&rng.bytes(32)), hex(&rand_pk(&mut rng)))),
                4 => { let n = rng.below(600); v.push(format!("content {}", hex(&rng.bytes(n as usize)))) }
                _ => {
                    // one owner, every kind: a scratchpad and a transaction of one owner share a name; a register does not
                    let o = hex(&rand_pk(&mut rng));
                    let label = hex(&rng.bytes(32));
                    v.push(format!("pad {o}"));
                    v.push(format!("tx {o}"));
                    v.push(format!("reg {label} {o}"));
                    // no kind tag in an address (K-f5 of C07): the CHUNK whose bytes are the owner key has the
                    // scratchpad / transaction key, the chunk whose bytes are label ‖ owner key has the register key
                    v.push(format!("chunk {o}"));
                    v.push(format!("chunk {label}{o}"));
                }
            }
        }
        v
    };
    // record key -> kinds (chunk / owner / reg) that derived it
    let mut by_key: std::collections::HashMap<String, std::collections::BTreeSet<&'static str>> = Default::default();
    for l in &lines {
        let r = exec(l);
        oracle(l, &r, &mut out);
        if let (Some(op), Some(key)) = (l.split_whitespace().next(), r.split_whitespace().nth(1)) {
            let fam = match op { "chunk" => "chunk", "pad" | "tx" => "owner", "reg" => "reg", _ => "" };
            if !fam.is_empty() {
                let e = by_key.entry(key.to_string()).or_default();
                if e.insert(fam) && e.len() > 1 {
                    out.count(&format!("same-key-across-kinds:{}", e.iter().copied().collect::<Vec<_>>().join("+")));
                }
            }
        }
        let op = l.split_whitespace().next().unwrap_or("");
        out.count(&format!("{op}:{}", if r == "bad-op" || r == "panic" { r.as_str() } else { "ok" }));
        out.nontrivial_case(l);
        out.line(l.clone(), r);
    }
    out.finish();
}
