//! C06: SignedRegister / RegisterCrdt replicas — real code vs. Lean model, plus a model-independent oracle.
//! Op lines (inputs only; ids are small integers allocated by the harness):
//!   op <id> <addr> <node> <size> <source> <sig> <sigok> [child node ids…]   declare an operation
//!   reg <r> <addr> <owner> <ownersigok> anyone | writers <w…>               new replica r
//!   addop <r> <op> | merge <a> <b> | vmerge <a> <b> | verify <r> | ops <r> | fill <r> <n> <firstid> <src>
//!   crdtnew <c> <addr> | crdt <c> <op> | crdtmerge <a> <b> | read <c> | size <c>
use ant_registers::{Permissions, Register, RegisterAddress, RegisterCrdt, RegisterOp, SignedRegister};
use bls::SecretKey;
use common::{Out, Rng};
use crdts::merkle_reg::Node;
use std::collections::{BTreeMap, BTreeSet};
use std::panic::{catch_unwind, AssertUnwindSafe};
use xor_name::XorName;

const MAX_ENTRIES: usize = 1024;
const MAX_SIZE: usize = 1024;

#[derive(Clone)]
struct OpInfo {
    op: RegisterOp,
    addr: u64,
    node: u64,
    size: usize,
    source: u64,
    sig_ok: bool,
}

/// identity of an operation for the harness: its serialised form, NOT the crate's `Eq`/`Ord`/`Hash` (which are part of
/// what is being checked: the op set is a `BTreeSet<RegisterOp>`)
fn op_key(op: &RegisterOp) -> Vec<u8> {
    serde_json::to_vec(op).expect("json")
}
fn key_set(reg: &SignedRegister) -> BTreeSet<Vec<u8>> {
    reg.ops().iter().map(op_key).collect()
}

struct World {
    sks: Vec<SecretKey>,               // signer id = index + 1
    addrs: Vec<RegisterAddress>,       // addr id = index + 1
    ops: BTreeMap<u64, OpInfo>,
    node_ids: BTreeMap<[u8; 32], u64>,
    regs: BTreeMap<u64, SignedRegister>,
    reg_meta: BTreeMap<u64, (u64, Vec<u64>, bool, bool)>, // addr, writers (empty+anyone flag), anyone, tainted (unverified merge)
    crdts: BTreeMap<u64, RegisterCrdt>,
    next_id: u64,
    /// (clause, what) noticed while executing an op; reported by `oracle_episode` with the history
    alarms: Vec<(String, String)>,
}

fn err_class(e: &ant_registers::Error) -> String {
    use ant_registers::Error::*;
    match e {
        TooManyEntries(n) => format!("toomany {n}"),
        InvalidSignature => "invalidsig".into(),
        AccessDenied(_) => "accessdenied".into(),
        EntryTooBig { .. } => "toobig".into(),
        DifferentBaseRegister => "differentbase".into(),
        RegisterAddrMismatch { .. } => "addrmismatch".into(),
        other => format!("other:{other:?}"),
    }
}

impl World {
    fn new(rng: &mut Rng) -> Self {
        // deterministic keys from the seed
        let sks: Vec<SecretKey> = (0..4)
            .map(|_| {
                let mut b = [0u8; 32];
                b.copy_from_slice(&rng.bytes(32));
                b[0] &= 0x3f; // below the field modulus
                SecretKey::from_bytes(b).expect("sk")
            })
            .collect();
        let owner = sks[0].public_key();
        let addrs = vec![
            RegisterAddress::new(XorName::from_content(b"meta-1"), owner),
            RegisterAddress::new(XorName::from_content(b"meta-2"), owner),
        ];
        World { sks, addrs, ops: Default::default(), node_ids: Default::default(), regs: Default::default(),
                reg_meta: Default::default(), crdts: Default::default(), next_id: 1, alarms: vec![] }
    }
    fn fresh(&mut self) -> u64 {
        let i = self.next_id;
        self.next_id += 1;
        i
    }
    fn node_id(&mut self, h: [u8; 32]) -> u64 {
        if let Some(i) = self.node_ids.get(&h) {
            return *i;
        }
        let i = self.fresh();
        self.node_ids.insert(h, i);
        i
    }
    fn op_id_of(&self, op: &RegisterOp) -> u64 {
        let k = op_key(op);
        self.ops.iter().find(|(_, i)| op_key(&i.op) == k).map(|(k, _)| *k).unwrap_or(0)
    }
    /// the same CRDT node (entry + parents) as `orig`, signed by another key: a distinct operation
    fn make_sibling(&mut self, orig: u64, signer: u64) -> Option<(u64, String)> {
        let o = self.ops.get(&orig)?.clone();
        if !o.sig_ok || o.source == signer {
            return None;
        }
        let v = serde_json::to_value(&o.op).ok()?;
        let node: Node<Vec<u8>> = serde_json::from_value(v["crdt_op"].clone()).ok()?;
        let children: Vec<[u8; 32]> = node.children.iter().copied().collect();
        let (id, line) = self.make_op(o.addr, signer, node.value.clone(), &children);
        if line.is_empty() { None } else { Some((id, line)) }
    }
    /// declare a genuine op; returns (id, declaration line)
    fn make_op(&mut self, addr: u64, signer: u64, value: Vec<u8>, children: &[[u8; 32]]) -> (u64, String) {
        let node = Node { children: children.iter().copied().collect::<BTreeSet<_>>(), value };
        let h = node.hash();
        let size = node.value.len();
        let nid = self.node_id(h);
        let child_ids: Vec<u64> = node.children.iter().map(|c| self.node_id(*c)).collect();
        let op = RegisterOp::new(self.addrs[addr as usize - 1], node, &self.sks[signer as usize - 1]);
        let key = op_key(&op);
        if let Some((k, _)) = self.ops.iter().find(|(_, i)| op_key(&i.op) == key) {
            return (*k, String::new()); // BLS signatures are deterministic: the same op again
        }
        let id = self.fresh();
        self.ops.insert(id, OpInfo { op, addr, node: nid, size, source: signer, sig_ok: true });
        let mut line = format!("op {id} {addr} {nid} {size} {signer} 0 1");
        for c in child_ids {
            line.push_str(&format!(" {c}"));
        }
        (id, line)
    }
    /// a forged variant of `orig`: same fields, signature taken from `donor`
    fn forge(&mut self, orig: u64, donor: u64) -> Option<(u64, String)> {
        let o = self.ops.get(&orig)?.clone();
        let d = self.ops.get(&donor)?.clone();
        let mut v = serde_json::to_value(&o.op).ok()?;
        let dv = serde_json::to_value(&d.op).ok()?;
        v["signature"] = dv["signature"].clone();
        let op: RegisterOp = serde_json::from_value(v).ok()?;
        let key = op_key(&op);
        if self.ops.values().any(|i| op_key(&i.op) == key) {
            return None; // identical to an op already declared (same donor signature)
        }
        let id = self.fresh();
        let children: Vec<u64> = op_children(&op).iter().map(|c| self.node_ids[c]).collect();
        self.ops.insert(id, OpInfo { op, sig_ok: false, ..o.clone() });
        let mut line = format!("op {id} {} {} {} {} {id} 0", o.addr, o.node, o.size, o.source);
        for c in children {
            line.push_str(&format!(" {c}"));
        }
        Some((id, line))
    }
}

fn op_children(op: &RegisterOp) -> Vec<[u8; 32]> {
    let v = serde_json::to_value(op).expect("json");
    let arr = v["crdt_op"]["children"].as_array().cloned().unwrap_or_default();
    arr.iter()
        .map(|c| {
            let mut h = [0u8; 32];
            for (i, b) in c.as_array().expect("hash").iter().enumerate() {
                h[i] = b.as_u64().expect("byte") as u8;
            }
            h
        })
        .collect()
}

fn exec(w: &mut World, line: &str) -> String {
    let ws: Vec<&str> = line.split_whitespace().collect();
    let num = |s: &str| s.parse::<u64>().expect("num");
    match ws.as_slice() {
        ["reset"] => {
            w.regs.clear();
            w.crdts.clear();
            w.ops.clear();
            w.reg_meta.clear();
            w.node_ids.clear();
            "ok".into()
        }
        ["op", ..] => "ok".into(), // declarations are made by the generator through make_op/forge (or re-created in replay)
        ["reg", r, addr, owner, osig, kind, rest @ ..] => {
            let (r, addr, owner, osig) = (num(r), num(addr), num(owner), num(osig));
            let anyone = *kind == "anyone";
            let writers: Vec<u64> = rest.iter().map(|s| num(s)).collect();
            let perms = if anyone {
                Permissions::new_anyone_can_write()
            } else {
                Permissions::new_with(writers.iter().map(|i| w.sks[*i as usize - 1].public_key()))
            };
            let a = w.addrs[addr as usize - 1];
            // build the base register through serde so that the writers set is exactly the one on the line
            let base = Register::new(a.owner(), a.meta(), perms);
            let signer = if osig != 0 { &w.sks[owner as usize - 1] } else { &w.sks[3] };
            let sig = signer.sign(base.bytes().expect("bytes"));
            w.regs.insert(r, SignedRegister::new(base, sig, BTreeSet::new()));
            w.reg_meta.insert(r, (addr, writers, anyone, false));
            "ok".into()
        }
        ["addop", r, o] => {
            let op = w.ops[&num(o)].op.clone();
            let reg = w.regs.get_mut(&num(r)).expect("reg");
            let before = reg.ops().len();
            match reg.add_op(op) {
                Ok(()) => {
                    // add_op alone must never take a replica beyond the entry limit (merges can: known finding K-e)
                    if before >= MAX_ENTRIES && reg.ops().len() > before {
                        w.alarms.push(("add-op-respects-limit".into(), format!("`{line}`: add_op accepted a new operation into replica {r} which already held {before} operations (limit {MAX_ENTRIES})")));
                    }
                    "ok".into()
                }
                Err(e) => format!("err {}", err_class(&e)),
            }
        }
        [m @ ("merge" | "vmerge"), a, b] => {
            let other = w.regs[&num(b)].clone();
            let tainted_other = w.reg_meta[&num(b)].3;
            let reg = w.regs.get_mut(&num(a)).expect("reg");
            let res = if *m == "merge" { reg.merge(&other) } else { reg.verified_merge(&other) };
            match res {
                Ok(()) => {
                    if *m == "merge" || tainted_other {
                        // an unverified merge imports whatever the other side holds
                        if *m == "merge" {
                            w.reg_meta.get_mut(&num(a)).expect("meta").3 = true;
                        }
                    }
                    "ok".into()
                }
                Err(e) => format!("err {}", merge_err_class(&other, &e)),
            }
        }
        ["inject", r, o] => {
            // a copy as a malicious peer could serve it: the op is put into the set with no check at all
            let op = w.ops[&num(o)].op.clone();
            let reg = w.regs[&num(r)].clone();
            let mut ops: BTreeSet<RegisterOp> = reg.ops().clone();
            let _ = ops.insert(op);
            let rebuilt = SignedRegister::new(reg.base_register().clone(), signature_of(&reg), ops);
            w.regs.insert(num(r), rebuilt);
            w.reg_meta.get_mut(&num(r)).expect("meta").3 = true;
            "ok".into()
        }
        ["verify", r] => match w.regs[&num(r)].verify() {
            Ok(()) => "ok".into(),
            Err(ant_registers::Error::TooManyEntries(n)) => format!("err toomany {n}"),
            Err(_) => {
                // which per-op error comes first depends on set order: collapse to a class
                let (_, _, _, _) = w.reg_meta[&num(r)];
                let reg = &w.regs[&num(r)];
                let base_ok = reg.owner().verify(&signature_of(reg), reg.base_register().bytes().expect("bytes"));
                if base_ok { "err op".into() } else { "err ownersig".into() }
            }
        },
        ["ops", r] => {
            let mut ids: Vec<u64> = w.regs[&num(r)].ops().iter().map(|o| w.op_id_of(o)).collect();
            ids.sort();
            format!("ops {}", ids.iter().map(|i| i.to_string()).collect::<Vec<_>>().join(" ")).trim_end().to_string()
        }
        ["fill", r, n, first, src] => {
            let (r, n, first, src) = (num(r), num(n), num(first), num(src));
            let addr = w.reg_meta[&r].0;
            let mut acc = 0;
            for i in 0..n {
                let id = first + i;
                let node = Node { children: BTreeSet::new(), value: format!("fill-{id}-{:032}", id).into_bytes()[..32].to_vec() };
                w.node_ids.insert(node.hash(), id);
                let op = RegisterOp::new(w.addrs[addr as usize - 1], node, &w.sks[src as usize - 1]);
                w.ops.insert(id, OpInfo { op: op.clone(), addr, node: id, size: 32, source: src, sig_ok: true });
                let reg = w.regs.get_mut(&r).expect("reg");
                let before = reg.ops().len();
                if reg.add_op(op).is_ok() {
                    acc += 1;
                    if before >= MAX_ENTRIES && reg.ops().len() > before {
                        w.alarms.push(("add-op-respects-limit".into(), format!("`{line}`: add_op accepted a new operation into replica {r} which already held {before} operations (limit {MAX_ENTRIES})")));
                    }
                }
            }
            w.next_id = w.next_id.max(first + n);
            format!("ok {acc}")
        }
        ["crdtnew", c, addr] => {
            w.crdts.insert(num(c), RegisterCrdt::new(w.addrs[num(addr) as usize - 1]));
            "ok".into()
        }
        ["crdt", c, o] => {
            let op = w.ops[&num(o)].op.clone();
            match w.crdts.get_mut(&num(c)).expect("crdt").apply_op(op) {
                Ok(()) => "ok".into(),
                Err(e) => format!("err {}", err_class(&e)),
            }
        }
        ["crdtmerge", a, b] => {
            let other = w.crdts[&num(b)].clone();
            w.crdts.get_mut(&num(a)).expect("crdt").merge(other);
            "ok".into()
        }
        ["read", c] => {
            let mut ids: Vec<u64> = w.crdts[&num(c)].read().iter().map(|(h, _)| w.node_ids[&h.0]).collect();
            ids.sort();
            format!("read {}", ids.iter().map(|i| i.to_string()).collect::<Vec<_>>().join(" ")).trim_end().to_string()
        }
        ["size", c] => format!("size {}", w.crdts[&num(c)].size()),
        _ => "bad-op".into(),
    }
}

/// How a refused merge is printed. `verified_merge` reports the first failing check of the first failing op of the
/// other side *in the order of its op set* — a `BTreeSet<RegisterOp>` ordered by the ops' bytes, signature included,
/// which the model does not have. When the ops of the other side fail for different reasons (possible only for a copy
/// built with `inject`) the refusal is therefore printed as the class `op`, after checking on the real code that the
/// reported reason is one of those present (each op's own first failing check is asked of the real `verify()` on a copy
/// holding that single op); with a single reason present it is printed as it is.
fn merge_err_class(other: &SignedRegister, e: &ant_registers::Error) -> String {
    use ant_registers::Error::*;
    if matches!(e, TooManyEntries(_) | DifferentBaseRegister) {
        return err_class(e);
    }
    let sig = signature_of(other);
    let base_ok = other.owner().verify(&sig, other.base_register().bytes().expect("bytes"));
    if !base_ok {
        return err_class(e); // the owner signature is checked before any op
    }
    let classes: BTreeSet<String> = other
        .ops()
        .iter()
        .filter_map(|op| {
            let one = SignedRegister::new(other.base_register().clone(), sig.clone(), [op.clone()].into_iter().collect());
            one.verify().err().map(|e| err_class(&e))
        })
        .collect();
    if classes.len() < 2 {
        return err_class(e);
    }
    if classes.contains(&err_class(e)) {
        "op".into()
    } else {
        format!("?{}-is-not-a-defect-of-any-op-held({})", err_class(e), classes.into_iter().collect::<Vec<_>>().join(","))
    }
}

fn signature_of(reg: &SignedRegister) -> bls::Signature {
    let v = serde_json::to_value(reg).expect("json");
    serde_json::from_value(v["signature"].clone()).expect("sig")
}

/// Model-independent statement of C06 on the real replicas (called at the end of an episode).
fn oracle_episode(w: &mut World, history: &[String], out: &mut Out) {
    let hist = history.join(" ; ");
    for (clause, what) in std::mem::take(&mut w.alarms) {
        out.oracle_fail(&clause, &hist, &what);
    }
    // (1) authorisation: every op held by an untainted replica is for this register, permitted, validly signed (unless anyone), within size
    for (r, reg) in &w.regs {
        let (addr, writers, anyone, tainted) = w.reg_meta[r].clone();
        if tainted {
            continue;
        }
        for op in reg.ops() {
            let id = w.op_id_of(op);
            let Some(info) = w.ops.get(&id) else { continue };
            let permitted = anyone || (writers.contains(&info.source) && info.sig_ok);
            if info.addr != addr || !permitted || info.size > MAX_SIZE {
                out.oracle_fail("authorised-writes-only", &hist, &format!("replica {r} holds op {id} (addr {} source {} sig_ok {} size {}) that its permissions do not admit", info.addr, info.source, info.sig_ok, info.size));
            }
        }
        // (3) a reachable untainted state within the entry limit is accepted by verify
        if reg.ops().len() <= MAX_ENTRIES {
            let base_sig_ok = reg.owner().verify(&signature_of(reg), reg.base_register().bytes().expect("bytes"));
            if base_sig_ok {
                if let Err(e) = reg.verify() {
                    out.oracle_fail("reachable-state-verifies", &hist, &format!("replica {r} reached through accepted operations fails verify(): {e:?}"));
                }
            }
        }
    }
    // (2) convergence: same-base replicas merged both ways hold identical op sets; merge is idempotent
    let ids: Vec<u64> = w.regs.keys().copied().collect();
    // a replica merged with an identical copy of itself is accepted and unchanged; replicas of one base
    // register whose union stays within the entry limit accept each other (shared history counted once)
    for &a in &ids {
        let mut ra = w.regs[&a].clone();
        let before = key_set(&ra);
        if before.len() <= MAX_ENTRIES {
            let r = ra.merge(&w.regs[&a]);
            if r.is_err() || key_set(&ra) != before {
                out.oracle_fail("merge-self-accepted", &hist, &format!("replica {a} ({} ops) merged with an identical copy: {r:?}, set changed: {}", before.len(), key_set(&ra) != before));
            }
            if !w.reg_meta[&a].3 {
                let mut rv = w.regs[&a].clone();
                let base_sig_ok = rv.owner().verify(&signature_of(&rv), rv.base_register().bytes().expect("bytes"));
                if base_sig_ok {
                    let r = rv.verified_merge(&w.regs[&a]);
                    if r.is_err() {
                        out.oracle_fail("merge-self-accepted", &hist, &format!("untainted replica {a} ({} ops) verified_merge with an identical copy: {r:?}", before.len()));
                    }
                }
            }
        }
        for &b in &ids {
            if a == b || w.regs[&a].base_register() != w.regs[&b].base_register() {
                continue;
            }
            let union: BTreeSet<Vec<u8>> = key_set(&w.regs[&a]).union(&key_set(&w.regs[&b])).cloned().collect();
            if union.len() <= MAX_ENTRIES {
                let mut ra = w.regs[&a].clone();
                if let Err(e) = ra.merge(&w.regs[&b]) {
                    out.oracle_fail("merge-accepts-overlap", &hist, &format!("replicas {a} ({} ops) <- {b} ({} ops), union {} ≤ limit: merge refused: {e:?}", w.regs[&a].ops().len(), w.regs[&b].ops().len(), union.len()));
                }
            }
        }
    }
    for &a in &ids {
        for &b in &ids {
            if a >= b {
                continue;
            }
            let (mut ra, mut rb) = (w.regs[&a].clone(), w.regs[&b].clone());
            let r1 = ra.merge(&w.regs[&b]);
            let r2 = rb.merge(&w.regs[&a]);
            if r1.is_ok() != r2.is_ok() {
                out.oracle_fail("merge-symmetric-rejection", &hist, &format!("merge {a}<-{b} = {r1:?} but {b}<-{a} = {r2:?}"));
            }
            if r1.is_ok() && r2.is_ok() {
                if key_set(&ra) != key_set(&rb) {
                    out.oracle_fail("merge-commutative", &hist, &format!("replicas {a},{b}: a∪b ≠ b∪a"));
                }
                let before = key_set(&ra);
                let again = w.regs[&b].clone();
                let _ = ra.merge(&again);
                if key_set(&ra) != before {
                    out.oracle_fail("merge-idempotent", &hist, &format!("replicas {a},{b}: merging twice changed the set"));
                }
            }
        }
    }
    // CRDT: the same set of operations delivered through apply_op in two different orders (with a duplicate)
    // must present the same current value
    for addr_id in [1u64, 2] {
        let ops: Vec<(u64, RegisterOp)> = w.ops.iter().filter(|(_, i)| i.addr == addr_id && i.sig_ok).map(|(k, i)| (*k, i.op.clone())).collect();
        if ops.len() < 2 {
            continue;
        }
        let addr = w.addrs[addr_id as usize - 1];
        let (mut fwd, mut rev) = (RegisterCrdt::new(addr), RegisterCrdt::new(addr));
        for (_, o) in ops.iter() {
            let _ = fwd.apply_op(o.clone());
        }
        let _ = fwd.apply_op(ops[0].1.clone());
        for (_, o) in ops.iter().rev() {
            let _ = rev.apply_op(o.clone());
        }
        if fwd.read() != rev.read() || fwd.size() != rev.size() {
            let ids: Vec<String> = ops.iter().map(|(k, _)| k.to_string()).collect();
            out.oracle_fail("same-ops-same-value", &hist, &format!("ops [{}] applied in declaration order vs reverse order give different current values / sizes ({} vs {} entries)", ids.join(" "), fwd.size(), rev.size()));
        }
    }
    // CRDT: two crdts of one address that exchanged state read the same
    let cids: Vec<u64> = w.crdts.keys().copied().collect();
    for &a in &cids {
        for &b in &cids {
            if a >= b || w.crdts[&a].address() != w.crdts[&b].address() {
                continue;
            }
            let (mut ca, mut cb) = (w.crdts[&a].clone(), w.crdts[&b].clone());
            ca.merge(w.crdts[&b].clone());
            cb.merge(w.crdts[&a].clone());
            if ca.read() != cb.read() || ca.size() != cb.size() {
                out.oracle_fail("crdt-converges", &hist, &format!("crdts {a},{b} disagree after exchanging state"));
            }
        }
    }
}

fn gen_episode(rng: &mut Rng, w: &mut World, len: u64, out: &mut Out, across_limit: bool) {
    let mut history: Vec<String> = vec![];
    let mut emit = |w: &mut World, line: String, history: &mut Vec<String>, out: &mut Out| {
        // a refused add_op / merge / verified_merge must leave the replica exactly as it was
        let target: Option<u64> = {
            let ws: Vec<&str> = line.split_whitespace().collect();
            match ws.as_slice() {
                ["addop", r, _] | ["merge", r, _] | ["vmerge", r, _] => r.parse().ok(),
                _ => None,
            }
        };
        let before = target.and_then(|t| w.regs.get(&t).map(key_set));
        let r = catch_unwind(AssertUnwindSafe(|| exec(w, &line))).unwrap_or_else(|_| "panic".into());
        {
            // an accepted operation is in the replica afterwards; an accepted merge imported every operation of the other side
            let ws: Vec<&str> = line.split_whitespace().collect();
            if r == "ok" {
                match ws.as_slice() {
                    ["addop", t, o] => {
                        let (t, o): (u64, u64) = (t.parse().expect("t"), o.parse().expect("o"));
                        if !key_set(&w.regs[&t]).contains(&op_key(&w.ops[&o].op)) {
                            let mut h = history.clone();
                            h.push(line.clone());
                            out.oracle_fail("accepted-op-is-held", &h.join(" ; "), &format!("`{line}` returned Ok but replica {t} does not hold operation {o}"));
                        }
                    }
                    ["merge", a, b] | ["vmerge", a, b] => {
                        let (a, b): (u64, u64) = (a.parse().expect("a"), b.parse().expect("b"));
                        if !key_set(&w.regs[&b]).is_subset(&key_set(&w.regs[&a])) {
                            let mut h = history.clone();
                            h.push(line.clone());
                            out.oracle_fail("merge-imports-all", &h.join(" ; "), &format!("`{line}` returned Ok but replica {a} lacks operations replica {b} holds"));
                        }
                    }
                    _ => {}
                }
            }
        }
        if r == "panic" {
            out.oracle_fail("no-panic", &history.join(" ; "), &format!("panic on `{line}`"));
        }
        if let (Some(t), Some(b)) = (target, before) {
            if r.starts_with("err") && w.regs.get(&t).map(|x| key_set(x) != b).unwrap_or(false) {
                let mut h = history.clone();
                h.push(line.clone());
                out.oracle_fail("rejected-changes-nothing", &h.join(" ; "), &format!("`{line}` was refused ({r}) but replica {t}'s op set changed"));
            }
        }
        let op = line.split_whitespace().next().unwrap_or("").to_string();
        let class = if r.starts_with("err") { r.split_whitespace().take(2).collect::<Vec<_>>().join(" ") } else { "ok".into() };
        out.count(&format!("{op}:{class}"));
        out.nontrivial_case(&format!("{}|{}", history.len(), line));
        history.push(line.clone());
        out.line(line, r);
    };
    // replicas: ids are globally fresh so episodes never collide in the model's tables
    let nrep = rng.range(2, 4);
    let perms_kind = rng.below(3); // 0 anyone, 1 writers{owner,2}, 2 owner only
    let mut reps = vec![];
    let mut crdts = vec![];
    for i in 0..nrep {
        let r = w.fresh();
        let odd = i == nrep - 1 && rng.chance(1, 3);
        let addr = if odd && rng.chance(1, 2) { 2 } else { 1 };
        let kind = if odd { (perms_kind + 1) % 3 } else { perms_kind };
        let osig = if rng.chance(1, 12) { 0 } else { 1 };
        let line = match kind {
            0 => format!("reg {r} {addr} 1 {osig} anyone"),
            1 => format!("reg {r} {addr} 1 {osig} writers 1 2"),
            _ => format!("reg {r} {addr} 1 {osig} writers 1"),
        };
        emit(w, line, &mut history, out);
        reps.push(r);
        let c = w.fresh();
        emit(w, format!("crdtnew {c} {addr}"), &mut history, out);
        crdts.push(c);
    }
    let mut pool: Vec<u64> = vec![];
    let mut hashes: Vec<[u8; 32]> = vec![];
    if across_limit {
        let r = reps[0];
        let first = w.next_id;
        emit(w, format!("fill {r} {} {first} 1", MAX_ENTRIES as u64 - 2), &mut history, out);
        // walk across the boundary one accepted op at a time, verifying after each
        for i in 0..4u64 {
            let (id, line) = w.make_op(1, 1, format!("boundary-{first}-{i}").into_bytes(), &[]);
            if !line.is_empty() {
                pool.push(id);
                emit(w, line, &mut history, out);
                emit(w, format!("addop {r} {id}"), &mut history, out);
                emit(w, format!("verify {r}"), &mut history, out);
            }
        }
    }
    if across_limit && reps.len() >= 2 {
        // a peer copy beyond the entry cap that also carries an operation its permissions do not admit, offered to a
        // clean replica of the same base register through verified_merge
        let r = reps[0];
        let (bad, line) = w.make_op(1, 3, format!("intruder-{r}").into_bytes(), &[]);
        if !line.is_empty() {
            emit(w, line, &mut history, out);
        }
        emit(w, format!("inject {r} {bad}"), &mut history, out);
        emit(w, format!("verify {r}"), &mut history, out);
        for other in reps.clone().into_iter().skip(1) {
            emit(w, format!("vmerge {other} {r}"), &mut history, out);
            emit(w, format!("ops {other}"), &mut history, out);
        }
    }
    for _ in 0..len {
        match rng.below(20) {
            0..=4 => {
                // new genuine op (various signers, sizes, parents)
                let signer = *rng.pick(&[1u64, 1, 2, 2, 3]);
                let addr = if rng.chance(1, 10) { 2 } else { 1 };
                let size = *rng.pick(&[0usize, 1, 32, 32, 100, MAX_SIZE, MAX_SIZE + 1]);
                let mut value = rng.bytes(size.min(40));
                value.resize(size, 7);
                let nchild = if hashes.is_empty() { 0 } else { rng.below(3) };
                let mut children = vec![];
                for _ in 0..nchild {
                    if rng.chance(1, 8) {
                        let mut h = [0u8; 32];
                        h.copy_from_slice(&rng.bytes(32)); // a child nobody will ever deliver
                        children.push(h);
                    } else {
                        children.push(*rng.pick(&hashes));
                    }
                }
                let (id, line) = w.make_op(addr, signer, value, &children);
                if !line.is_empty() {
                    hashes.push(w.ops[&id].op.clone().pipe_hash());
                    pool.push(id);
                    emit(w, line, &mut history, out);
                }
            }
            5 if pool.len() >= 2 && rng.chance(1, 2) => {
                // the same entry on the same parents by another writer: a distinct operation that must be kept
                let orig = *rng.pick(&pool);
                let signer = *rng.pick(&[1u64, 2, 2, 3]);
                if let Some((id, line)) = w.make_sibling(orig, signer) {
                    pool.push(id);
                    emit(w, line, &mut history, out);
                    // deliver the two in opposite orders to two replicas
                    if reps.len() >= 2 && rng.chance(2, 3) {
                        emit(w, format!("addop {} {orig}", reps[0]), &mut history, out);
                        emit(w, format!("addop {} {id}", reps[0]), &mut history, out);
                        emit(w, format!("addop {} {id}", reps[1]), &mut history, out);
                        emit(w, format!("addop {} {orig}", reps[1]), &mut history, out);
                    }
                }
            }
            5 if pool.len() >= 2 => {
                let (a, b) = (*rng.pick(&pool), *rng.pick(&pool));
                if let Some((id, line)) = w.forge(a, b) {
                    pool.push(id);
                    emit(w, line, &mut history, out);
                }
            }
            6..=11 if !pool.is_empty() => {
                let (r, o) = (*rng.pick(&reps), *rng.pick(&pool));
                emit(w, format!("addop {r} {o}"), &mut history, out);
                if rng.chance(2, 3) {
                    let c = crdts[reps.iter().position(|x| *x == r).expect("pos")];
                    emit(w, format!("crdt {c} {o}"), &mut history, out);
                }
            }
            12 => {
                let (a, b) = (*rng.pick(&reps), *rng.pick(&reps));
                emit(w, format!("merge {a} {b}"), &mut history, out);
            }
            13..=14 => {
                let (a, b) = (*rng.pick(&reps), *rng.pick(&reps));
                emit(w, format!("vmerge {a} {b}"), &mut history, out);
            }
            15 if !pool.is_empty() && reps.len() >= 2 && rng.chance(1, 4) => {
                // a copy holding an unchecked operation (whatever it is), then offered to another replica through verified_merge
                let (r, o) = (*rng.pick(&reps), *rng.pick(&pool));
                emit(w, format!("inject {r} {o}"), &mut history, out);
                let other = *rng.pick(&reps);
                if other != r {
                    emit(w, format!("vmerge {other} {r}"), &mut history, out);
                }
            }
            15 => emit(w, format!("verify {}", rng.pick(&reps)), &mut history, out),
            16 => emit(w, format!("ops {}", rng.pick(&reps)), &mut history, out),
            17 => {
                let (a, b) = (*rng.pick(&crdts), *rng.pick(&crdts));
                emit(w, format!("crdtmerge {a} {b}"), &mut history, out);
            }
            18 => emit(w, format!("read {}", rng.pick(&crdts)), &mut history, out),
            _ => emit(w, format!("size {}", rng.pick(&crdts)), &mut history, out),
        }
    }
    for r in reps.clone() {
        emit(w, format!("verify {r}"), &mut history, out);
        emit(w, format!("ops {r}"), &mut history, out);
    }
    for c in crdts.clone() {
        emit(w, format!("read {c}"), &mut history, out);
    }
    if across_limit {
        // keep the replay short: the fill line stands for its expansion
        oracle_episode(w, &history, out);
    } else {
        oracle_episode(w, &history, out);
    }
    // forget this episode's replicas and ops (ids are never reused)
    emit(w, "reset".to_string(), &mut history, out);
}

trait PipeHash {
    fn pipe_hash(self) -> [u8; 32];
}
impl PipeHash for RegisterOp {
    fn pipe_hash(self) -> [u8; 32] {
        let v = serde_json::to_value(&self).expect("json");
        let node: Node<Vec<u8>> = serde_json::from_value(v["crdt_op"].clone()).expect("node");
        node.hash()
    }
}

/// Replay mode: re-create ops from their declaration lines. Genuine ops are rebuilt with fresh random
/// values of the declared size; forged ones (sigok = 0) copy the signature of another op.
fn replay(w: &mut World, lines: &[String], out: &mut Out, rng: &mut Rng) {
    let mut history = vec![];
    let mut node_hash: BTreeMap<u64, [u8; 32]> = BTreeMap::new();
    for line in lines {
        let ws: Vec<&str> = line.split_whitespace().collect();
        if ws.first() == Some(&"op") {
            let n: Vec<u64> = ws[1..].iter().map(|s| s.parse().expect("num")).collect();
            let (id, addr, node, size, source, _sig, sigok) = (n[0], n[1], n[2], n[3] as usize, n[4], n[5], n[6]);
            let children: Vec<[u8; 32]> = n[7..].iter().map(|c| *node_hash.entry(*c).or_insert_with(|| { let mut h = [0u8; 32]; h.copy_from_slice(&rng.bytes(32)); h })).collect();
            if sigok != 0 {
                let mut value = format!("replay-{node}").into_bytes();
                value.resize(size, 9);
                let nd = Node { children: children.iter().copied().collect::<BTreeSet<_>>(), value };
                node_hash.insert(node, nd.hash());
                w.node_ids.insert(nd.hash(), node);
                for (c, h) in n[7..].iter().zip(children.iter()) {
                    w.node_ids.insert(*h, *c);
                }
                let op = RegisterOp::new(w.addrs[addr as usize - 1], nd, &w.sks[source as usize - 1]);
                w.ops.insert(id, OpInfo { op, addr, node, size, source, sig_ok: true });
            } else {
                // forged copy of the genuine op with the same node/source, signature from any other op
                let orig = w.ops.iter().find(|(_, i)| i.node == node && i.source == source && i.sig_ok).map(|(k, _)| *k);
                let donor = w.ops.iter().find(|(_, i)| i.node != node && i.sig_ok).map(|(k, _)| *k);
                if let (Some(o), Some(d)) = (orig, donor) {
                    let oi = w.ops[&o].clone();
                    let mut v = serde_json::to_value(&oi.op).expect("json");
                    v["signature"] = serde_json::to_value(&w.ops[&d].op).expect("json")["signature"].clone();
                    let op: RegisterOp = serde_json::from_value(v).expect("op");
                    w.ops.insert(id, OpInfo { op, sig_ok: false, ..oi });
                }
            }
            w.next_id = w.next_id.max(id + 1).max(node + 1);
        }
        if line == "reset" {
            oracle_episode(w, &history, out);
            history.clear();
        }
        let r = catch_unwind(AssertUnwindSafe(|| exec(w, line))).unwrap_or_else(|_| "panic".into());
        history.push(line.clone());
        out.line(line.clone(), r);
    }
    oracle_episode(w, &history, out);
}

fn main() {
    let args = common::parse_args();
    let mut out = Out::new(&args.out);
    std::panic::set_hook(Box::new(|_| {}));
    let mut rng = Rng::new(args.seed);
    let mut w = World::new(&mut rng);
    if let Some(p) = &args.replay {
        let lines = common::read_lines(p);
        replay(&mut w, &lines, &mut out, &mut rng);
    } else {
        let mut produced = 0u64;
        let mut ep = 0;
        while produced < args.n {
            let len = rng.range(15, 60);
            let across = ep % 40 == 3 || (args.n >= 100_000 && ep % 200 == 7);
            let before = out.n_ops() as u64;
            gen_episode(&mut rng, &mut w, len, &mut out, across);
            produced += out.n_ops() as u64 - before;
            ep += 1;
        }
        out.count_n("episodes", ep);
    }
    out.finish();
}
