//! C18: the bootstrap cache (`ant-bootstrap`), real code vs. Lean model + model-independent oracle.
//!
//! Real `BootstrapCacheStore` objects (several per case, all on ONE cache file in a temp dir) with small
//! configured limits. Time is virtual: this binary defines `clock_gettime`, so `SystemTime::now()` inside
//! ant-bootstrap returns a frozen, harness-controlled second count (`tick d` advances it); no source change.
//!
//! Line protocol (inputs only + eviction choice witness `e:`; see lean/SafeNet/Driver/BootCache.lean):
//!   cfg P A E N | mk s mode | tick d | add s ma e | upd s ma b | clean s e | flush s b e | write s | load e |
//!   lupd ma b e | start flags count args env o e h | file cache | corrupt k | craft ma | race seed writers iters |
//!   wfault s | ffault s b e h | fbegin s b z [e] | fend s b e h | pswap s t
//! Outputs: `m=<cache> n=<peers>` (store memory), `f=<cache>|absent|garbage` (raw file, parsed by this
//! harness's own JSON reader), `ok <cache>`/`err` (load_cache_data), `some <ma>`/`none`, `race ok`.
use ant_bootstrap::{craft_valid_multiaddr, BootstrapCacheConfig, BootstrapCacheStore, PeersArgs};
use common::{Out, Rng};
use libp2p::{multiaddr::Protocol, Multiaddr, PeerId};
use std::collections::{BTreeMap, BTreeSet};
use std::net::{Ipv4Addr, Ipv6Addr};
use std::panic::{catch_unwind, AssertUnwindSafe};
use std::path::PathBuf;
use std::sync::atomic::{AtomicBool, AtomicI64, AtomicU64, Ordering};
use std::time::{Duration, SystemTime, UNIX_EPOCH};

// ---------------------------------------------------------------------------------------------
// virtual clock: CLOCK_REALTIME is frozen at FAKE_NOW seconds when non-zero
// ---------------------------------------------------------------------------------------------
static FAKE_NOW: AtomicI64 = AtomicI64::new(0);
/// real seconds = BASE + model time; model time starts at 1_000_000
const BASE: i64 = 1_699_000_000;
const T0: u64 = 1_000_000;

// A gate on the clock: a thread that has armed `GATED` (slot + 1) stops at its FIRST wall-clock read until released.
// Inside `sync_and_flush_to_disk` every `SystemTime::now()` lies after the cache file has been read
// (load_cache_data: read, parse, THEN perform_cleanup -> now(); CacheData::sync ends with now()) and before the
// atomic write, so a flush stopped there has done its load half and not yet its commit half — a real, deterministic
// interleaving of the unmodified code with other stores' flushes. No source change.
const MAXS: usize = 8;
static GATE_PAUSED: [AtomicBool; MAXS] = [const { AtomicBool::new(false) }; MAXS];
static GATE_RELEASE: [AtomicBool; MAXS] = [const { AtomicBool::new(false) }; MAXS];
thread_local! {
    static GATED: std::cell::Cell<usize> = const { std::cell::Cell::new(0) };
}

#[no_mangle]
pub unsafe extern "C" fn clock_gettime(clk: libc::clockid_t, ts: *mut libc::timespec) -> libc::c_int {
    if clk == libc::CLOCK_REALTIME {
        let g = GATED.try_with(|g| g.replace(0)).unwrap_or(0);
        if g != 0 {
            GATE_PAUSED[g - 1].store(true, Ordering::SeqCst);
            while !GATE_RELEASE[g - 1].load(Ordering::SeqCst) {
                libc::sched_yield();
            }
        }
        let v = FAKE_NOW.load(Ordering::SeqCst);
        if v != 0 {
            (*ts).tv_sec = v as libc::time_t;
            (*ts).tv_nsec = 0;
            return 0;
        }
    }
    libc::syscall(libc::SYS_clock_gettime, clk, ts) as libc::c_int
}

fn set_now(model_t: u64) {
    FAKE_NOW.store(BASE + model_t as i64, Ordering::SeqCst);
}
fn to_system_time(model_t: u64) -> SystemTime {
    UNIX_EPOCH + Duration::from_secs((BASE + model_t as i64) as u64)
}
fn from_system_time(t: SystemTime) -> u64 {
    let secs = t.duration_since(UNIX_EPOCH).map(|d| d.as_secs() as i64).unwrap_or(0);
    (secs - BASE).max(0) as u64
}

// ---------------------------------------------------------------------------------------------
// canonical syntax: multiaddress shapes, addresses, caches
// ---------------------------------------------------------------------------------------------
#[derive(Clone, Debug, PartialEq, Eq, PartialOrd, Ord)]
struct A {
    ma: String,
    succ: u64,
    fail: u64,
    seen: u64,
}
type Cache = BTreeMap<u64, Vec<A>>;

fn peer_id(n: u64) -> PeerId {
    let mut b = vec![0x12u8, 0x20];
    b.extend_from_slice(&[0u8; 30]);
    b.push((n >> 8) as u8);
    b.push(n as u8);
    PeerId::from_bytes(&b).expect("peer id")
}
fn peer_num(p: &PeerId) -> u64 {
    let b = p.to_bytes();
    if b.len() == 34 && b[..32] == peer_id(0).to_bytes()[..32] {
        ((b[32] as u64) << 8) | b[33] as u64
    } else {
        99999
    }
}

const OTHERS: usize = 8;
fn other_proto(n: u64) -> Protocol<'static> {
    match n % OTHERS as u64 {
        0 => Protocol::Tls,
        1 => Protocol::Http,
        2 => Protocol::Wss("/".into()),
        3 => Protocol::Quic,
        4 => Protocol::WebRTCDirect,
        5 => Protocol::Memory(7),
        6 => Protocol::Dns4("a.example".into()),
        _ => Protocol::Noise,
    }
}

fn tok_to_proto(t: &str) -> Option<Protocol<'static>> {
    let (k, v) = match t.split_once(':') {
        Some((k, v)) => (k, v.parse::<u64>().ok()?),
        None => (t, 0),
    };
    Some(match k {
        "i4" => Protocol::Ip4(Ipv4Addr::new(10, 0, (v >> 8) as u8, v as u8)),
        "i6" => Protocol::Ip6(Ipv6Addr::new(0x2001, 0xdb8, 0, 0, 0, 0, 0, v as u16)),
        "d" => Protocol::Dns(format!("h{v}.example").into()),
        "u" => Protocol::Udp(v as u16),
        "t" => Protocol::Tcp(v as u16),
        "q" => Protocol::QuicV1,
        "w" => Protocol::Ws("/".into()),
        "p" => Protocol::P2p(peer_id(v)),
        "c" => Protocol::P2pCircuit,
        "x" => other_proto(v),
        _ => return None,
    })
}

fn proto_to_tok(p: &Protocol) -> String {
    match p {
        Protocol::Ip4(ip) => {
            let o = ip.octets();
            format!("i4:{}", ((o[2] as u64) << 8) | o[3] as u64)
        }
        Protocol::Ip6(ip) => format!("i6:{}", ip.segments()[7]),
        Protocol::Dns(s) => format!("d:{}", s.trim_start_matches('h').trim_end_matches(".example")),
        Protocol::Udp(n) => format!("u:{n}"),
        Protocol::Tcp(n) => format!("t:{n}"),
        Protocol::QuicV1 => "q".into(),
        Protocol::Ws(_) => "w".into(),
        Protocol::P2p(id) => format!("p:{}", peer_num(id)),
        Protocol::P2pCircuit => "c".into(),
        Protocol::Tls => "x:0".into(),
        Protocol::Http => "x:1".into(),
        Protocol::Wss(_) => "x:2".into(),
        Protocol::Quic => "x:3".into(),
        Protocol::WebRTCDirect => "x:4".into(),
        Protocol::Memory(_) => "x:5".into(),
        Protocol::Dns4(_) => "x:6".into(),
        Protocol::Noise => "x:7".into(),
        _ => "x:99".into(),
    }
}

fn ma_from_tok(s: &str) -> Option<Multiaddr> {
    let mut m = Multiaddr::empty();
    if s == "~" {
        return Some(m);
    }
    for t in s.split(',') {
        m.push(tok_to_proto(t)?);
    }
    Some(m)
}
fn ma_to_tok(m: &Multiaddr) -> String {
    let v: Vec<String> = m.iter().map(|p| proto_to_tok(&p)).collect();
    if v.is_empty() {
        "~".into()
    } else {
        v.join(",")
    }
}

fn show_cache(c: &Cache) -> String {
    let es: Vec<String> = c
        .iter()
        .filter(|(_, l)| !l.is_empty())
        .map(|(p, l)| {
            let xs: Vec<String> = l.iter().map(|a| format!("{};{};{};{}", a.ma, a.succ, a.fail, a.seen)).collect();
            format!("{p}={}", xs.join("+"))
        })
        .collect();
    if es.is_empty() {
        "-".into()
    } else {
        es.join("|")
    }
}

fn parse_cache(s: &str) -> Option<Cache> {
    let mut c = Cache::new();
    if s == "-" {
        return Some(c);
    }
    for e in s.split('|') {
        let (p, rest) = e.split_once('=')?;
        let mut l = vec![];
        if !rest.is_empty() {
            for a in rest.split('+') {
                let f: Vec<&str> = a.split(';').collect();
                if f.len() != 4 {
                    return None;
                }
                l.push(A { ma: f[0].into(), succ: f[1].parse().ok()?, fail: f[2].parse().ok()?, seen: f[3].parse().ok()? });
            }
        }
        c.insert(p.parse().ok()?, l);
    }
    Some(c)
}

/// JSON of a `CacheData`, written by this harness (a foreign writer), from canonical syntax
fn cache_to_json(c: &Cache, now: u64) -> String {
    let mut peers = serde_json::Map::new();
    for (p, l) in c {
        let arr: Vec<serde_json::Value> = l
            .iter()
            .map(|a| {
                serde_json::json!({
                    "addr": ma_from_tok(&a.ma).expect("ma").to_string(),
                    "success_count": a.succ,
                    "failure_count": a.fail,
                    "last_seen": {"secs_since_epoch": BASE as u64 + a.seen, "nanos_since_epoch": 0},
                })
            })
            .collect();
        peers.insert(peer_id(*p).to_string(), serde_json::Value::Array(arr));
    }
    serde_json::json!({
        "peers": peers,
        "last_updated": {"secs_since_epoch": BASE as u64 + now, "nanos_since_epoch": 0},
        "network_version": "verif_0",
    })
    .to_string()
}

#[derive(Clone)]
enum RawFile {
    Absent,
    Garbage,
    Data(Cache),
}
impl RawFile {
    fn show(&self) -> String {
        match self {
            RawFile::Absent => "absent".into(),
            RawFile::Garbage => "garbage".into(),
            RawFile::Data(c) => show_cache(c),
        }
    }
    fn peers(&self) -> BTreeSet<u64> {
        match self {
            RawFile::Data(c) => c.keys().cloned().collect(),
            _ => BTreeSet::new(),
        }
    }
}

/// the register value: this harness's own reading of the file (serde_json::Value, no ant-bootstrap code)
fn read_raw(path: &PathBuf) -> RawFile {
    let bytes = match std::fs::read(path) {
        Ok(b) => b,
        Err(_) => return RawFile::Absent,
    };
    let parse = || -> Option<Cache> {
        let s = std::str::from_utf8(&bytes).ok()?;
        let v: serde_json::Value = serde_json::from_str(s).ok()?;
        let o = v.as_object()?;
        o.get("last_updated")?.as_object()?;
        o.get("network_version")?.as_str()?;
        let mut c = Cache::new();
        for (k, l) in o.get("peers")?.as_object()? {
            let pid: PeerId = k.parse().ok()?;
            let mut xs = vec![];
            for a in l.as_array()? {
                let a = a.as_object()?;
                let m: Multiaddr = a.get("addr")?.as_str()?.parse().ok()?;
                let succ = a.get("success_count")?.as_u64()?;
                let fail = a.get("failure_count")?.as_u64()?;
                if succ > u32::MAX as u64 || fail > u32::MAX as u64 {
                    return None;
                }
                let ls = a.get("last_seen")?.as_object()?;
                let secs = ls.get("secs_since_epoch")?.as_u64()? as i64;
                ls.get("nanos_since_epoch")?.as_u64()?;
                xs.push(A { ma: ma_to_tok(&m), succ, fail, seen: (secs - BASE).max(0) as u64 });
            }
            c.insert(peer_num(&pid), xs);
        }
        Some(c)
    };
    match parse() {
        Some(c) => RawFile::Data(c),
        None => RawFile::Garbage,
    }
}

// ---------------------------------------------------------------------------------------------
// the case under execution
// ---------------------------------------------------------------------------------------------
struct Case {
    max_peers: usize,
    max_addrs: usize,
    expiry: u64,
    now: u64,
    path: PathBuf,
    stores: Vec<BootstrapCacheStore>,
    /// per store: built with `local` (cache writing disabled)
    disabled: Vec<bool>,
    /// the directory holding the shared cache file (what `bootstrap_cache_dir` is set to)
    dir: PathBuf,
    /// a cache file elsewhere that the configs of `new_from_peers_args` stores point to and that nobody may touch
    decoy: PathBuf,
    /// a crafted file with non-dialable content entered the system: the well-formedness clause has no hypothesis
    tainted: bool,
    /// a crafted file with equal per-peer timestamps is in play (eviction ties)
    ties: bool,
    history: Vec<String>,
    used_odd: BTreeSet<u64>,
    /// per store: a flush of it is in flight in its own thread, stopped between its load half and its commit half
    inflight: Vec<Option<InFlight>>,
    /// replay mode: clauses of open known findings are reported (the witness replay must show them)
    replay: bool,
}

struct InFlight {
    handle: std::thread::JoinHandle<(BootstrapCacheStore, bool)>,
    with_cleanup: bool,
    mem_before: Cache,
    raw_at_begin: RawFile,
}

impl Case {
    fn busy(&self, i: usize) -> bool {
        self.inflight.get(i).map(|x| x.is_some()).unwrap_or(false)
    }
    fn cfg(&self) -> BootstrapCacheConfig {
        BootstrapCacheConfig::empty()
            .with_cache_path(&self.path)
            .with_max_peers(self.max_peers)
            .with_addrs_per_peer(self.max_addrs)
            .with_addr_expiry_duration(Duration::from_secs(self.expiry))
    }
    fn sentinel(&self) -> String {
        cache_to_json(&parse_cache("9=i4:9,u:9,q,p:9;7;0;1000000").unwrap(), T0)
    }
    fn write_decoy(&self) {
        std::fs::create_dir_all(self.decoy.parent().unwrap()).expect("decoy dir");
        std::fs::write(&self.decoy, self.sentinel()).expect("decoy");
    }
    fn mem(&self, i: usize) -> Cache {
        let mut c = Cache::new();
        for a in self.stores[i].get_all_addrs() {
            let p = a.addr.iter().find_map(|p| if let Protocol::P2p(id) = p { Some(peer_num(&id)) } else { None }).unwrap_or(88888);
            c.entry(p).or_default().push(A {
                ma: ma_to_tok(&a.addr),
                succ: a.success_count as u64,
                fail: a.failure_count as u64,
                seen: from_system_time(a.last_seen),
            });
        }
        c
    }
    /// `load_cache_data` on the shared file, as canonical data (None = Err)
    fn load(&self) -> Option<Cache> {
        let d = BootstrapCacheStore::load_cache_data(&self.cfg()).ok()?;
        let mut c = Cache::new();
        for (pid, addrs) in d.peers.iter() {
            let l = addrs
                .0
                .iter()
                .map(|a| A { ma: ma_to_tok(&a.addr), succ: a.success_count as u64, fail: a.failure_count as u64, seen: from_system_time(a.last_seen) })
                .collect();
            c.insert(peer_num(pid), l);
        }
        Some(c)
    }
}

fn fnv64(text: &str) -> u64 {
    let mut h: u64 = 0xcbf29ce484222325;
    for b in text.bytes() {
        h ^= b as u64;
        h = h.wrapping_mul(0x100000001b3);
    }
    h
}
/// run a future that never has to wait (the network sources of get_bootstrap_addr are switched off)
fn block_on<F: std::future::Future>(f: F) -> Option<F::Output> {
    let mut f = std::pin::pin!(f);
    let w = std::task::Waker::noop();
    let mut cx = std::task::Context::from_waker(w);
    for _ in 0..16 {
        if let std::task::Poll::Ready(v) = f.as_mut().poll(&mut cx) {
            return Some(v);
        }
    }
    None
}

/// `PeersArgs::get_bootstrap_addr` with ANT_PEERS set/unset around the call (single-threaded here), rendered canonically
fn call_startup(args: &PeersArgs, config: &BootstrapCacheConfig, count: Option<usize>, env: &Option<String>) -> (String, Vec<A>) {
    match env {
        Some(v) => std::env::set_var(ant_bootstrap::ANT_PEERS_ENV, v),
        None => std::env::remove_var(ant_bootstrap::ANT_PEERS_ENV),
    }
    let r = catch_unwind(AssertUnwindSafe(|| block_on(args.get_bootstrap_addr(Some(config.clone()), count))));
    std::env::remove_var(ant_bootstrap::ANT_PEERS_ENV);
    match r {
        Err(_) => ("panic".into(), vec![]),
        Ok(None) => ("err pending".into(), vec![]),
        Ok(Some(Ok(l))) => {
            let v: Vec<A> = l.iter().map(|a| A { ma: ma_to_tok(&a.addr), succ: a.success_count as u64, fail: a.failure_count as u64, seen: from_system_time(a.last_seen) }).collect();
            let mut xs: Vec<String> = v.iter().map(|a| format!("{};{};{};{}", a.ma, a.succ, a.fail, a.seen)).collect();
            xs.sort();
            (if xs.is_empty() { "ok -".into() } else { format!("ok {}", xs.join("+")) }, v)
        }
        Ok(Some(Err(ant_bootstrap::Error::NoBootstrapPeersFound))) => ("err nopeers".into(), vec![]),
        Ok(Some(Err(ant_bootstrap::Error::InvalidBootstrapCacheDir))) => ("err baddir".into(), vec![]),
        Ok(Some(Err(ant_bootstrap::Error::FailedToParseCacheData))) | Ok(Some(Err(ant_bootstrap::Error::Io(_)))) => ("err cache".into(), vec![]),
        Ok(Some(Err(e))) => (format!("err other:{e:?}").replace(' ', "_"), vec![]),
    }
}

fn keyset(c: &Cache) -> BTreeSet<u64> {
    c.keys().cloned().collect()
}
fn show_choice(s: &BTreeSet<u64>) -> String {
    if s.is_empty() {
        "e:-".into()
    } else {
        format!("e:{}", s.iter().map(|x| x.to_string()).collect::<Vec<_>>().join(","))
    }
}

// ---------------------------------------------------------------------------------------------
// model-independent oracle
// ---------------------------------------------------------------------------------------------
fn dialable_with_peer(tok: &str) -> Option<u64> {
    let ps: Vec<&str> = tok.split(',').collect();
    let kind = |s: &str| s.split(':').next().unwrap_or("").to_string();
    let ks: Vec<String> = ps.iter().map(|s| kind(s)).collect();
    let ks: Vec<&str> = ks.iter().map(|s| s.as_str()).collect();
    let ok = matches!(ks.as_slice(), ["i4", "u", "p"] | ["i4", "u", "q", "p"] | ["i4", "t", "p"] | ["i4", "t", "w", "p"]);
    if ok {
        ps.last()?.split(':').nth(1)?.parse().ok()
    } else {
        None
    }
}

struct Oracle<'a> {
    out: &'a mut Out,
    hist: String,
}
impl Oracle<'_> {
    fn fail(&mut self, clause: &str, what: String) {
        self.out.oracle_fail(clause, &self.hist, &what);
    }
    fn bounds(&mut self, what: &str, c: &Cache, n_peers: usize, case: &Case) {
        if n_peers > case.max_peers {
            self.fail("bounds-peers", format!("{what}: {n_peers} peers > max_peers {}", case.max_peers));
        }
        for (p, l) in c {
            if l.len() > case.max_addrs {
                self.fail("bounds-addrs", format!("{what}: peer {p} holds {} addresses > max_addrs_per_peer {}", l.len(), case.max_addrs));
            }
        }
    }
    fn wellformed(&mut self, what: &str, c: &Cache, case: &Case) {
        if case.tainted {
            return;
        }
        for (p, l) in c {
            for a in l {
                if dialable_with_peer(&a.ma) != Some(*p) {
                    self.fail("wellformed", format!("{what}: peer {p} holds address {} which is not ip4/(udp[/quic-v1]|tcp[/ws])/p2p/<that peer>", a.ma));
                }
            }
        }
    }
    fn cleaned(&mut self, what: &str, c: &Cache, case: &Case) {
        for (p, l) in c {
            for a in l {
                if a.fail > a.succ {
                    self.fail("cleanup-unreliable", format!("{what}: after clean-up peer {p} still holds {} with {} failures > {} successes", a.ma, a.fail, a.succ));
                }
                if a.seen > case.now || case.now - a.seen >= case.expiry {
                    self.fail("cleanup-expired", format!("{what}: after clean-up peer {p} still holds {} last seen at {} (now {}, expiry {})", a.ma, a.seen, case.now, case.expiry));
                }
            }
        }
    }
}

fn is_clean(c: &Cache, case: &Case) -> bool {
    c.len() <= case.max_peers
        && c.values().all(|l| {
            !l.is_empty() && l.len() <= case.max_addrs && l.iter().all(|a| a.fail <= a.succ && a.seen <= case.now && case.now - a.seen < case.expiry)
        })
}

// ---------------------------------------------------------------------------------------------
// executing one op line on the real code (returns the full op line incl. witness, and the output)
// ---------------------------------------------------------------------------------------------
fn strip_choice(ws: &[&str]) -> Vec<String> {
    ws.iter().filter(|w| !w.starts_with("e:") && !w.starts_with("h:") && !w.starts_with("o:") && !w.starts_with("z:")).map(|s| s.to_string()).collect()
}

static RACE_FAILS: AtomicU64 = AtomicU64::new(0);

fn run_race(dir: &PathBuf, seed: u64, writers: u64, iters: u64) -> (u64, u64, u64, u64) {
    // several real stores flushing to one file from threads, while readers load it continuously
    let path = dir.join(format!("race-{seed}.json"));
    let _ = std::fs::remove_file(&path);
    let cfg = BootstrapCacheConfig::empty().with_cache_path(&path).with_max_peers(200).with_addrs_per_peer(6).with_addr_expiry_duration(Duration::from_secs(86400));
    // start from an existing, loadable file
    let mut s0 = BootstrapCacheStore::new(cfg.clone()).expect("store");
    for k in 0..40u64 {
        s0.add_addr(ma_from_tok(&format!("i4:{k},u:{},q,p:{k}", k % 7)).unwrap());
    }
    s0.write().expect("write");
    let stop = std::sync::Arc::new(AtomicBool::new(false));
    let loads = std::sync::Arc::new(AtomicU64::new(0));
    let bad = std::sync::Arc::new(AtomicU64::new(0));
    let mut readers = vec![];
    for _ in 0..2 {
        let (stop, loads, bad, cfg) = (stop.clone(), loads.clone(), bad.clone(), cfg.clone());
        readers.push(std::thread::spawn(move || {
            while !stop.load(Ordering::SeqCst) {
                let r = catch_unwind(AssertUnwindSafe(|| BootstrapCacheStore::load_cache_data(&cfg).is_ok()));
                loads.fetch_add(1, Ordering::SeqCst);
                if !matches!(r, Ok(true)) {
                    bad.fetch_add(1, Ordering::SeqCst);
                }
            }
        }));
    }
    let mut ws = vec![];
    for w in 0..writers {
        let cfg = cfg.clone();
        ws.push(std::thread::spawn(move || {
            let mut rng = Rng::new(seed * 1000 + w);
            let mut st = BootstrapCacheStore::new(cfg).expect("store");
            let mut errs = 0u64;
            let mut flushed: BTreeSet<u64> = BTreeSet::new();
            for _ in 0..iters {
                let mut batch = vec![];
                for _ in 0..rng.range(1, 6) {
                    let p = rng.below(150);
                    st.add_addr(ma_from_tok(&format!("i4:{},u:{},q,p:{p}", rng.below(200), rng.below(5))).unwrap());
                    batch.push(p);
                }
                let r = catch_unwind(AssertUnwindSafe(|| st.sync_and_flush_to_disk(rng.chance(3, 4)).is_ok()));
                if !matches!(r, Ok(true)) {
                    errs += 1;
                } else {
                    flushed.extend(batch);
                }
            }
            (errs, flushed)
        }));
    }
    let mut werrs = 0;
    let mut flushed: BTreeSet<u64> = BTreeSet::new();
    for h in ws {
        match h.join() {
            Ok((e, f)) => {
                werrs += e;
                flushed.extend(f);
            }
            Err(_) => werrs += 1000,
        }
    }
    stop.store(true, Ordering::SeqCst);
    for h in readers {
        let _ = h.join();
    }
    // every peer below was flushed successfully by some writer (fresh, reliable, 150 peers < max_peers 200: nothing for
    // clean-up to remove) and cleared from that writer's memory; one that is not in the final file was lost to an
    // interleaved flush (open finding K-c18-interleaved-flush-loses-peers: counted, not failed, the schedule is random)
    let final_data = BootstrapCacheStore::load_cache_data(&cfg);
    let final_ok = final_data.is_ok();
    let lost = match &final_data {
        Ok(d) => {
            let have: BTreeSet<u64> = d.peers.keys().map(peer_num).collect();
            flushed.iter().filter(|p| !have.contains(p)).count() as u64
        }
        Err(_) => 0,
    };
    let _ = std::fs::remove_file(&path);
    let b = bad.load(Ordering::SeqCst) + if final_ok { 0 } else { 1 };
    RACE_FAILS.fetch_add(b, Ordering::SeqCst);
    (loads.load(Ordering::SeqCst), b, werrs, lost)
}

fn exec(case: &mut Case, dir: &PathBuf, line: &str, out: &mut Out) -> (String, String) {
    let ws0: Vec<&str> = line.split_whitespace().collect();
    let ws = strip_choice(&ws0);
    let w: Vec<&str> = ws.iter().map(|s| s.as_str()).collect();
    let mut full = ws.join(" ");
    case.history.push(full.clone());
    let mut orc_jobs: Vec<Box<dyn FnOnce(&mut Oracle, &Case)>> = vec![];
    let res = catch_unwind(AssertUnwindSafe(|| -> String {
        match w.as_slice() {
            ["cfg", p, a, e, n] => {
                let (p, a, e, n): (usize, usize, u64, usize) = (p.parse().unwrap(), a.parse().unwrap(), e.parse().unwrap(), n.parse().unwrap());
                let _ = std::fs::remove_file(&case.path);
                case.max_peers = p;
                case.max_addrs = a;
                case.expiry = e;
                case.now = T0;
                set_now(case.now);
                case.tainted = false;
                case.ties = false;
                case.used_odd.clear();
                case.history = vec![full.clone()];
                case.write_decoy();
                case.stores = (0..n).map(|_| BootstrapCacheStore::new(case.cfg()).expect("store")).collect();
                case.disabled = vec![false; n];
                // a flush left in flight by a truncated history: let it finish before its slot is reused
                for (i, f) in case.inflight.iter_mut().enumerate() {
                    if let Some(f) = f.take() {
                        GATE_RELEASE[i].store(true, Ordering::SeqCst);
                        let _ = f.handle.join();
                    }
                }
                let _ = std::fs::remove_file(&case.path);
                case.inflight = (0..n).map(|_| None).collect();
                "ok".into()
            }
            ["mk", s, mode] => {
                // rebuild store s: `n` = new(config); otherwise new_from_peers_args with the flags of `mode`
                // (d = bootstrap_cache_dir override while the config's own path points at the decoy file,
                //  c = no override, f = first, l = local, i = ignore_cache)
                let i: usize = s.parse().unwrap();
                if case.busy(i) {
                    return "busy".into();
                }
                let has = |c: char| mode.contains(c);
                // D = bootstrap_cache_dir names a regular file, U = a directory that cannot be created (under a regular file)
                let dir_arg = if has('D') {
                    Some(case.decoy.clone())
                } else if has('U') {
                    Some(case.decoy.join("sub"))
                } else if has('d') {
                    Some(case.dir.clone())
                } else {
                    None
                };
                let raw0 = read_raw(&case.path).show();
                let store = if has('n') {
                    BootstrapCacheStore::new(case.cfg()).expect("store")
                } else {
                    let args = PeersArgs { first: has('f'), local: has('l'), ignore_cache: has('i'), bootstrap_cache_dir: dir_arg, ..Default::default() };
                    let config = if has('d') || has('D') || has('U') { case.cfg().with_cache_path(&case.decoy) } else { case.cfg() };
                    match BootstrapCacheStore::new_from_peers_args(&args, Some(config)) {
                        Ok(s) => s,
                        Err(e) => {
                            // the caller (antnode main: `new_from_peers_args(..)?`) ends here; nothing may have been touched
                            let raw1 = read_raw(&case.path).show();
                            let expected = has('D') || has('U');
                            orc_jobs.push(Box::new(move |o, _| {
                                if !expected {
                                    o.fail("store-built", "new_from_peers_args failed although the cache directory argument is usable".into());
                                }
                                if raw1 != raw0 {
                                    o.fail("failed-build-touches-nothing", format!("a refused store construction changed the cache file from {raw0} to {raw1}"));
                                }
                            }));
                            out.count(&format!("mk:{mode}:refused"));
                            return match e {
                                ant_bootstrap::Error::InvalidBootstrapCacheDir => "err baddir".into(),
                                ant_bootstrap::Error::Io(_) => "err cache".into(),
                                e => format!("err other:{e:?}").replace(' ', "_"),
                            };
                        }
                    }
                };
                if has('D') || has('U') {
                    orc_jobs.push(Box::new(move |o, _| o.fail("unusable-dir-refused", "new_from_peers_args accepted a bootstrap_cache_dir that is a regular file / cannot be created".into())));
                }
                let want_disabled = !has('n') && has('l');
                let loc_ok = store.config().cache_file_path == case.path;
                let dis_ok = store.config().disable_cache_writing == want_disabled;
                case.stores[i] = store;
                case.disabled[i] = want_disabled;
                let first = !has('n') && has('f');
                let raw = read_raw(&case.path);
                let shown = raw.show();
                let sh2 = shown.clone();
                orc_jobs.push(Box::new(move |o, _| {
                    if !loc_ok {
                        o.fail("store-location", "the store's configured cache path is not the one bootstrap_cache_dir selects".into());
                    }
                    if !dis_ok {
                        o.fail("store-location", "disable_cache_writing does not follow PeersArgs::local".into());
                    }
                    if first && sh2 != "-" {
                        o.fail("first-clears", format!("a `first` store must start from an empty cache file, found {sh2}"));
                    }
                }));
                out.count(&format!("mk:{mode}"));
                format!("m={} n={} f={shown}", show_cache(&case.mem(i)), case.stores[i].peer_count())
            }
            ["tick", d] => {
                case.now += d.parse::<u64>().unwrap();
                set_now(case.now);
                format!("now {}", from_system_time(SystemTime::now()))
            }
            ["add", s, m] => {
                let i: usize = s.parse().unwrap();
                if case.busy(i) {
                    return "busy".into();
                }
                let ma = ma_from_tok(m).expect("ma");
                let before = keyset(&case.mem(i));
                let touched = craft_valid_multiaddr(&ma, false).and_then(|c| c.iter().find_map(|p| if let Protocol::P2p(id) = p { Some(peer_num(&id)) } else { None }));
                case.stores[i].add_addr(ma);
                let after = case.mem(i);
                let mut ev: BTreeSet<u64> = before.difference(&keyset(&after)).cloned().collect();
                if let Some(t) = touched {
                    if !after.contains_key(&t) {
                        ev.insert(t);
                    }
                }
                out.count(match touched {
                    None => "add:refused-shape",
                    Some(t) if before.contains(&t) => "add:known-peer",
                    Some(_) => "add:new-peer",
                });
                if !ev.is_empty() {
                    out.count("add:evicts-or-empties");
                }
                full = format!("{full} {}", show_choice(&ev));
                format!("m={} n={}", show_cache(&after), case.stores[i].peer_count())
            }
            ["upd", s, m, b] => {
                let i: usize = s.parse().unwrap();
                if case.busy(i) {
                    return "busy".into();
                }
                let ma = ma_from_tok(m).expect("ma");
                let before = case.mem(i);
                case.stores[i].update_addr_status(&ma, *b != "0");
                let after = case.mem(i);
                out.count(if before == after { "upd:miss" } else { "upd:hit" });
                format!("m={} n={}", show_cache(&after), case.stores[i].peer_count())
            }
            ["clean", s] => {
                let i: usize = s.parse().unwrap();
                if case.busy(i) {
                    return "busy".into();
                }
                let before = keyset(&case.mem(i));
                case.stores[i].perform_cleanup();
                let after = case.mem(i);
                let ev: BTreeSet<u64> = before.difference(&keyset(&after)).cloned().collect();
                full = format!("{full} {}", show_choice(&ev));
                let a2 = after.clone();
                orc_jobs.push(Box::new(move |o, c| o.cleaned("memory after perform_cleanup", &a2, c)));
                format!("m={} n={}", show_cache(&after), case.stores[i].peer_count())
            }
            ["flush", s, b] => {
                let i: usize = s.parse().unwrap();
                if case.busy(i) {
                    return "busy".into();
                }
                let with_cleanup = *b != "0";
                let mem_before = case.mem(i);
                let raw_before = read_raw(&case.path);
                let pre_load = case.load();
                let r = case.stores[i].sync_and_flush_to_disk(with_cleanup);
                let raw_after = read_raw(&case.path);
                if let RawFile::Data(fb) = &raw_before {
                    let mut overlap = false;
                    let mut equal_seen = false;
                    for (p, l) in &mem_before {
                        for a in l {
                            if let Some(x) = fb.get(p).and_then(|fl| fl.iter().find(|x| x.ma == a.ma)) {
                                overlap = true;
                                equal_seen |= x.seen == a.seen;
                            }
                        }
                    }
                    if overlap {
                        out.count("flush:same-address-on-both-sides");
                    }
                    if equal_seen {
                        out.count("flush:equal-timestamps-no-double-count");
                    }
                    if fb.len() > case.max_peers {
                        out.count("flush:file-over-max-peers");
                    }
                } else {
                    out.count("flush:file-missing-or-corrupt");
                }
                let mut ev: BTreeSet<u64> = keyset(&mem_before).union(&raw_before.peers()).cloned().collect();
                for p in raw_after.peers() {
                    ev.remove(&p);
                }
                let outl = format!("m={} n={} f={}", show_cache(&case.mem(i)), case.stores[i].peer_count(), raw_after.show());
                // the flush evicts twice (in load_cache_data, then after the merge); only the second eviction is
                // observable, so the digest of the output selects the tie-break of the first (the model must
                // reproduce the output exactly under some legal tie-break)
                full = format!("{full} {} h:{}", show_choice(&ev), fnv64(&outl));
                let ok = r.is_ok();
                let ties = case.ties;
                let disabled = case.disabled[i];
                let mem_after = case.mem(i);
                let before_shown = raw_before.show();
                orc_jobs.push(Box::new(move |o, c| {
                    if !ok {
                        o.fail("flush-ok", "sync_and_flush_to_disk returned an error".into());
                    }
                    if disabled {
                        // cache writing disabled: nothing is read, written or dropped
                        if raw_after.show() != before_shown || mem_after != mem_before {
                            o.fail("disabled-flush-noop", "a store with cache writing disabled changed the file or its memory in a flush".into());
                        }
                        return;
                    }
                    // what was flushed can be loaded back from the store's configured location: an address known
                    // only to the memory, fresh and reliable, with no pressure on either limit, must be in the file
                    if let RawFile::Data(after) = &raw_after {
                        let fb = match &raw_before {
                            RawFile::Data(d) => d.clone(),
                            _ => Cache::new(),
                        };
                        let all_peers: BTreeSet<u64> = keyset(&mem_before).union(&keyset(&fb)).cloned().collect();
                        for (p, l) in &mem_before {
                            let n_addrs = l.len() + fb.get(p).map(|x| x.len()).unwrap_or(0);
                            for a in l {
                                let in_file = fb.get(p).map(|x| x.iter().any(|y| y.ma == a.ma)).unwrap_or(false);
                                let fresh = a.fail <= a.succ && a.seen <= c.now && c.now - a.seen < c.expiry;
                                if !in_file && fresh && all_peers.len() <= c.max_peers && n_addrs <= c.max_addrs
                                    && !after.get(p).map(|x| x.contains(a)).unwrap_or(false)
                                {
                                    o.fail("flush-persisted", format!("peer {p} address {} was flushed (fresh, reliable, within limits) but is not in the file at the store's configured location", a.ma));
                                }
                            }
                        }
                    }
                    let after = match &raw_after {
                        RawFile::Data(d) => d.clone(),
                        _ => {
                            o.fail("file-loadable", format!("after a flush the file is {}", raw_after.show()));
                            return;
                        }
                    };
                    let has = |p: &u64, ma: &str| after.get(p).map(|l| l.iter().any(|a| a.ma == ma)).unwrap_or(false);
                    if !with_cleanup {
                        // merge loses nothing known to either side
                        for (p, l) in &mem_before {
                            for a in l {
                                if !has(p, &a.ma) {
                                    o.fail("merge-keeps-memory", format!("peer {p} address {} was in memory before the merge and is not in the file after it", a.ma));
                                }
                            }
                        }
                        let no_evict = raw_before.peers().len() <= c.max_peers && !ties;
                        if let (Some(pl), true) = (&pre_load, no_evict) {
                            for (p, l) in pl {
                                for a in l {
                                    if !has(p, &a.ma) {
                                        o.fail("merge-keeps-file", format!("peer {p} address {} was loadable from the file before the merge and is not in the file after it", a.ma));
                                    }
                                    // an address known to one side only keeps its counters
                                    let in_mem = mem_before.get(p).map(|l| l.iter().any(|x| x.ma == a.ma)).unwrap_or(false);
                                    // (a crafted file may list one address twice under a peer; `sync` then folds the
                                    // duplicates together, so "its counters" is only defined for addresses listed once)
                                    let listed_once = l.iter().filter(|x| x.ma == a.ma).count() == 1;
                                    if !in_mem && listed_once {
                                        let got = after.get(p).and_then(|l| l.iter().find(|x| x.ma == a.ma));
                                        if got.map(|g| (g.succ, g.fail, g.seen)) != Some((a.succ, a.fail, a.seen)) {
                                            o.fail("merge-keeps-file", format!("peer {p} address {} known only to the file changed its counters in the merge", a.ma));
                                        }
                                    }
                                }
                            }
                        }
                    } else {
                        o.cleaned("file after flush with clean-up", &after, c);
                        o.bounds("file after flush with clean-up", &after, after.len(), c);
                        // nothing invented
                        for (p, l) in &after {
                            for a in l {
                                let in_mem = mem_before.get(p).map(|l| l.iter().any(|x| x.ma == a.ma)).unwrap_or(false);
                                let in_file = match &raw_before {
                                    RawFile::Data(d) => d.get(p).map(|l| l.iter().any(|x| x.ma == a.ma)).unwrap_or(false),
                                    _ => false,
                                };
                                if !in_mem && !in_file {
                                    o.fail("merge-invents", format!("peer {p} address {} appears after the flush but was on neither side", a.ma));
                                }
                            }
                        }
                    }
                    o.wellformed("file after flush", &after, c);
                }));
                outl
            }
            ["wfault", s] | ["ffault", s] | ["ffault", s, _] => {
                // the same save with every write to a regular file failing (RLIMIT_FSIZE = 0, SIGXFSZ ignored so the
                // write returns EFBIG — a full disk / quota): the save must report the error, the cache file must be
                // exactly what it was (atomic replacement: a failed save never replaces a good file), and so must the
                // store's memory (a failed flush must not leave the merge `memory ∪ file` behind: unbounded, and merged
                // a second time by the next attempt)
                let i: usize = s.parse().unwrap();
                if case.busy(i) {
                    return "busy".into();
                }
                let raw_before = read_raw(&case.path);
                let mem_before = case.mem(i);
                let flush = ws[0] == "ffault";
                let with_cleanup = flush && w.len() == 3 && w[2] != "0";
                let mut old = libc::rlimit { rlim_cur: 0, rlim_max: 0 };
                let r = unsafe {
                    libc::signal(libc::SIGXFSZ, libc::SIG_IGN);
                    libc::getrlimit(libc::RLIMIT_FSIZE, &mut old);
                    let lim = libc::rlimit { rlim_cur: 0, rlim_max: old.rlim_max };
                    libc::setrlimit(libc::RLIMIT_FSIZE, &lim);
                    let r = if flush { case.stores[i].sync_and_flush_to_disk(with_cleanup).is_ok() } else { case.stores[i].write().is_ok() };
                    libc::setrlimit(libc::RLIMIT_FSIZE, &old);
                    r
                };
                let raw_after = read_raw(&case.path);
                let mem_after = case.mem(i);
                let loads = case.load().is_some();
                let (b, a) = (raw_before.show(), raw_after.show());
                let was_loadable = matches!(raw_before, RawFile::Data(_));
                let disabled = case.disabled[i];
                let a2 = a.clone();
                let outl = format!("{} m={} n={} f={a}", if r { "ok" } else { "err" }, show_cache(&mem_after), case.stores[i].peer_count());
                if flush {
                    // (only the unrepaired shape shows an eviction here: it left the merge in memory)
                    let mut ev: BTreeSet<u64> = keyset(&mem_before).union(&raw_before.peers()).cloned().collect();
                    for p in keyset(&mem_after) {
                        ev.remove(&p);
                    }
                    full = format!("{full} {} h:{}", show_choice(&ev), fnv64(&outl));
                    if matches!(raw_before, RawFile::Data(ref d) if !d.is_empty()) && !mem_before.is_empty() {
                        out.count("ffault:memory-and-file-both-non-empty");
                    }
                }
                let (mb, ma) = (mem_before.clone(), mem_after.clone());
                orc_jobs.push(Box::new(move |o, _| {
                    if disabled && flush {
                        return;
                    }
                    if r {
                        o.fail("failed-save-reported", "every write failed, yet the save returned Ok".into());
                    }
                    if a2 != b {
                        o.fail("atomic-replace", format!("a failed save changed the cache file from {b} to {a2}"));
                    }
                    if was_loadable && !loads {
                        o.fail("atomic-replace", "a failed save left a cache file that no longer loads".into());
                    }
                    if ma != mb {
                        o.fail("failed-save-keeps-memory", format!("a failed save changed the store's memory from {} to {}", show_cache(&mb), show_cache(&ma)));
                    }
                }));
                outl
            }
            ["pswap", s, t] => {
                // the periodic save of ant-networking/src/driver.rs, the same calls in the same order (rs2lean checks the
                // order in driver.rs): `config = cache.config().clone(); old_cache = cache.clone(); cache = new(config)`;
                // slot t receives `old_cache`, which the spawned task then flushes (`flush t 1` / `ffault t 1` /
                // `fbegin t 1` … `fend t 1` when spawned tasks overlap)
                let (i, j): (usize, usize) = (s.parse().unwrap(), t.parse().unwrap());
                if i == j || i >= case.stores.len() || j >= case.stores.len() || case.busy(i) || case.busy(j) {
                    return "busy".into();
                }
                let bootstrap_cache = &mut case.stores[i];
                let config = bootstrap_cache.config().clone();
                let old_cache = bootstrap_cache.clone();
                let new = match BootstrapCacheStore::new(config) {
                    Ok(new) => new,
                    Err(_) => return "err new".into(),
                };
                *bootstrap_cache = new;
                let before = case.mem(j);
                let _ = before;
                case.stores[j] = old_cache;
                case.disabled[j] = case.disabled[i];
                let (mi, mj) = (case.mem(i), case.mem(j));
                out.count(if mj.is_empty() { "pswap:empty-interval" } else { "pswap:peers-in-interval" });
                let live_empty = case.stores[i].peer_count() == 0;
                orc_jobs.push(Box::new(move |o, _| {
                    if !live_empty {
                        o.fail("periodic-swap", "the live store does not continue empty after the periodic swap".into());
                    }
                }));
                format!("m={} n={} | m={} n={}", show_cache(&mi), case.stores[i].peer_count(), show_cache(&mj), case.stores[j].peer_count())
            }
            ["fbegin", s, b] => {
                // store s starts `sync_and_flush_to_disk(b)` in its own thread and is stopped at its first clock read:
                // after its load half, before its commit half (see the gate on clock_gettime)
                let i: usize = s.parse().unwrap();
                if i >= case.stores.len() || i >= MAXS || case.busy(i) {
                    return "busy".into();
                }
                let with_cleanup = *b != "0";
                let mem_before = case.mem(i);
                let raw_at_begin = read_raw(&case.path);
                let mut st = case.stores[i].clone();
                GATE_PAUSED[i].store(false, Ordering::SeqCst);
                GATE_RELEASE[i].store(false, Ordering::SeqCst);
                let handle = std::thread::spawn(move || {
                    // the harness-wide subscriber stamps every log event with the wall clock; in this thread events are
                    // still formatted (TRACE, arguments evaluated) but without a time stamp, so that the first clock read is
                    // the code's own
                    let sub = tracing_subscriber::fmt().without_time().with_max_level(tracing::Level::TRACE).with_writer(std::io::sink).finish();
                    GATED.with(|g| g.set(i + 1));
                    let r = tracing::subscriber::with_default(sub, || catch_unwind(AssertUnwindSafe(|| st.sync_and_flush_to_disk(with_cleanup).is_ok())));
                    GATED.with(|g| g.set(0));
                    (st, matches!(r, Ok(true)))
                });
                let paused = loop {
                    if GATE_PAUSED[i].load(Ordering::SeqCst) {
                        break true;
                    }
                    if handle.is_finished() {
                        break false;
                    }
                    std::thread::yield_now();
                };
                if paused {
                    case.inflight[i] = Some(InFlight { handle, with_cleanup, mem_before, raw_at_begin });
                    out.count("fbegin:paused-between-load-and-commit");
                    full = format!("{full} z:1");
                    "paused".into()
                } else {
                    // no clock read at all: cache writing disabled, or nothing loadable and nothing to clean — the flush ran
                    // to its end
                    let (st, ok) = handle.join().expect("flush thread");
                    case.stores[i] = st;
                    let raw_after = read_raw(&case.path);
                    let mut ev: BTreeSet<u64> = keyset(&mem_before).union(&raw_at_begin.peers()).cloned().collect();
                    for p in raw_after.peers() {
                        ev.remove(&p);
                    }
                    out.count("fbegin:ran-to-completion");
                    full = format!("{full} z:0 {}", show_choice(&ev));
                    let disabled = case.disabled[i];
                    orc_jobs.push(Box::new(move |o, _| {
                        if !ok {
                            o.fail("flush-ok", "sync_and_flush_to_disk returned an error".into());
                        }
                        if !disabled && !with_cleanup {
                            if let RawFile::Data(after) = &raw_after {
                                for (p, l) in &mem_before {
                                    for a in l {
                                        if !after.get(p).map(|x| x.iter().any(|y| y.ma == a.ma)).unwrap_or(false) {
                                            o.fail("merge-keeps-memory", format!("peer {p} address {} was in memory before the flush and is not in the file after it", a.ma));
                                        }
                                    }
                                }
                            }
                        }
                        let _ = &raw_at_begin;
                    }));
                    format!("done m={} n={} f={}", show_cache(&case.mem(i)), case.stores[i].peer_count(), read_raw(&case.path).show())
                }
            }
            ["fend", s, b] => {
                // the stopped flush of store s runs its commit half now
                let i: usize = s.parse().unwrap();
                let Some(fl) = case.inflight.get_mut(i).and_then(|x| x.take()) else {
                    return "idle".into();
                };
                if fl.with_cleanup != (*b != "0") {
                    case.inflight[i] = Some(fl);
                    return "bad-op".into();
                }
                let with_cleanup = fl.with_cleanup;
                let raw_before = read_raw(&case.path);
                let pre_load = case.load();
                GATE_RELEASE[i].store(true, Ordering::SeqCst);
                let (st, ok) = fl.handle.join().expect("flush thread");
                case.stores[i] = st;
                let raw_after = read_raw(&case.path);
                let outl = format!("m={} n={} f={}", show_cache(&case.mem(i)), case.stores[i].peer_count(), raw_after.show());
                let mut ev: BTreeSet<u64> = keyset(&fl.mem_before).union(&fl.raw_at_begin.peers()).cloned().collect();
                for p in raw_after.peers() {
                    ev.remove(&p);
                }
                full = format!("{full} {} h:{}", show_choice(&ev), fnv64(&outl));
                let interleaved = fl.raw_at_begin.show() != raw_before.show();
                out.count(if interleaved { "fend:file-changed-since-the-load-half" } else { "fend:file-unchanged-since-the-load-half" });
                let ties = case.ties;
                let replay = case.replay;
                let mem_before = fl.mem_before;
                let begin_peers = fl.raw_at_begin.peers();
                let mut lost_known = 0u64;
                // the clause of the open finding, evaluated here so that the random run can count it
                let mut lost: Vec<String> = vec![];
                if let (RawFile::Data(after), Some(pl)) = (&raw_after, &pre_load) {
                    let no_evict = raw_before.peers().len() <= case.max_peers && !ties;
                    let all_peers: BTreeSet<u64> = keyset(&mem_before).union(&raw_before.peers()).cloned().collect::<BTreeSet<u64>>().union(&begin_peers).cloned().collect();
                    if no_evict {
                        for (p, l) in pl {
                            for a in l {
                                let n_addrs = l.len() + mem_before.get(p).map(|x| x.len()).unwrap_or(0);
                                let fresh = a.fail <= a.succ && a.seen <= case.now && case.now - a.seen < case.expiry;
                                let must = !with_cleanup || (fresh && all_peers.len() <= case.max_peers && n_addrs <= case.max_addrs);
                                if must && !after.get(p).map(|x| x.iter().any(|y| y.ma == a.ma)).unwrap_or(false) {
                                    lost.push(format!("peer {p} address {} was loadable from the file when the flush committed and is not in the file after it", a.ma));
                                }
                            }
                        }
                    }
                }
                if interleaved && !replay {
                    lost_known = lost.len() as u64;
                    lost.clear();
                }
                if lost_known > 0 {
                    out.count_n("known:K-c18-interleaved-flush-loses-peers:addresses-lost", lost_known);
                }
                orc_jobs.push(Box::new(move |o, c| {
                    if !ok {
                        o.fail("flush-ok", "sync_and_flush_to_disk returned an error".into());
                    }
                    let after = match &raw_after {
                        RawFile::Data(d) => d.clone(),
                        _ => {
                            o.fail("file-loadable", format!("after a flush the file is {}", raw_after.show()));
                            return;
                        }
                    };
                    for l in lost {
                        o.fail("merge-keeps-file", l);
                    }
                    if !with_cleanup {
                        for (p, l) in &mem_before {
                            for a in l {
                                if !after.get(p).map(|x| x.iter().any(|y| y.ma == a.ma)).unwrap_or(false) {
                                    o.fail("merge-keeps-memory", format!("peer {p} address {} was in memory before the merge and is not in the file after it", a.ma));
                                }
                            }
                        }
                    } else {
                        o.cleaned("file after flush with clean-up", &after, c);
                        o.bounds("file after flush with clean-up", &after, after.len(), c);
                    }
                    o.wellformed("file after flush", &after, c);
                }));
                outl
            }
            ["write", s] => {
                let i: usize = s.parse().unwrap();
                if case.busy(i) {
                    return "busy".into();
                }
                let r = case.stores[i].write();
                let raw = read_raw(&case.path);
                let saved = case.mem(i);
                let loaded = case.load();
                let ok = r.is_ok();
                let shown = raw.show();
                orc_jobs.push(Box::new(move |o, c| {
                    if !ok {
                        o.fail("write-ok", "write returned an error".into());
                    }
                    // save then load: same peers and addresses apart from those clean-up removes
                    let Some(loaded) = loaded else {
                        o.fail("save-load", "load_cache_data fails right after write".into());
                        return;
                    };
                    if is_clean(&saved, c) && loaded != saved {
                        o.fail("save-load", format!("saved {} (nothing for clean-up to remove) but loaded {}", show_cache(&saved), show_cache(&loaded)));
                    }
                    for (p, l) in &loaded {
                        for a in l {
                            if !saved.get(p).map(|sl| sl.contains(a)).unwrap_or(false) {
                                o.fail("save-load", format!("loaded peer {p} address {:?} was not saved like that", a));
                            }
                        }
                    }
                    let over_peers = saved.len() > c.max_peers;
                    for (p, l) in &saved {
                        let over = l.len() > c.max_addrs;
                        for a in l {
                            let removable = a.fail > a.succ || a.seen > c.now || c.now - a.seen >= c.expiry || over || over_peers;
                            if !removable && !loaded.get(p).map(|ll| ll.contains(a)).unwrap_or(false) {
                                o.fail("save-load", format!("saved peer {p} address {:?} is fresh, reliable and within limits but was not loaded back", a));
                            }
                        }
                    }
                }));
                format!("f={shown}")
            }
            ["load"] => {
                let raw = read_raw(&case.path);
                let l = case.load();
                match l {
                    Some(c) => {
                        let ev: BTreeSet<u64> = raw.peers().difference(&keyset(&c)).cloned().collect();
                        full = format!("{full} {}", show_choice(&ev));
                        if let RawFile::Data(rc) = &raw {
                            let n_raw: usize = rc.values().map(|l| l.len()).sum();
                            let n_l: usize = c.values().map(|l| l.len()).sum();
                            if n_l < n_raw {
                                out.count("load:cleanup-removed-something");
                            }
                            if rc.len() > case.max_peers {
                                out.count("load:evicts-peers");
                            }
                            if case.ties {
                                out.count("load:eviction-ties");
                            }
                        }
                        let c2 = c.clone();
                        orc_jobs.push(Box::new(move |o, cs| {
                            o.cleaned("load_cache_data result", &c2, cs);
                            o.bounds("load_cache_data result", &c2, c2.len(), cs);
                        }));
                        format!("ok {}", show_cache(&c))
                    }
                    None => {
                        full = format!("{full} e:-");
                        "err".into()
                    }
                }
            }
            ["lupd", m, b] => {
                // `BootstrapAddresses::update_addr_status` on loaded data (reaches the counter overflow branches)
                let ma = ma_from_tok(m).expect("ma");
                let raw = read_raw(&case.path);
                match BootstrapCacheStore::load_cache_data(&case.cfg()) {
                    Ok(mut d) => {
                        let loaded: BTreeSet<u64> = d.peers.keys().map(peer_num).collect();
                        let ev: BTreeSet<u64> = raw.peers().difference(&loaded).cloned().collect();
                        full = format!("{full} {}", show_choice(&ev));
                        if let Some(pid) = ma.iter().find_map(|p| if let Protocol::P2p(id) = p { Some(id) } else { None }) {
                            if let Some(addrs) = d.peers.get_mut(&pid) {
                                addrs.update_addr_status(&ma, *b != "0");
                            }
                        }
                        let mut c = Cache::new();
                        for (pid, addrs) in d.peers.iter() {
                            c.insert(
                                peer_num(pid),
                                addrs.0.iter().map(|a| A { ma: ma_to_tok(&a.addr), succ: a.success_count as u64, fail: a.failure_count as u64, seen: from_system_time(a.last_seen) }).collect(),
                            );
                        }
                        format!("ok {}", show_cache(&c))
                    }
                    Err(_) => {
                        full = format!("{full} e:-");
                        "err".into()
                    }
                }
            }
            ["start", fl, cnt, as_, ev] => {
                // the start-up path: PeersArgs::get_bootstrap_addr over the shared cache file in whatever state it is
                let has = |c: char| fl.contains(c);
                let addrs: Vec<Multiaddr> = if *as_ == "-" { vec![] } else { as_.split('+').map(|t| ma_from_tok(t).expect("ma")).collect() };
                let env: Option<String> = if *ev == "-" { None } else { Some(ev.split('+').map(|t| ma_from_tok(t).expect("ma").to_string()).collect::<Vec<_>>().join(",")) };
                let count: Option<usize> = if *cnt == "-" { None } else { Some(cnt.parse().unwrap()) };
                let n_args = addrs.iter().filter(|a| craft_valid_multiaddr(a, false).is_some()).count();
                let args = PeersArgs {
                    first: has('f'),
                    addrs,
                    network_contacts_url: vec![],
                    local: has('l'),
                    disable_mainnet_contacts: true,
                    ignore_cache: has('i'),
                    // D = a regular file, U = cannot be created, M = missing but creatable (then holds no cache file)
                    bootstrap_cache_dir: if has('D') {
                        Some(case.decoy.clone())
                    } else if has('U') {
                        Some(case.decoy.join("sub"))
                    } else if has('M') {
                        let _ = std::fs::remove_dir_all(case.dir.join("fresh-dir"));
                        Some(case.dir.join("fresh-dir"))
                    } else if has('d') {
                        Some(case.dir.clone())
                    } else {
                        None
                    },
                };
                let config = if has('d') || has('D') || has('U') || has('M') { case.cfg().with_cache_path(&case.decoy) } else { case.cfg() };
                let raw = if has('M') { RawFile::Absent } else { read_raw(&case.path) };
                let (outl, res) = call_startup(&args, &config, count, &env);
                let _ = std::fs::remove_dir_all(case.dir.join("fresh-dir"));
                // the same call with the cache file out of the way
                let hidden = case.dir.join("hidden-cache-file");
                let moved = std::fs::rename(&case.path, &hidden).is_ok();
                let (out0, _) = call_startup(&args, &config, count, &env);
                let _ = std::fs::remove_dir_all(case.dir.join("fresh-dir"));
                if moved {
                    std::fs::rename(&hidden, &case.path).expect("put the cache file back");
                }
                // witnesses: which cache peers the result shows, in the implementation's order
                let mut ord: Vec<u64> = vec![];
                if let RawFile::Data(rc) = &raw {
                    for a in res.iter().skip(n_args) {
                        if let Some((k, _)) = rc.iter().find(|(k, l)| !ord.contains(k) && l.contains(a)) {
                            ord.push(*k);
                        }
                    }
                }
                let ev_set: BTreeSet<u64> = raw.peers().into_iter().filter(|p| !ord.contains(p)).collect();
                let o = if ord.is_empty() { "o:-".to_string() } else { format!("o:{}", ord.iter().map(|x| x.to_string()).collect::<Vec<_>>().join(",")) };
                full = format!("{full} {o} {} h:{}", show_choice(&ev_set), fnv64(&outl));
                let unparsable = !matches!(raw, RawFile::Data(_));
                out.count(&format!("start:{}:{}", match raw { RawFile::Absent => "no-file", RawFile::Garbage => "corrupt-file", RawFile::Data(_) => "cache-file" }, outl.split(' ').take(2).collect::<Vec<_>>().join("-").chars().take(10).collect::<String>()));
                let (o1, o0) = (outl.clone(), out0);
                orc_jobs.push(Box::new(move |o, _| {
                    if o0.starts_with("ok") && !o1.starts_with("ok") {
                        o.fail("startup-ignores-cache", format!("get_bootstrap_addr gives `{o1}` although the same call with no cache file gives `{o0}`"));
                    }
                    if unparsable && o1 != o0 {
                        o.fail("startup-ignores-cache", format!("over a missing or unparsable cache file get_bootstrap_addr gives `{o1}`, with no cache file `{o0}`"));
                    }
                }));
                outl
            }
            ["file", c] => {
                let c = parse_cache(c).expect("cache syntax");
                let wf = c.iter().all(|(p, l)| l.iter().all(|a| dialable_with_peer(&a.ma) == Some(*p)) && {
                    let mut seen = BTreeSet::new();
                    l.iter().all(|a| seen.insert(a.ma.clone()))
                });
                if !wf {
                    case.tainted = true;
                    out.count("file:undialable-content");
                }
                // equal per-peer latest timestamps => eviction ties
                let mut latest = BTreeSet::new();
                for l in c.values() {
                    let t = l.iter().map(|a| a.seen).max().unwrap_or(0);
                    if !latest.insert(t) {
                        case.ties = true;
                    }
                }
                std::fs::write(&case.path, cache_to_json(&c, case.now)).expect("write crafted");
                format!("f={}", read_raw(&case.path).show())
            }
            ["corrupt", k] => {
                let k: u64 = k.parse().unwrap();
                let good = cache_to_json(&parse_cache("1=i4:1,u:1,q,p:1;1;0;999999").unwrap(), case.now);
                match k {
                    0 => std::fs::write(&case.path, b"").unwrap(),
                    1 => std::fs::write(&case.path, Rng::new(case.now).bytes(64)).unwrap(),
                    2 => std::fs::write(&case.path, &good.as_bytes()[..good.len() / 2]).unwrap(),
                    3 => std::fs::write(&case.path, br#"{"foo": 1, "peers": [1,2,3]}"#).unwrap(),
                    4 => std::fs::write(&case.path, [0xff, 0xfe, 0x80, b'{', b'}']).unwrap(),
                    5 => {
                        let _ = std::fs::remove_file(&case.path);
                    }
                    6 => std::fs::write(&case.path, good.replace("\"success_count\":1", "\"success_count\":4294967296")).unwrap(),
                    7 => std::fs::write(&case.path, good.replace("/ip4/10.0.0.1", "/ip4/10.0.0.999")).unwrap(),
                    _ => std::fs::write(&case.path, good.replace("\"network_version\"", "\"netwurk_version\"")).unwrap(),
                }
                let raw = read_raw(&case.path);
                let l = case.load();
                let shown = raw.show();
                let s2 = shown.clone();
                orc_jobs.push(Box::new(move |o, _| {
                    if l.is_some() {
                        o.fail("corrupt-ignored", format!("corrupt file kind {k} ({s2}) loads successfully"));
                    }
                }));
                format!("f={shown}")
            }
            ["craft", m] => {
                let ma = ma_from_tok(m).expect("ma");
                match craft_valid_multiaddr(&ma, false) {
                    Some(r) => {
                        let t = ma_to_tok(&r);
                        let t2 = t.clone();
                        orc_jobs.push(Box::new(move |o, _| {
                            if dialable_with_peer(&t2).is_none() {
                                o.fail("craft-dialable", format!("craft_valid_multiaddr returned {t2}"));
                            }
                        }));
                        format!("some {t}")
                    }
                    None => "none".into(),
                }
            }
            ["race", seed, writers, iters] => {
                let saved = FAKE_NOW.load(Ordering::SeqCst);
                let nw: u64 = writers.parse().unwrap();
                let (loads, bad, werrs, lost) = run_race(dir, seed.parse().unwrap(), nw, iters.parse().unwrap());
                out.count_n("known:K-c18-interleaved-flush-loses-peers:peers-lost-in-threaded-races", lost);
                FAKE_NOW.store(saved, Ordering::SeqCst);
                orc_jobs.push(Box::new(move |o, _| {
                    if bad > 0 {
                        o.fail("concurrent-file-loadable", format!("{bad} of {loads} load_cache_data calls failed while {nw} real stores were flushing to the same file"));
                    }
                    if werrs > 0 {
                        o.fail("concurrent-flush-ok", format!("{werrs} concurrent sync_and_flush_to_disk calls failed or panicked"));
                    }
                }));
                out.count_n("race:loads", loads);
                "race ok".into()
            }
            _ => "bad-op".into(),
        }
    }));
    *case.history.last_mut().unwrap() = full.clone();
    let outl = match res {
        Ok(s) => s,
        Err(_) => "panic".into(),
    };
    // oracle: clause-specific jobs, then the invariants on every store and on the shared file
    let hist = case.history.join(" ; ");
    let mut o = Oracle { out, hist };
    if outl == "panic" {
        o.fail("no-panic", format!("the implementation panicked on `{full}`"));
    }
    for j in orc_jobs {
        j(&mut o, case);
    }
    if w.first().map(|s| *s != "craft" && *s != "race").unwrap_or(false) && outl != "panic" {
        for i in 0..case.stores.len() {
            if case.busy(i) {
                continue;
            }
            let m = case.mem(i);
            let n = case.stores[i].peer_count();
            o.bounds(&format!("memory of store {i}"), &m, n, case);
            o.wellformed(&format!("memory of store {i}"), &m, case);
        }
        if std::fs::read_to_string(&case.decoy).ok() != Some(case.sentinel()) {
            o.fail("foreign-file-untouched", "a cache file outside the store's configured location was created, changed or removed".into());
            case.write_decoy();
        }
        let raw = read_raw(&case.path);
        let loaded = catch_unwind(AssertUnwindSafe(|| case.load()));
        match loaded {
            Err(_) => o.fail("no-panic", "load_cache_data panicked on the shared file".into()),
            Ok(l) => {
                match (&raw, &l) {
                    (RawFile::Data(_), None) => o.fail("file-loadable", "the file holds a cache but load_cache_data fails".into()),
                    (RawFile::Garbage, Some(_)) | (RawFile::Absent, Some(_)) => o.fail("corrupt-ignored", "load_cache_data succeeds on a missing or unparsable file".into()),
                    _ => {}
                }
                if let Some(c) = &l {
                    o.bounds("load_cache_data on the shared file", c, c.len(), case);
                    o.cleaned("load_cache_data on the shared file", c, case);
                    o.wellformed("load_cache_data on the shared file", c, case);
                }
                if let RawFile::Data(c) = &raw {
                    o.wellformed("the shared file", c, case);
                }
            }
        }
    }
    (full, outl)
}

// ---------------------------------------------------------------------------------------------
// generator
// ---------------------------------------------------------------------------------------------
fn gen_ma(rng: &mut Rng, peers: u64) -> String {
    let ip = rng.below(2);
    let port = rng.below(2);
    let p = rng.below(peers);
    let base = match rng.below(4) {
        0 => format!("i4:{ip},u:{port},q,p:{p}"),
        1 => format!("i4:{ip},u:{port},p:{p}"),
        2 => format!("i4:{ip},t:{port},p:{p}"),
        _ => format!("i4:{ip},t:{port},w,p:{p}"),
    };
    match rng.below(20) {
        0..=11 => base,
        12 => base.replace("i4:", if rng.chance(1, 2) { "i6:" } else { "d:" }),
        13 => base.rsplit_once(',').unwrap().0.to_string(), // no peer id
        14 => format!("{base},c,p:{}", rng.below(peers)),  // relay circuit address
        15 => {
            let mut v: Vec<&str> = base.split(',').collect();
            rng.shuffle(&mut v);
            v.join(",")
        }
        16 => format!("{base},x:{}", rng.below(OTHERS as u64)),
        17 => format!("x:{},{base}", rng.below(OTHERS as u64)),
        18 => format!("i4:{},{base},t:{},w,u:{},q", rng.below(3), rng.below(3), rng.below(3)),
        _ => match rng.below(4) {
            0 => "~".into(),
            1 => format!("p:{p}"),
            2 => format!("u:{port},q,p:{p}"),
            _ => format!("i4:{ip},p:{p}"),
        },
    }
}

fn gen_garbage_ma(rng: &mut Rng) -> String {
    let n = rng.below(7);
    if n == 0 {
        return "~".into();
    }
    let v: Vec<String> = (0..n)
        .map(|_| match rng.below(10) {
            0 => format!("i4:{}", rng.below(3)),
            1 => format!("i6:{}", rng.below(3)),
            2 => format!("d:{}", rng.below(3)),
            3 => format!("u:{}", rng.below(3)),
            4 => format!("t:{}", rng.below(3)),
            5 => "q".into(),
            6 => "w".into(),
            7 => format!("p:{}", rng.below(4)),
            8 => "c".into(),
            _ => format!("x:{}", rng.below(OTHERS as u64)),
        })
        .collect();
    v.join(",")
}

fn canonical_ma(rng: &mut Rng, p: u64) -> String {
    let ip = rng.below(2);
    let port = rng.below(2);
    match rng.below(4) {
        0 => format!("i4:{ip},u:{port},q,p:{p}"),
        1 => format!("i4:{ip},u:{port},p:{p}"),
        2 => format!("i4:{ip},t:{port},p:{p}"),
        _ => format!("i4:{ip},t:{port},w,p:{p}"),
    }
}

/// a crafted cache file in canonical syntax. wf: dialable shapes under the right key, no duplicates.
/// Unless `ties`, every peer gets a distinct odd latest timestamp (store timestamps are even); ties can still
/// arise after clean-up drops a peer's latest address, so eviction ties occur in any case and are resolved by
/// the `e:` / `h:` choice witnesses.
fn gen_file(rng: &mut Rng, case: &mut Case, peers: u64, wf: bool, ties: bool) -> String {
    let np = rng.range(1, (case.max_peers as u64 + 2).min(peers));
    let mut ids: Vec<u64> = (0..peers).collect();
    rng.shuffle(&mut ids);
    let mut c = Cache::new();
    let tie_t = case.now.saturating_sub(rng.below(case.expiry.min(50) + 1));
    for &p in ids.iter().take(np as usize) {
        let na = rng.range(1, case.max_addrs as u64 + 2);
        // the peer's latest timestamp
        let mut latest = if ties {
            tie_t
        } else {
            let mut t;
            let mut tries = 0;
            loop {
                t = match rng.below(8) {
                    0 if rng.chance(1, 4) => (i64::MAX as u64 - BASE as u64) - rng.below(2 * case.expiry + 2), // near the end of time
                    0 => case.now + 1 + 2 * rng.below(5),                          // in the future
                    1 => case.now.saturating_sub(case.expiry + 1 - (case.expiry % 2)), // just expired (odd offset)
                    _ => case.now.saturating_sub(1 + 2 * rng.below(case.expiry.min(40) / 2 + 2)),
                };
                if t % 2 == 0 {
                    t += 1;
                }
                tries += 1;
                if tries > 30 {
                    // every candidate is taken: walk down to the first unused odd timestamp
                    while case.used_odd.contains(&t) && t > 2 {
                        t -= 2;
                    }
                }
                if case.used_odd.insert(t) {
                    break;
                }
            }
            t
        };
        if latest == 0 {
            latest = 1;
        }
        let mut l: Vec<A> = vec![];
        let mut tries = 0;
        while (l.len() as u64) < na && tries < 20 {
            tries += 1;
            let ma = if wf { canonical_ma(rng, p) } else if rng.chance(1, 2) { gen_garbage_ma(rng) } else { { let q = rng.below(peers); canonical_ma(rng, q) } };
            if wf && l.iter().any(|a| a.ma == ma) {
                continue;
            }
            let (succ, fail) = match rng.below(10) {
                0 => (u32::MAX as u64, rng.below(3)),
                1 => (u32::MAX as u64 - rng.below(3), u32::MAX as u64 - rng.below(3)),
                2 => (rng.below(3), u32::MAX as u64),
                3 => (0, 0),
                4 => (0, rng.range(1, 3)),
                _ => (rng.below(6), rng.below(6)),
            };
            let seen = if l.is_empty() { latest } else { latest.saturating_sub(rng.below(case.expiry + 3)) };
            l.push(A { ma, succ, fail, seen });
        }
        c.insert(p, l);
    }
    show_cache(&c)
}

fn gen_case(rng: &mut Rng, case: &mut Case, dir: &PathBuf, out: &mut Out, budget: &mut i64) {
    let peers = 6u64;
    let p = *rng.pick(&[0u64, 1, 2, 2, 3, 3, 4, 5, 1500]);
    let a = *rng.pick(&[0u64, 1, 1, 2, 2, 3, 6]);
    let e = *rng.pick(&[6u64, 20, 40, 100, 86400]);
    let n = rng.range(1, 3);
    let mut run = |case: &mut Case, l: String, out: &mut Out, budget: &mut i64| {
        let (full, r) = exec(case, dir, &l, out);
        let op = full.split_whitespace().next().unwrap_or("").to_string();
        let class = if r == "err" || r == "panic" || r == "none" { r.clone() } else { "ok".into() };
        out.count(&format!("{op}:{class}"));
        out.line(full, r);
        *budget -= 1;
    };
    run(case, format!("cfg {p} {a} {e} {n}"), out, budget);
    let kind = rng.below(10);
    if kind == 0 {
        // eviction ties: crafted file with equal timestamps, loads only
        let f = gen_file(rng, case, peers, true, true);
        run(case, format!("file {f}"), out, budget);
        for _ in 0..3 {
            if rng.chance(1, 4) {
                // start-up over a file with eviction ties, result cut to `count`
                run(case, format!("start - {} - -", *rng.pick(&["-", "1", "2"])), out, budget);
            } else if rng.chance(1, 2) {
                run(case, "load".into(), out, budget);
            } else {
                run(case, format!("lupd {} {}", { let q = rng.below(peers); canonical_ma(rng, q) }, rng.below(2)), out, budget);
            }
            run(case, format!("tick {}", 2 * rng.range(1, 3)), out, budget);
        }
        return;
    }
    for st in 0..n {
        if rng.chance(1, 3) {
            let mode = *rng.pick(&["d", "d", "d", "df", "dl", "di", "c", "cf", "dfl", "n"]);
            run(case, format!("mk {st} {mode}"), out, budget);
        }
    }
    let len = rng.range(6, 30);
    let mut last_write_corrupt = false;
    for _ in 0..len {
        let s = rng.below(n);
        if rng.chance(1, 9) {
            // round-6 families: failing writes, interleaved flushes (two stores / a foreign writer in between), the periodic
            // save of driver.rs (also with overlapping spawned flushes), unusable cache-directory arguments
            let t = (s + 1 + rng.below(n.max(2) - 1)) % n.max(1);
            let addp = |rng: &mut Rng| format!("i4:{},u:{},q,p:{}", rng.below(2), rng.below(2), rng.below(peers));
            match rng.below(10) {
                0 | 1 => {
                    if rng.chance(1, 2) {
                        run(case, format!("tick {}", 2 * rng.range(1, 2)), out, budget);
                        run(case, format!("add {s} {}", addp(rng)), out, budget);
                    }
                    if rng.chance(1, 4) {
                        run(case, format!("wfault {s}"), out, budget);
                    } else {
                        run(case, format!("ffault {s} {}", rng.below(2)), out, budget);
                    }
                    if rng.chance(1, 2) {
                        run(case, format!("flush {s} {}", rng.below(2)), out, budget);
                    }
                }
                2..=5 => {
                    // store s is stopped between the halves of its flush while others act
                    let ws = rng.below(2);
                    run(case, format!("tick {}", 2 * rng.range(1, 2)), out, budget);
                    run(case, format!("add {s} {}", addp(rng)), out, budget);
                    run(case, format!("fbegin {s} {ws}"), out, budget);
                    let mut open_t: Option<u64> = None;
                    for _ in 0..rng.range(1, 3) {
                        if n >= 2 && rng.chance(3, 4) {
                            if open_t.is_some() {
                                continue;
                            }
                            run(case, format!("tick {}", 2 * rng.range(1, 2)), out, budget);
                            run(case, format!("add {t} {}", addp(rng)), out, budget);
                            match rng.below(4) {
                                0 => run(case, format!("write {t}"), out, budget),
                                1 => {
                                    let wt = rng.below(2);
                                    run(case, format!("fbegin {t} {wt}"), out, budget);
                                    open_t = Some(wt);
                                }
                                _ => run(case, format!("flush {t} {}", rng.below(2)), out, budget),
                            }
                        } else if rng.chance(1, 2) {
                            let f = gen_file(rng, case, peers, true, false);
                            run(case, format!("file {f}"), out, budget);
                        } else {
                            run(case, format!("tick {}", 2 * *rng.pick(&[1u64, 2, e / 2 + 1])), out, budget);
                        }
                    }
                    if let (Some(wt), true) = (open_t, rng.chance(1, 2)) {
                        run(case, format!("fend {t} {wt}"), out, budget);
                        open_t = None;
                    }
                    run(case, format!("fend {s} {ws}"), out, budget);
                    if let Some(wt) = open_t {
                        run(case, format!("fend {t} {wt}"), out, budget);
                    }
                    run(case, "load".into(), out, budget);
                }
                6 | 7 if n >= 2 => {
                    // periodic save: swap, then the spawned flush (succeeds / fails / overlaps the next one)
                    run(case, format!("tick {}", 2 * rng.range(1, 2)), out, budget);
                    run(case, format!("add {s} {}", addp(rng)), out, budget);
                    run(case, format!("pswap {s} {t}"), out, budget);
                    match rng.below(4) {
                        0 => run(case, format!("ffault {t} 1"), out, budget),
                        1 if n >= 3 => {
                            let u = (0..n).find(|x| *x != s && *x != t).unwrap();
                            run(case, format!("fbegin {t} 1"), out, budget);
                            run(case, format!("tick {}", 2 * rng.range(1, 2)), out, budget);
                            run(case, format!("add {s} {}", addp(rng)), out, budget);
                            run(case, format!("pswap {s} {u}"), out, budget);
                            run(case, format!("fbegin {u} 1"), out, budget);
                            if rng.chance(1, 2) {
                                run(case, format!("fend {t} 1"), out, budget);
                                run(case, format!("fend {u} 1"), out, budget);
                            } else {
                                run(case, format!("fend {u} 1"), out, budget);
                                run(case, format!("fend {t} 1"), out, budget);
                            }
                        }
                        _ => run(case, format!("flush {t} 1"), out, budget),
                    }
                    run(case, "load".into(), out, budget);
                }
                8 => {
                    let mode = *rng.pick(&["D", "U", "Df", "Ul", "Dl", "Uf"]);
                    run(case, format!("mk {s} {mode}"), out, budget);
                }
                _ => {
                    let fl = *rng.pick(&["D", "U", "M", "Di", "Uf", "Ml", "D", "U", "M"]);
                    let cnt = *rng.pick(&["-", "-", "0", "1", "2"]);
                    let na = *rng.pick(&[0u64, 1, 1, 2]);
                    let args: Vec<String> = (0..na).map(|_| gen_ma(rng, peers)).collect();
                    let j = |v: &Vec<String>| if v.is_empty() { "-".to_string() } else { v.join("+") };
                    run(case, format!("start {fl} {cnt} {} -", j(&args)), out, budget);
                }
            }
            continue;
        }
        match rng.below(100) {
            0..=34 => {
                run(case, format!("tick {}", 2 * *rng.pick(&[1u64, 1, 1, 2, 3, e / 2 + 1])), out, budget);
                let in_file: Vec<String> = match read_raw(&case.path) {
                    RawFile::Data(c) => c.values().flat_map(|l| l.iter().map(|a| a.ma.clone())).collect(),
                    _ => vec![],
                };
                let ma = if !in_file.is_empty() && rng.chance(1, 4) { rng.pick(&in_file).clone() } else { gen_ma(rng, peers) };
                run(case, format!("add {s} {ma}"), out, budget);
            }
            35..=49 => {
                run(case, format!("tick {}", 2 * rng.range(1, 2)), out, budget);
                // mostly an address this store holds
                let mem = case.mem(s as usize);
                let all: Vec<String> = mem.values().flat_map(|l| l.iter().map(|a| a.ma.clone())).collect();
                if all.is_empty() && rng.chance(3, 4) {
                    run(case, format!("add {s} {}", gen_ma(rng, peers)), out, budget);
                } else {
                    let ma = if !all.is_empty() && rng.chance(5, 6) { rng.pick(&all).clone() } else { gen_ma(rng, peers) };
                    run(case, format!("upd {s} {ma} {}", if rng.chance(2, 5) { 1 } else { 0 }), out, budget);
                }
            }
            50..=55 => run(case, format!("clean {s}"), out, budget),
            56..=66 => {
                run(case, format!("flush {s} {}", if rng.chance(3, 4) { 1 } else { 0 }), out, budget);
                last_write_corrupt = false;
            }
            67..=75 => {
                run(case, format!("write {s}"), out, budget);
                last_write_corrupt = false;
            }
            79..=81 => run(case, "load".into(), out, budget),
            82..=85 => {
                let wf = rng.chance(4, 5);
                let f = gen_file(rng, case, peers, wf, false);
                run(case, format!("file {f}"), out, budget);
                last_write_corrupt = false;
            }
            86..=89 => {
                run(case, format!("corrupt {}", rng.below(9)), out, budget);
                last_write_corrupt = true;
            }
            90..=92 => run(case, format!("lupd {} {}", { let q = rng.below(peers); canonical_ma(rng, q) }, rng.below(2)), out, budget),
            93..=95 => run(case, format!("tick {}", 2 * *rng.pick(&[1u64, e / 2, e / 2 + 1, e])), out, budget),
            76..=78 => {
                let fl = *rng.pick(&["-", "-", "-", "-", "d", "d", "i", "f", "l", "di", "fl"]);
                let cnt = *rng.pick(&["-", "-", "-", "0", "1", "2", "5"]);
                let na = *rng.pick(&[0u64, 0, 1, 1, 2]);
                let args: Vec<String> = (0..na).map(|_| gen_ma(rng, peers)).collect();
                let env: Vec<String> = if rng.chance(1, 6) { (0..rng.range(1, 2)).map(|_| gen_ma(rng, peers)).collect() } else { vec![] };
                let j = |v: &Vec<String>| if v.is_empty() { "-".to_string() } else { v.join("+") };
                run(case, format!("start {fl} {cnt} {} {}", j(&args), j(&env)), out, budget);
            }
            96 => {
                let mode = *rng.pick(&["d", "df", "dl", "c", "n", "di"]);
                run(case, format!("mk {s} {mode}"), out, budget);
            }
            _ => run(case, format!("craft {}", if rng.chance(1, 2) { gen_garbage_ma(rng) } else { gen_ma(rng, peers) }), out, budget),
        }
    }
    let _ = last_write_corrupt;
    out.nontrivial_case(&case.history.join(";"));
}

fn main() {
    let args = &common::parse_args();
    let mut out = Out::new(&args.out);
    std::panic::set_hook(Box::new(|_| {}));
    // the virtual clock must be in effect
    set_now(T0 + 12345);
    let t = from_system_time(SystemTime::now());
    if t != T0 + 12345 {
        eprintln!("virtual clock not in effect (SystemTime::now gives model time {t})");
        std::process::exit(3);
    }
    // process-unique scratch dir: checks of the same property may run concurrently with the same --out
    let dir = std::env::temp_dir().join(format!("verif-c18-bootcache-{}", std::process::id()));
    let _ = std::fs::remove_dir_all(&dir);
    std::fs::create_dir_all(&dir).expect("tmp dir");
    let mut case = Case {
        max_peers: 1500,
        max_addrs: 6,
        expiry: 86400,
        now: T0,
        path: dir.join(ant_bootstrap::config::cache_file_name()),
        stores: vec![],
        disabled: vec![false],
        dir: dir.clone(),
        decoy: dir.join("elsewhere").join("decoy_cache.json"),
        tainted: false,
        ties: false,
        history: vec![],
        used_odd: BTreeSet::new(),
        inflight: vec![None],
        replay: args.replay.is_some(),
    };
    set_now(T0);
    case.write_decoy();
    case.stores = vec![BootstrapCacheStore::new(case.cfg()).expect("store")];
    if let Some(p) = &args.replay {
        for l in common::read_lines(p) {
            let (full, r) = exec(&mut case, &dir, &l, &mut out);
            out.count(&format!("{}:replay", full.split_whitespace().next().unwrap_or("")));
            out.nontrivial_case(&full);
            out.line(full, r);
        }
    } else {
        let mut rng = Rng::new(args.seed);
        // corpus: fixed cases exercising each clause once
        let corpus: &[&str] = &[
            "cfg 2 2 100 2", "tick 2", "add 0 i4:1,u:1,q,p:1", "tick 2", "add 0 i4:1,u:1,q,p:2", "tick 2", "add 0 i4:1,u:1,q,p:3",
            "tick 2", "add 0 i4:2,t:1,w,p:3", "tick 2", "add 0 i4:2,t:2,p:3", "upd 0 i4:2,t:2,p:3 0", "upd 0 i4:2,t:2,p:3 0", "clean 0",
            "flush 0 0", "tick 2", "add 1 i4:1,u:1,q,p:4", "flush 1 0", "load", "flush 1 1", "tick 100", "load",
            "cfg 3 2 50 1", "file 1=i4:1,u:1,q,p:1;4294967295;1;999999+i4:1,u:2,q,p:1;4294967294;0;999997+i4:1,t:2,p:1;5;4294967295;999995", "load", "lupd i4:1,u:2,q,p:1 1",
            "tick 2", "add 0 i4:1,u:1,q,p:1", "flush 0 0", "load", "corrupt 2", "load", "flush 0 1", "load",
            // eviction tie inside the flush's own load_cache_data (peers 0 and 5 equally old, peer 5 also in memory):
            // the implementation may drop either one before the merge; both outcomes are legal (found by thorough seed 1)
            "cfg 1 6 20 1", "tick 2", "add 0 i4:0,t:1,w,p:5", "file 0=i4:0,t:1,p:0;5;4;1000001|5=i4:1,t:1,p:5;7;7;1000001", "flush 0 1", "load",
            "cfg 1 6 20 1", "tick 2", "add 0 i4:0,t:1,w,p:5", "file 0=i4:0,t:1,p:0;5;4;1000001|5=i4:1,t:1,p:5;7;7;1000001", "flush 0 0", "load",
            // stores built through new_from_peers_args: bootstrap_cache_dir wins over the config's own path for load,
            // merge AND write (seeded change m2 wrote to the stale path); `first` clears the file; `local` disables flushes
            "cfg 3 3 100 3", "mk 0 d", "tick 2", "add 0 i4:1,u:1,q,p:1", "flush 0 1", "load", "tick 2", "add 1 i4:1,u:1,q,p:2", "flush 1 0", "load",
            "mk 2 dl", "tick 2", "add 2 i4:1,u:1,q,p:3", "flush 2 1", "write 2", "load", "mk 1 df", "load", "mk 0 c", "tick 2", "add 0 i4:0,t:1,p:4", "flush 0 0", "load",
            // start-up (PeersArgs::get_bootstrap_addr) over a valid, an empty, a foreign and a missing cache file
            // (seeded change r3m1 returned the parse error to the caller)
            "cfg 3 3 100 1", "tick 2", "add 0 i4:1,u:1,q,p:1", "flush 0 1", "start - - i4:1,u:1,q,p:7 -", "start d 1 - -",
            "corrupt 0", "start - - i4:1,u:1,q,p:7 -", "start d - i4:1,u:1,q,p:7 -", "corrupt 3", "start - 5 i4:1,u:1,q,p:7 -", "start - - - -",
            "start i - - -", "start - - - i4:1,u:1,q,p:8", "start f - - -", "start l - i4:1,u:1,q,p:7 -", "corrupt 5", "start - - i4:1,u:1,q,p:7 -",
            // a foreign file of valid structure with hostile values: last_seen at / near the largest second count serde
            // accepts (i64::MAX), i.e. within one expiry period of the end of time (seeded change r5m1 added the expiry
            // period to last_seen unchecked): such an address is simply in the future, hence dropped as expired
            "cfg 3 2 86400 1", "tick 2",
            "file 1=i4:1,u:1,q,p:1;1;0;9223372035155775807+i4:1,u:2,q,p:1;1;0;999999|2=i4:1,u:1,q,p:2;1;0;9223372035155689408", "load",
            "add 0 i4:1,u:1,q,p:3", "flush 0 1", "load", "start - - - -",
            "file 1=i4:1,u:1,q,p:1;4294967295;4294967295;9223372035155775806", "load", "flush 0 0", "load",
            // a save during which every write fails (disk full): reported, and the good file stays (seeded change r5m2
            // buffered the output and dropped the flush error before the atomic commit)
            "cfg 3 3 100 1", "tick 2", "add 0 i4:1,u:1,q,p:1", "flush 0 0", "load", "tick 2", "add 0 i4:1,u:1,q,p:2", "wfault 0", "load",
            "ffault 0", "load", "flush 0 0", "load",
            // a failed flush leaves the store's memory as it was (audit C18-2: the merge memory ∪ file stayed behind — two
            // peers in a store limited to one — and was merged with the file again by the next attempt)
            "cfg 1 2 100 1", "tick 2", "add 0 i4:1,u:1,q,p:1", "flush 0 0", "tick 2", "add 0 i4:1,u:1,q,p:2", "ffault 0 0", "wfault 0", "flush 0 0", "load",
            "cfg 3 3 100 1", "tick 2", "add 0 i4:1,u:1,q,p:1", "flush 0 0", "tick 2", "add 0 i4:1,u:1,q,p:1", "ffault 0 1", "flush 0 1", "load",
            // a flush stopped between its halves while nothing else writes: same as an uninterrupted flush
            "cfg 5 3 100 2", "tick 2", "add 0 i4:1,u:1,q,p:1", "flush 0 0", "tick 2", "add 0 i4:1,u:1,q,p:2", "fbegin 0 0", "tick 2", "add 1 i4:1,u:1,q,p:3", "fend 0 0", "load",
            // the periodic save of driver.rs: swap, spawned flush with clean-up; a failing one (only logged: the interval's peers
            // are dropped with the task's store)
            "cfg 5 3 100 2", "tick 2", "add 0 i4:1,u:1,q,p:1", "pswap 0 1", "flush 1 1", "tick 2", "add 0 i4:1,u:1,q,p:2", "pswap 0 1", "ffault 1 1", "pswap 0 1", "flush 1 1", "load",
            // an unusable --bootstrap-cache-dir: refused at store construction and at the cache step of get_bootstrap_addr
            "cfg 3 3 100 1", "tick 2", "add 0 i4:1,u:1,q,p:1", "flush 0 1", "mk 0 D", "mk 0 Uf", "start D - i4:1,u:1,q,p:7 -", "start U 5 - -", "start M - i4:1,u:1,q,p:7 -",
            "start Di - i4:1,u:1,q,p:7 -", "start D 1 i4:1,u:1,q,p:7 -", "load",
            "cfg 50 6 86400 3", "race 1 3 40",
        ];
        let mut budget = args.n as i64;
        for l in corpus {
            let (full, r) = exec(&mut case, &dir, l, &mut out);
            out.count(&format!("{}:corpus", full.split_whitespace().next().unwrap_or("")));
            out.line(full, r);
        }
        let mut cases = 0u64;
        while budget > 0 {
            gen_case(&mut rng, &mut case, &dir, &mut out, &mut budget);
            cases += 1;
            if cases % 150 == 0 {
                let l = format!("race {} {} {}", rng.below(1000), rng.range(2, 4), 30);
                let (full, r) = exec(&mut case, &dir, "cfg 50 6 86400 1", &mut out);
                out.line(full, r);
                let (full, r) = exec(&mut case, &dir, &l, &mut out);
                out.count("race:ok");
                out.line(full, r);
            }
        }
        out.count_n("cases", cases);
    }
    out.notes.push("time is virtual: clock_gettime(CLOCK_REALTIME) is defined by the harness binary (frozen seconds, `tick d`)".into());
    let _ = std::fs::remove_dir_all(&dir);
    out.finish();
}
