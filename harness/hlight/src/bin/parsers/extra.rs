//! C17, coverage round 2 (protocol / bootstrap / evm side): text taken from the environment, from HTTP responses and
//! from files by ant-bootstrap, evmlib, nat-detection and the metrics tool.
//!   antpeers <b> <tp>         PeersArgs::read_addr_from_env() with ANT_PEERS = <b> (raw bytes; non-UTF-8 is passed as an OsString);
//!                             tp = per comma-separated item `err` | `empty` | protocol tags, joined by `;` (multiaddr's parser, called directly),
//!                             or `na` for a non-UTF-8 value -> ok <n> <tags of crafted addr>|… | panic
//!   contacts <0|1> <b> <tp>   ContactsFetcher::fetch_addrs() against a loopback HTTP endpoint answering 200 with body <b>
//!                             (reaches the private try_parse_response): tp = json:<0|1 network version matches>:<peers s:f,…|…>
//!                             (serde_json into the mirror struct) or lines:<tp>;<tp>… per line -> ok <n> | err | panic
//!   evmenv <s> <s> <s> <tp>   get_evm_network_from_env() with RPC_URL / PAYMENT_TOKEN_ADDRESS / DATA_PAYMENTS_ADDRESS set and EVM_NETWORK unset;
//!                             tp = three bits: url::Url::parse / Address::from_str verdicts -> ok custom | err | panic
//!   evmcsv <b> <tp>           get_evm_network_from_env() with EVM_NETWORK=local and the local testnet CSV file holding <b>;
//!                             tp = na (not UTF-8) | per comma-separated part two bits (valid URL, valid address) joined by `,` -> ok custom | err | panic
//!   evmcustom <s> <s> <s> <tp>  EvmNetwork::new_custom (the `evm-custom` sub-command arguments of antnode / antctl) -> ok custom | panic   (known finding K-u)
//!   evmget <s> <s> <s> <tp>   evmlib::utils::get_evm_network (the wasm binding's way to the same `CustomNetwork::new`) -> ok custom | panic   (K-u, second entry)
//!   atto <s>                  AttoTokens::from_str -> ok <atto, decimal> | err units|remainder|loss|excessive | panic
//!                             (an intermediate value that wraps is an overflow: the oracle recomputes the amount with big integers)
//!   natpeer <s> <tp>          nat-detection's SERVER value parser `parse_peer_addr` (bin-private: source text compiled in by the build script);
//!                             tp = sock | ma | err (SocketAddrV4 / Multiaddr parsers called directly) -> ok | err | panic
//!   metricslog <b> <tp>       the metrics tool's `get_metric_servers` (bin-private, compiled in likewise) on a directory whose antnode.log holds <b>;
//!                             tp = per matching line, in order: `n` node-id line, `u1`/`u0` metrics-server line whose URL parses / does not,
//!                             `nu1`/`nu0` both on one line; up to the first non-UTF-8 line (`-` = none) -> ok <n urls> | err | panic
//!   promcfg <s> <tp>          the metrics tool's whole pipeline on a log holding a node-id line and `Metrics server on <s>`:
//!                             `get_metric_servers`, then `build_prometheus_config` (the consumer of the accepted URL);
//!                             tp = bad | port | dflt | none (url crate called directly: unparsable / explicit port / only the
//!                             scheme's default port / no port at all) -> ok <n scrape targets> | err | panic
use common::{hex, unhex, Out, Rng};
use libp2p::multiaddr::Protocol;
use libp2p::Multiaddr;
use std::io::{Read, Write};
use std::path::Path;
use std::sync::{Arc, Mutex, OnceLock};

#[allow(dead_code)]
mod natdetection {
    use libp2p::multiaddr::Protocol;
    use libp2p::Multiaddr;
    include!(concat!(env!("OUT_DIR"), "/natdetection_parse_peer_addr.rs"));
    pub fn call(s: &str) -> Result<Multiaddr, &'static str> {
        parse_peer_addr(s)
    }
}

#[allow(dead_code)]
mod antmetrics {
    use color_eyre::{eyre::eyre, Result};
    use regex::Regex;
    use std::{
        collections::BTreeMap,
        fs::File,
        io::{BufRead, BufReader},
        path::Path,
    };
    use walkdir::WalkDir;
    // the output records of the tool (main.rs), field for field: `build_prometheus_config` fills them
    pub struct PrometheusConfig {
        pub global: Global,
        pub scrape_configs: Vec<ScrapeConfigs>,
    }
    pub struct Global {
        pub scrape_interval: String,
        pub evaluation_interval: String,
    }
    pub struct ScrapeConfigs {
        pub job_name: String,
        pub scrape_interval: String,
        pub static_configs: Vec<StaticConfig>,
    }
    pub struct StaticConfig {
        pub targets: Vec<String>,
        pub labels: Labels,
    }
    pub struct Labels {
        pub node_id: NodeId,
    }
    include!(concat!(env!("OUT_DIR"), "/antmetrics_get_metric_servers.rs"));
    pub fn call(p: &Path) -> Result<usize> {
        get_metric_servers(p).map(|m| m.len())
    }
    /// the tool's pipeline: scan the logs, then build the Prometheus configuration -> the scrape targets
    pub fn call_config(p: &Path) -> Result<Vec<String>> {
        let servers = get_metric_servers(p)?;
        let cfg = build_prometheus_config(servers);
        Ok(cfg.scrape_configs.into_iter().flat_map(|s| s.static_configs).flat_map(|s| s.targets).collect())
    }
    pub const PREFIX: &str = LOG_FILENAME_PREFIX;
}

fn s_of(h: &str) -> Option<String> {
    String::from_utf8(unhex(h)?).ok()
}

fn hx(s: &str) -> String {
    hex(s.as_bytes())
}

fn proto_tag(p: &Protocol) -> &'static str {
    match p {
        Protocol::Ip4(_) => "ip4",
        Protocol::Udp(_) => "udp",
        Protocol::Tcp(_) => "tcp",
        Protocol::QuicV1 => "quic",
        Protocol::Ws(_) => "ws",
        Protocol::P2p(_) => "p2p",
        _ => "other",
    }
}

fn tags_of(a: &Multiaddr) -> String {
    let t: Vec<&str> = a.iter().map(|p| proto_tag(&p)).collect();
    if t.is_empty() { "empty".into() } else { t.join(",") }
}

fn item_verdict(s: &str) -> String {
    match s.parse::<Multiaddr>() {
        Ok(a) => tags_of(&a),
        Err(_) => "err".into(),
    }
}

// ---------------------------------------------------------------- loopback HTTP endpoint

struct Endpoint {
    url: String,
    body: Arc<Mutex<Vec<u8>>>,
}

static ENDPOINT: OnceLock<Option<Endpoint>> = OnceLock::new();

fn endpoint() -> Option<&'static Endpoint> {
    ENDPOINT
        .get_or_init(|| {
            let listener = std::net::TcpListener::bind("127.0.0.1:0").ok()?;
            let port = listener.local_addr().ok()?.port();
            let body: Arc<Mutex<Vec<u8>>> = Arc::new(Mutex::new(vec![]));
            let served = body.clone();
            std::thread::spawn(move || {
                for conn in listener.incoming() {
                    let Ok(mut c) = conn else { continue };
                    let mut req = vec![];
                    let mut buf = [0u8; 1024];
                    while !req.windows(4).any(|w| w == b"\r\n\r\n") {
                        match c.read(&mut buf) {
                            Ok(0) | Err(_) => break,
                            Ok(n) => req.extend_from_slice(&buf[..n]),
                        }
                    }
                    let b = served.lock().map(|b| b.clone()).unwrap_or_default();
                    let _ = c.write_all(format!("HTTP/1.1 200 OK\r\nContent-Type: text/plain; charset=utf-8\r\nContent-Length: {}\r\nConnection: close\r\n\r\n", b.len()).as_bytes());
                    let _ = c.write_all(&b);
                    let _ = c.flush();
                }
            });
            Some(Endpoint { url: format!("http://127.0.0.1:{port}/contacts"), body })
        })
        .as_ref()
}

#[derive(serde::Deserialize)]
#[allow(dead_code)]
struct MirrorAddr {
    addr: Multiaddr,
    success_count: u32,
    failure_count: u32,
    last_seen: std::time::SystemTime,
}
#[derive(serde::Deserialize)]
#[allow(dead_code)]
struct MirrorCache {
    peers: std::collections::HashMap<libp2p::PeerId, Vec<MirrorAddr>>,
    last_updated: std::time::SystemTime,
    network_version: String,
}

fn contacts_verdict(text: &str) -> String {
    match serde_json::from_str::<MirrorCache>(text) {
        Ok(c) => {
            let vm = c.network_version == ant_bootstrap::get_network_version();
            let mut peers: Vec<String> = c
                .peers
                .values()
                .map(|v| if v.is_empty() { "e".to_string() } else { v.iter().map(|a| format!("{}:{}", a.success_count, a.failure_count)).collect::<Vec<_>>().join(",") })
                .collect();
            peers.sort();
            format!("json:{}:{}", vm as u8, if peers.is_empty() { "nopeers".to_string() } else { peers.join("|") })
        }
        Err(_) => format!("lines:{}", text.split('\n').map(item_verdict).collect::<Vec<_>>().join(";")),
    }
}

const EVM_VARS: [&str; 3] = ["RPC_URL", "PAYMENT_TOKEN_ADDRESS", "DATA_PAYMENTS_ADDRESS"];

fn url_ok(s: &str) -> bool {
    url::Url::parse(s).is_ok()
}
fn addr_ok(s: &str) -> bool {
    <ant_evm::RewardsAddress as std::str::FromStr>::from_str(s).is_ok()
}
fn env_safe(s: &str) -> bool {
    !s.contains('\0')
}

fn evm_name(n: &ant_evm::EvmNetwork) -> &'static str {
    match n {
        ant_evm::EvmNetwork::ArbitrumOne => "arbitrum-one",
        ant_evm::EvmNetwork::ArbitrumSepolia => "arbitrum-sepolia",
        ant_evm::EvmNetwork::Custom(_) => "custom",
    }
}

/// Executes an op of this module; `None` if the op is not one of ours.
pub fn exec(ws: &[&str], tmp: &Path, op: &mut String) -> Option<String> {
    Some(match ws {
        ["antpeers", b, ..] => {
            let Some(bytes) = unhex(b) else { return Some("bad-op".into()) };
            if bytes.contains(&0) {
                return Some("bad-op".into());
            }
            let tp = match std::str::from_utf8(&bytes) {
                Ok(t) => t.split(',').map(item_verdict).collect::<Vec<_>>().join(";"),
                Err(_) => "na".into(),
            };
            *op = format!("antpeers {b} {tp}");
            use std::os::unix::ffi::OsStrExt;
            std::env::set_var(ant_bootstrap::ANT_PEERS_ENV, std::ffi::OsStr::from_bytes(&bytes));
            let r = ant_bootstrap::PeersArgs::read_addr_from_env();
            std::env::remove_var(ant_bootstrap::ANT_PEERS_ENV);
            format!("ok {} {}", r.len(), if r.is_empty() { "-".to_string() } else { r.iter().map(tags_of).collect::<Vec<_>>().join("|") })
        }
        ["contacts", ig, b, ..] => {
            let Some(bytes) = unhex(b) else { return Some("bad-op".into()) };
            let Some(ep) = endpoint() else { return Some("bad-op".into()) };
            *op = format!("contacts {ig} {b} {}", contacts_verdict(&String::from_utf8_lossy(&bytes)));
            if let Ok(mut g) = ep.body.lock() {
                *g = bytes;
            }
            let Ok(url) = ep.url.parse::<url::Url>() else { return Some("bad-op".into()) };
            let rt = tokio::runtime::Builder::new_current_thread().enable_all().build().expect("runtime");
            rt.block_on(async {
                let Ok(mut f) = ant_bootstrap::ContactsFetcher::with_endpoints(vec![url]) else { return "bad-op".to_string() };
                f.ignore_peer_id(*ig == "1");
                match f.fetch_addrs().await {
                    Ok(v) => format!("ok {}", v.len()),
                    Err(_) => "err".into(),
                }
            })
        }
        ["evmenv", a, b, c, ..] | ["evmcustom", a, b, c, ..] | ["evmget", a, b, c, ..] => {
            let (Some(a), Some(b), Some(c)) = (s_of(a), s_of(b), s_of(c)) else { return Some("bad-op".into()) };
            if ![&a, &b, &c].iter().all(|s| env_safe(s)) {
                return Some("bad-op".into());
            }
            *op = format!("{} {} {} {} {}{}{}", ws[0], ws[1], ws[2], ws[3], url_ok(&a) as u8, addr_ok(&b) as u8, addr_ok(&c) as u8);
            if ws[0] == "evmcustom" {
                return Some(format!("ok {}", evm_name(&ant_evm::EvmNetwork::new_custom(&a, &b, &c))));
            }
            if ws[0] == "evmget" {
                return Some(format!("ok {}", evm_name(&ant_evm::utils::get_evm_network(&a, &b, &c))));
            }
            std::env::remove_var("EVM_NETWORK");
            for (k, v) in EVM_VARS.iter().zip([&a, &b, &c]) {
                std::env::set_var(k, v);
            }
            let r = ant_evm::get_evm_network_from_env();
            for k in EVM_VARS {
                std::env::remove_var(k);
            }
            match r {
                Ok(n) => format!("ok {}", evm_name(&n)),
                Err(_) => "err".into(),
            }
        }
        ["evmcsv", b, ..] => {
            let Some(bytes) = unhex(b) else { return Some("bad-op".into()) };
            let tp = match std::str::from_utf8(&bytes) {
                Ok(t) => t.split(',').take(8).map(|p| format!("{}{}", url_ok(p) as u8, addr_ok(p) as u8)).collect::<Vec<_>>().join(","),
                Err(_) => "na".into(),
            };
            *op = format!("evmcsv {b} {tp}");
            let Ok(path) = ant_evm::utils::get_evm_testnet_csv_path() else { return Some("bad-op".into()) };
            if !path.starts_with(tmp) {
                return Some("bad-op".into()); // never touch a real data directory
            }
            if let Some(dir) = path.parent() {
                std::fs::create_dir_all(dir).expect("data dir");
            }
            std::fs::write(&path, &bytes).expect("write csv");
            for k in EVM_VARS {
                std::env::remove_var(k);
            }
            std::env::set_var("EVM_NETWORK", "local");
            let r = ant_evm::get_evm_network_from_env();
            std::env::remove_var("EVM_NETWORK");
            match r {
                Ok(n) => format!("ok {}", evm_name(&n)),
                Err(_) => "err".into(),
            }
        }
        ["atto", h] => {
            let Some(s) = s_of(h) else { return Some("bad-op".into()) };
            match <ant_evm::AttoTokens as std::str::FromStr>::from_str(&s) {
                Ok(a) => format!("ok {}", a.as_atto()),
                Err(ant_evm::EvmError::ExcessiveValue) => "err excessive".into(),
                Err(ant_evm::EvmError::LossOfPrecision) => "err loss".into(),
                Err(ant_evm::EvmError::FailedToParseAttoToken(m)) => if m.contains("units") { "err units".into() } else { "err remainder".into() },
                Err(_) => "err other".into(),
            }
        }
        ["natpeer", h, ..] => {
            let Some(s) = s_of(h) else { return Some("bad-op".into()) };
            let tp = if s.parse::<std::net::SocketAddrV4>().is_ok() { "sock" } else if s.parse::<Multiaddr>().is_ok() { "ma" } else { "err" };
            *op = format!("natpeer {h} {tp}");
            match natdetection::call(&s) {
                Ok(_) => "ok".into(),
                Err(_) => "err".into(),
            }
        }
        ["metricslog", b, ..] => {
            let Some(bytes) = unhex(b) else { return Some("bad-op".into()) };
            let re_node = regex::Regex::new(r"Node \(PID: (\d+)\) with PeerId: (.*)").expect("regex");
            let re_url = regex::Regex::new(r"Metrics server on (.*)").expect("regex");
            // one token per line that matches: `n`, `u1`/`u0`, or both (`nu1`/`nu0`); BufRead::lines() semantics
            let mut ev: Vec<String> = vec![];
            for seg in bytes.split_inclusive(|c| *c == b'\n') {
                let raw = match seg.strip_suffix(b"\n") {
                    Some(r) => r.strip_suffix(b"\r").unwrap_or(r),
                    None => seg,
                };
                let Ok(line) = std::str::from_utf8(raw) else { break };
                let mut tok = String::new();
                if re_node.is_match(line) {
                    tok.push('n');
                }
                if let Some(c) = re_url.captures(line) {
                    tok.push_str(if url::Url::parse(&c[1]).is_ok() { "u1" } else { "u0" });
                }
                if !tok.is_empty() {
                    ev.push(tok);
                }
            }
            *op = format!("metricslog {b} {}", if ev.is_empty() { "-".to_string() } else { ev.join(",") });
            let dir = tmp.join("nodelogs");
            let _ = std::fs::remove_dir_all(&dir);
            std::fs::create_dir_all(&dir).expect("log dir");
            std::fs::write(dir.join(antmetrics::PREFIX), &bytes).expect("write log");
            match antmetrics::call(&dir) {
                Ok(n) => format!("ok {n}"),
                Err(_) => "err".into(),
            }
        }
        ["promcfg", u, ..] => {
            let Some(url) = s_of(u) else { return Some("bad-op".into()) };
            if url.contains('\n') || url.contains('\r') {
                return Some("bad-op".into());
            }
            let tp = match url::Url::parse(&url) {
                Err(_) => "bad",
                Ok(p) => if p.port().is_some() { "port" } else if p.port_or_known_default().is_some() { "dflt" } else { "none" },
            };
            *op = format!("promcfg {u} {tp}");
            let dir = tmp.join("nodelogs");
            let _ = std::fs::remove_dir_all(&dir);
            std::fs::create_dir_all(&dir).expect("log dir");
            std::fs::write(dir.join(antmetrics::PREFIX), format!("Node (PID: 1) with PeerId: 12D3KooWverif\nMetrics server on {url}\n")).expect("write log");
            match antmetrics::call_config(&dir) {
                Ok(t) => format!("ok {}", t.len()),
                Err(_) => "err".into(),
            }
        }
        _ => return None,
    })
}

pub fn oracle(ws: &[&str], res: &str, line: &str, out: &mut Out) {
    match ws {
        ["evmenv", _, _, _, tp] | ["evmcustom", _, _, _, tp] | ["evmget", _, _, _, tp] => {
            // a custom network is only ever built from a well-formed URL and two well-formed addresses
            if res.starts_with("ok") && *tp != "111" {
                out.oracle_fail("evm-custom-sound", line, &format!("a network was built from malformed parts ({tp}): {res}"));
            }
        }
        ["atto", h] => {
            // an accepted amount is units * 10^18 + fraction scaled to 18 digits, below 2^256 (recomputed with big integers)
            if let (Some(v), Some(s)) = (res.strip_prefix("ok "), s_of(h)) {
                let (u, f) = s.split_once('.').unwrap_or((&s, ""));
                let digits = |x: &str| x.bytes().all(|b| b.is_ascii_digit());
                let f = f.trim_end_matches('0');
                let want = if !u.is_empty() && digits(u) && digits(f) && f.len() <= 18 {
                    let ten = num_bigint::BigUint::from(10u32);
                    let units = u.parse::<num_bigint::BigUint>().ok();
                    let frac = if f.is_empty() { Some(num_bigint::BigUint::from(0u32)) } else { f.parse::<num_bigint::BigUint>().ok() };
                    match (units, frac) {
                        (Some(units), Some(frac)) => {
                            let total = units * ten.pow(18) + frac * ten.pow(18 - f.len() as u32);
                            if total < (num_bigint::BigUint::from(1u32) << 256) { Some(total.to_string()) } else { None }
                        }
                        _ => None,
                    }
                } else {
                    None
                };
                if want.as_deref() != Some(v) {
                    out.oracle_fail("atto-exact", line, &format!("parsed {v}, expected {want:?}"));
                }
            }
        }
        ["antpeers", _, tp] => {
            // never more addresses than items, none from unparsable items
            if let Some(rest) = res.strip_prefix("ok ") {
                let n: usize = rest.split(' ').next().and_then(|x| x.parse().ok()).unwrap_or(usize::MAX);
                let parsable = if *tp == "na" { 0 } else { tp.split(';').filter(|t| *t != "err").count() };
                if n > parsable {
                    out.oracle_fail("antpeers-sound", line, &format!("{n} addresses from {parsable} parsable items"));
                }
            }
        }
        _ => {}
    }
}

fn peer_id(n: u64) -> libp2p::PeerId {
    let mut b = vec![0x00, 0x24, 0x08, 0x01, 0x12, 0x20];
    let mut r = Rng::new(n ^ 0xfeed);
    b.extend_from_slice(&r.bytes(32));
    libp2p::PeerId::from_bytes(&b).expect("peer id")
}

fn addr_string(rng: &mut Rng) -> String {
    let id = peer_id(rng.below(4));
    match rng.below(9) {
        0 => format!("/ip4/10.0.0.{}/udp/{}/quic-v1/p2p/{id}", rng.below(256), rng.below(65536)),
        1 => format!("/ip4/10.0.0.{}/tcp/{}/p2p/{id}", rng.below(256), rng.below(65536)),
        2 => format!("/ip4/10.0.0.{}/udp/{}/quic-v1", rng.below(256), rng.below(65536)),
        3 => format!("/ip6/::1/udp/1/quic-v1/p2p/{id}"),
        4 => format!("/ip4/10.0.0.1/tcp/80/ws/p2p/{id}"),
        5 => String::new(),
        6 => " /ip4/10.0.0.1/udp/1/quic-v1 ".to_string(),
        7 => format!("/p2p/{id}"),
        _ => rng.pick(&["garbage", "/ip4/", "/ip4/999.0.0.1/udp/1", "<html>", "/udp/1/ip4/1.2.3.4", "é", "/dns/x/tcp/1"]).to_string(),
    }
}

fn mutate(rng: &mut Rng, s: &str) -> String {
    let mut c: Vec<char> = s.chars().collect();
    match rng.below(5) {
        0 if !c.is_empty() => {
            let i = rng.below(c.len() as u64) as usize;
            c[i] = *rng.pick(&[',', '/', ' ', 'é', '0', 'x', '\n', ':', '"']);
        }
        1 if !c.is_empty() => {
            let i = rng.below(c.len() as u64) as usize;
            c.remove(i);
        }
        2 => {
            let i = rng.below(c.len() as u64 + 1) as usize;
            c.insert(i, *rng.pick(&[',', '/', '0', ' ', '\n']));
        }
        3 => c.truncate(rng.below(c.len() as u64 + 1) as usize),
        _ => c.push(*rng.pick(&[',', '/', '0'])),
    }
    c.into_iter().collect()
}

fn cache_json(rng: &mut Rng, version: &str) -> String {
    let np = rng.below(4);
    let mut peers = vec![];
    for pi in 0..np {
        let id = peer_id(pi);
        let na = rng.below(4);
        let addrs: Vec<String> = (0..na)
            .map(|ai| {
                let (s, f) = match rng.below(4) {
                    0 => (u32::MAX, 1),
                    1 => (u32::MAX, u32::MAX),
                    _ => (rng.below(5) as u32, rng.below(5) as u32),
                };
                format!("{{\"addr\":\"/ip4/10.0.{pi}.{ai}/udp/{}/quic-v1/p2p/{id}\",\"success_count\":{s},\"failure_count\":{f},\"last_seen\":{{\"secs_since_epoch\":1,\"nanos_since_epoch\":0}}}}", 1000 + ai)
            })
            .collect();
        peers.push(format!("\"{id}\":[{}]", addrs.join(",")));
    }
    format!("{{\"peers\":{{{}}},\"last_updated\":{{\"secs_since_epoch\":1,\"nanos_since_epoch\":0}},\"network_version\":\"{version}\"}}", peers.join(","))
}

const GOOD_ADDR: &str = "0x03B770D9cD32077cC0bF330c13C114a87643B124";

fn evm_part(rng: &mut Rng, url: bool) -> String {
    let good = if url { "http://localhost:8545/".to_string() } else { GOOD_ADDR.to_string() };
    match rng.below(8) {
        0 => String::new(),
        1 => mutate(rng, &good),
        2 => if url { GOOD_ADDR.to_string() } else { "http://localhost:8545/".to_string() },
        3 => rng.pick(&["localhost:8545", "http://", "http://[::1", "0x", "0x03B770D9cD32077cC0bF330c13C114a87643B12", "03B770D9cD32077cC0bF330c13C114a87643B124", "0x03b770d9cd32077cc0bf330c13c114a87643b124", " http://x/", "htt p://x", "é", "0xZZB770D9cD32077cC0bF330c13C114a87643B124"]).to_string(),
        _ => good,
    }
}

pub fn generate(rng: &mut Rng, n: u64) -> Vec<String> {
    let mut v: Vec<String> = vec![];
    let ver = ant_bootstrap::get_network_version();
    // past minimal failures first: malformed custom-network variables / CSV parts
    v.push(format!("evmenv {} {} {} x", hx("not a url"), hx(GOOD_ADDR), hx(GOOD_ADDR)));
    v.push(format!("evmenv {} {} {} x", hx("http://localhost:8545"), hx("0x00"), hx(GOOD_ADDR)));
    v.push(format!("evmenv {} {} {} x", hx("http://localhost:8545"), hx(GOOD_ADDR), hx("")));
    v.push(format!("evmenv {} {} {} x", hx("http://localhost:8545"), hx(GOOD_ADDR), hx(GOOD_ADDR)));
    v.push(format!("evmcsv {} x", hx("a,b,c,d")));
    v.push(format!("evmcsv {} x", hx(&format!("http://localhost:8545/,{GOOD_ADDR},{GOOD_ADDR},0xdeadbeef"))));
    v.push(format!("evmcsv {} x", hx(&format!("http://localhost:8545/,{GOOD_ADDR},{GOOD_ADDR}"))));
    v.push(format!("evmcsv {} x", hx(&format!("http://localhost:8545/,{GOOD_ADDR},{GOOD_ADDR},x,y"))));
    v.push(format!("evmcsv {} x", hx(&format!("http://localhost:8545/,{GOOD_ADDR},{GOOD_ADDR},x\n"))));
    v.push(format!("evmcsv {} x", hx(&format!("http://localhost:8545/,{GOOD_ADDR}\n,{GOOD_ADDR},x"))));
    v.push("evmcsv - x".into());
    v.push("evmcsv ff2c2c2c x".into());
    v.push(format!("metricslog {} x", hx("Metrics server on \n")));
    v.push(format!("metricslog {} x", hx("Metrics server on not a url\n")));
    v.push(format!("metricslog {} x", hx("Node (PID: 1) with PeerId: 12D3\nMetrics server on http://127.0.0.1:1234/metrics\n")));
    v.push(format!("metricslog {} x", hx("Metrics server on http://127.0.0.1:1/metrics\nNode (PID: 1) with PeerId: x\nMetrics server on garbage\n")));
    v.push(format!("metricslog {} x", hx("Metrics server on http://127.0.0.1:1/metrics\nMetrics server on garbage\n")));
    v.push("metricslog - x".into());
    // round 6: the consumer of an accepted URL (`build_prometheus_config`): a URL on its scheme's default port has no `port()`
    for u in ["http://127.0.0.1:80/metrics", "https://127.0.0.1:443/metrics", "http://127.0.0.1/metrics", "foo://127.0.0.1/metrics", "data:x", "mailto:a@b",
              "http://127.0.0.1:4000/metrics", "http://127.0.0.1:0/metrics", "http://127.0.0.1:65535/metrics", "http://127.0.0.1:65536/metrics", "ws://h:80/", "ftp://h:21/", "garbage", ""] {
        v.push(format!("promcfg {} x", hx(u)));
    }
    v.push(format!("metricslog {} x", hex(&[b'x', b'\n', 0xff, b'\n', b'M'])));
    v.push(format!("metricslog {}{} x", hex(&[0xff, b'\n']), hx("Metrics server on garbage")));
    for s in ["", ",", ",,", "garbage", "/ip4/10.0.0.1/udp/1/quic-v1", "/ip4/10.0.0.1/udp/1/quic-v1,,/ip4/10.0.0.2/tcp/1", " /ip4/10.0.0.1/udp/1/quic-v1", "/ip4/10.0.0.1/udp/1/quic-v1\n"] {
        v.push(format!("antpeers {} x", hx(s)));
    }
    v.push("antpeers ff x".into());
    v.push(format!("antpeers {}ff2c x", hx("/ip4/10.0.0.1/udp/1/quic-v1,")));
    for s in ["", "1.2.3.4:1234", "1.2.3.4:0", "1.2.3.4:65535", "1.2.3.4:65536", "1.2.3.4", "[::1]:80", "/ip4/1.2.3.4/tcp/1234", "/", "x", " 1.2.3.4:1", "256.1.1.1:1", "1.2.3.4:+1", "é:1", "1.2.3.4:1,"] {
        v.push(format!("natpeer {} x", hx(s)));
    }
    v.push(format!("contacts 0 {} x", hx("")));
    v.push(format!("contacts 0 {} x", hx("<html><body>503 Dienst nicht verfügbar</body></html>")));
    v.push(format!("contacts 1 {} x", hx("/ip4/10.0.0.1/udp/1/quic-v1\n\n  \ngarbage\n/ip4/10.0.0.2/udp/1/quic-v1\r\n")));
    v.push(format!("contacts 0 {} x", hx(&format!("{{\"peers\":{{}},\"last_updated\":{{\"secs_since_epoch\":1,\"nanos_since_epoch\":0}},\"network_version\":\"{ver}\"}}"))));
    let id = peer_id(0);
    v.push(format!("contacts 0 {} x", hx(&format!("{{\"peers\":{{\"{id}\":[{{\"addr\":\"/ip4/10.0.0.1/udp/1/quic-v1/p2p/{id}\",\"success_count\":4294967295,\"failure_count\":1,\"last_seen\":{{\"secs_since_epoch\":1,\"nanos_since_epoch\":0}}}}]}},\"last_updated\":{{\"secs_since_epoch\":1,\"nanos_since_epoch\":0}},\"network_version\":\"{ver}\"}}"))));
    v.push(format!("contacts 0 {}ff x", hx("/ip4/10.0.0.1/udp/1/quic-v1\n")));
    // token amounts: grammar edges, 18/19-digit fractions, the largest values, what ruint's parser would also take
    let max = "115792089237316195423570985008687907853269984665640564039457584007913129639935"; // 2^256 - 1
    for s in ["", ".", "0", "1", "1.", ".5", "1.0", "0.000000000000000001", "0.0000000000000000001", "1.100000000000000001", "1.1000000000000000010",
              "115792089237316195423570985008687907853269984665640564039457", "115792089237316195423570985008687907853269984665640564039458",
              "115792089237316195423570985008687907853269984665640564039457.584007913129639935", "115792089237316195423570985008687907853269984665640564039457.584007913129639936",
              max, "0x10", "0b11", "1_0", "1.0x1", "1.1_1", "+1", "-1", " 1", "1 ", "1..2", "1.2.3", "a", "1e3", "٣", "1.٣", "0.999999999999999999", "0.9999999999999999999",
              "00000000000000000000000000000000000001.000000000000000000000000000000", "1.000000000000000000000000000000000000000000000000000000000000000000000000000000000001"] {
        v.push(format!("atto {}", hx(s)));
    }
    for _ in 0..n / 6 {
        let units: String = match rng.below(5) {
            0 => "0".into(),
            1 => rng.below(1_000_000).to_string(),
            2 => max[..(1 + rng.below(60)) as usize].to_string(),
            3 => max[..60].to_string(),
            _ => format!("{}{}", rng.below(10), "0".repeat(rng.below(62) as usize)),
        };
        let s = match rng.below(4) {
            0 => units,
            1 => format!("{units}.{}", (0..rng.below(22)).map(|_| char::from(b'0' + rng.below(10) as u8)).collect::<String>()),
            2 => format!("{units}.{}{}", rng.below(1000), "0".repeat(rng.below(20) as usize)),
            _ => mutate(rng, &format!("{units}.5")),
        };
        v.push(format!("atto {}", hx(&s)));
    }
    let mut http_budget = 60 + n / 25;
    for _ in 0..n / 3 {
        match rng.below(10) {
            0 | 1 => {
                let k = rng.below(4);
                let mut s = (0..k).map(|_| addr_string(rng)).collect::<Vec<_>>().join(",");
                if rng.chance(1, 4) {
                    s = mutate(rng, &s);
                }
                if !s.contains('\0') {
                    v.push(format!("antpeers {} x", hx(&s)));
                }
            }
            2 | 3 => {
                if http_budget == 0 {
                    continue;
                }
                http_budget -= 1;
                let body = if rng.chance(1, 2) {
                    let k = rng.below(5);
                    let sep = *rng.pick(&["\n", "\n", "\r\n", "\n\n"]);
                    (0..k).map(|_| addr_string(rng)).collect::<Vec<_>>().join(sep)
                } else {
                    let version = if rng.chance(3, 4) { ver.clone() } else { "0_0.0".to_string() };
                    let j = cache_json(rng, &version);
                    if rng.chance(1, 4) { mutate(rng, &j) } else { j }
                };
                v.push(format!("contacts {} {} x", rng.below(2), hx(&body)));
            }
            4 | 5 => {
                let (a, b, c) = (evm_part(rng, true), evm_part(rng, false), evm_part(rng, false));
                if [&a, &b, &c].iter().all(|s| env_safe(s)) {
                    // new_custom on malformed parts is the known finding K-u: the random stream only feeds it well-formed parts
                    if rng.chance(1, 4) && url_ok(&a) && addr_ok(&b) && addr_ok(&c) {
                        v.push(format!("{} {} {} {} x", if rng.chance(1, 3) { "evmget" } else { "evmcustom" }, hx(&a), hx(&b), hx(&c)));
                    } else {
                        v.push(format!("evmenv {} {} {} x", hx(&a), hx(&b), hx(&c)));
                    }
                }
            }
            6 => {
                let k = *rng.pick(&[0u64, 1, 2, 3, 4, 4, 4, 4, 5, 6]);
                let mut parts: Vec<String> = (0..k).map(|i| evm_part(rng, i == 0)).collect();
                if k == 4 && rng.chance(1, 2) {
                    parts[3] = "0xdeadbeef".into();
                }
                let mut s = parts.join(",");
                if rng.chance(1, 5) {
                    s = mutate(rng, &s);
                }
                v.push(format!("evmcsv {} x", hx(&s)));
            }
            7 => {
                let s = match rng.below(4) {
                    0 => format!("{}.{}.{}.{}:{}", rng.below(300), rng.below(256), rng.below(256), rng.below(256), rng.below(70000)),
                    1 => addr_string(rng),
                    2 => mutate(rng, "1.2.3.4:1234"),
                    _ => mutate(rng, "/ip4/1.2.3.4/tcp/1234"),
                };
                v.push(format!("natpeer {} x", hx(&s)));
            }
            _ => {
                let k = rng.below(6);
                let lines: Vec<String> = (0..k)
                    .map(|_| match rng.below(7) {
                        0 => format!("[2024-01-01T00:00:00Z INFO antnode] Node (PID: {}) with PeerId: {}", rng.below(99999), peer_id(rng.below(3))),
                        1 => format!("[2024-01-01T00:00:00Z INFO ant_networking] Metrics server on http://127.0.0.1:{}/metrics", rng.below(65536)),
                        2 => format!("Metrics server on {}", rng.pick(&["", "garbage", "http://", "127.0.0.1:1/metrics", "http://[::1", "http://x y/", "é"])),
                        3 => "Node (PID: x) with PeerId: y".to_string(),
                        4 => "Node (PID: 12) with PeerId: ".to_string(),
                        5 => mutate(rng, "Metrics server on http://127.0.0.1:4000/metrics"),
                        _ => "some other line".to_string(),
                    })
                    .collect();
                let mut b = lines.join("\n").into_bytes();
                if rng.chance(1, 8) && !b.is_empty() {
                    let i = rng.below(b.len() as u64) as usize;
                    b[i] = 0xff;
                }
                v.push(format!("metricslog {} x", hex(&b)));
                if rng.chance(1, 3) {
                    let scheme = *rng.pick(&["http", "https", "ws", "wss", "ftp", "foo", "file", "HTTP"]);
                    let port = match rng.below(5) {
                        0 => String::new(),
                        1 => format!(":{}", rng.pick(&[0u32, 21, 80, 443, 65535, 65536])),
                        _ => format!(":{}", rng.below(65536)),
                    };
                    let u = format!("{scheme}://{}{port}/metrics", rng.pick(&["127.0.0.1", "localhost", "[::1]", ""]));
                    let u = if rng.chance(1, 5) { mutate(rng, &u) } else { u };
                    if !u.contains('\n') && !u.contains('\r') {
                        v.push(format!("promcfg {} x", hx(&u)));
                    }
                }
            }
        }
    }
    v
}
