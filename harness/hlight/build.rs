// C17: copy the source text of bin-private parsers of /repo into $OUT_DIR (see ../common/extract_fn.rs).
include!("../common/extract_fn.rs");

fn main() {
    println!("cargo:rerun-if-changed=build.rs");
    println!("cargo:rerun-if-changed=../common/extract_fn.rs");
    extract_fns(&[
        ("/repo/nat-detection/src/main.rs", &["parse_peer_addr"], "natdetection_parse_peer_addr.rs"),
        (
            "/repo/ant-metrics/src/main.rs",
            &["const LOG_FILENAME_PREFIX", "type NodeId", "get_metric_servers", "build_prometheus_config", "last_n_chars"],
            "antmetrics_get_metric_servers.rs",
        ),
    ]);
}
