// Shared by the build scripts of the harness packages (`include!("../common/extract_fn.rs")`), not a module
// of the `common` crate.
//
// C17: some parsers of user-supplied text live in bin-only crates of /repo (antctl, nat-detection, metrics) or are
// crate-private.  Instead of adding hooks to /repo, the build script copies the *source text* of the named
// function out of the /repo file into `$OUT_DIR/<out>`, and the harness binary `include!`s it — the code that
// runs under `catch_unwind` is the code of /repo (same technique as `include!("/repo/ant-cli/src/wallet/fs.rs")`,
// at function granularity).  `cargo:rerun-if-changed` makes every edit of the /repo file re-extract.
//
// The build script never fails: if a function cannot be found the generated file holds a `compile_error!`,
// which only breaks the one binary that includes it.

/// Index just past the `}` closing the block that opens at the first `{` at or after `from`.
/// Skips string literals (plain, raw, byte), char literals (vs. lifetimes) and comments.
fn block_end(src: &[u8], from: usize) -> Option<usize> {
    let mut i = from;
    let mut depth = 0usize;
    let mut seen_open = false;
    while i < src.len() {
        let c = src[i];
        match c {
            b'/' if src.get(i + 1) == Some(&b'/') => {
                while i < src.len() && src[i] != b'\n' {
                    i += 1;
                }
            }
            b'/' if src.get(i + 1) == Some(&b'*') => {
                let mut d = 1;
                i += 2;
                while i < src.len() && d > 0 {
                    if src[i] == b'/' && src.get(i + 1) == Some(&b'*') {
                        d += 1;
                        i += 2;
                    } else if src[i] == b'*' && src.get(i + 1) == Some(&b'/') {
                        d -= 1;
                        i += 2;
                    } else {
                        i += 1;
                    }
                }
                continue;
            }
            b'r' if matches!(src.get(i + 1), Some(&b'"') | Some(&b'#')) && (i == 0 || !(src[i - 1].is_ascii_alphanumeric() || src[i - 1] == b'_')) => {
                // raw string r"..." / r#"..."#
                let mut j = i + 1;
                let mut hashes = 0;
                while src.get(j) == Some(&b'#') {
                    hashes += 1;
                    j += 1;
                }
                if src.get(j) == Some(&b'"') {
                    j += 1;
                    'raw: while j < src.len() {
                        if src[j] == b'"' {
                            let mut k = 0;
                            while k < hashes && src.get(j + 1 + k) == Some(&b'#') {
                                k += 1;
                            }
                            if k == hashes {
                                j += 1 + hashes;
                                break 'raw;
                            }
                        }
                        j += 1;
                    }
                    i = j;
                    continue;
                }
            }
            b'"' => {
                i += 1;
                while i < src.len() && src[i] != b'"' {
                    if src[i] == b'\\' {
                        i += 1;
                    }
                    i += 1;
                }
            }
            b'\'' => {
                // char literal `'x'`, `'\n'`, `'\u{..}'` — or a lifetime `'a`
                if src.get(i + 1) == Some(&b'\\') {
                    i += 2;
                    while i < src.len() && src[i] != b'\'' {
                        i += 1;
                    }
                } else {
                    // a char literal closes within at most 5 bytes (one UTF-8 char) after the quote
                    let mut j = i + 1;
                    let mut n = 0;
                    while j < src.len() && n < 5 && src[j] != b'\'' && src[j] != b'\n' {
                        j += 1;
                        n += 1;
                    }
                    let one_char = std::str::from_utf8(&src[i + 1..j]).map(|s| s.chars().count() == 1).unwrap_or(false);
                    if src.get(j) == Some(&b'\'') && one_char {
                        i = j;
                    }
                }
            }
            b'{' => {
                depth += 1;
                seen_open = true;
            }
            b'}' => {
                depth = depth.checked_sub(1)?;
                if seen_open && depth == 0 {
                    return Some(i + 1);
                }
            }
            b';' if !seen_open && depth == 0 => return None, // a declaration without body
            _ => {}
        }
        i += 1;
    }
    None
}

/// Source text of `fn <name>` (from the start of its line, i.e. including `pub(crate)`/`async`) up to the end of its body.
fn extract_fn_text(src: &str, name: &str) -> Option<String> {
    let needle = format!("fn {name}");
    let mut at = 0;
    while let Some(p) = src[at..].find(&needle) {
        let p = at + p;
        let after = src[p + needle.len()..].chars().next();
        let before_ok = p == 0 || !src[..p].chars().next_back().map(|c| c.is_alphanumeric() || c == '_').unwrap_or(false);
        if before_ok && matches!(after, Some('(') | Some('<')) {
            let line_start = src[..p].rfind('\n').map(|x| x + 1).unwrap_or(0);
            if !src[line_start..p].contains("//") {
                let end = block_end(src.as_bytes(), p)?;
                return Some(src[line_start..end].to_string());
            }
        }
        at = p + needle.len();
    }
    None
}

/// A one-statement item (`const NAME: T = …;`, `type N = …;`): from the line that starts with `decl` to the next `;`.
fn extract_simple_item(src: &str, decl: &str) -> Option<String> {
    let mut off = 0;
    for line in src.split_inclusive('\n') {
        let t = line.trim_start();
        let t = t.strip_prefix("pub(crate) ").or_else(|| t.strip_prefix("pub ")).unwrap_or(t);
        if t.starts_with(decl) && matches!(t[decl.len()..].chars().next(), Some(':') | Some(' ') | Some('=')) {
            let end = src[off..].find(';')?;
            return Some(src[off..off + end + 1].to_string());
        }
        off += line.len();
    }
    None
}

/// (`/repo` file, item names — `fn` names, or `const NAME` / `type NAME` —, output file name in `$OUT_DIR`): the output holds the functions in the given order.
#[allow(dead_code)]
fn extract_fns(jobs: &[(&str, &[&str], &str)]) {
    let out_dir = std::env::var("OUT_DIR").unwrap_or_else(|_| ".".into());
    for (file, names, out) in jobs {
        println!("cargo:rerun-if-changed={file}");
        let mut text = format!("// EXTRACTED by the harness build script from {file} — do not edit.\n");
        match std::fs::read_to_string(file) {
            Ok(src) => {
                for name in names.iter() {
                    let item = if name.starts_with("const ") || name.starts_with("type ") { extract_simple_item(&src, name) } else { extract_fn_text(&src, name) };
                    match item {
                        Some(t) => {
                            text.push_str(&t);
                            text.push_str("\n\n");
                        }
                        None => text.push_str(&format!("compile_error!(\"C17 extraction: fn {name} not found in {file}\");\n")),
                    }
                }
            }
            Err(e) => text.push_str(&format!("compile_error!(\"C17 extraction: cannot read {file}: {}\");\n", e.to_string().replace('"', "'"))),
        }
        let path = std::path::Path::new(&out_dir).join(out);
        let unchanged = std::fs::read_to_string(&path).map(|old| old == text).unwrap_or(false);
        if !unchanged {
            let _ = std::fs::write(&path, text);
        }
    }
}
