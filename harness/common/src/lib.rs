//! Shared harness plumbing: PRNG, argument parsing, op/output/stat files.
use std::collections::BTreeMap;
use std::fs;
use std::io::Write;
use std::path::PathBuf;

/// SplitMix64: every random choice of a run derives from one seed.
#[derive(Clone)]
pub struct Rng(pub u64);

impl Rng {
    pub fn new(seed: u64) -> Self {
        Rng(seed ^ 0x9E37_79B9_7F4A_7C15)
    }
    pub fn next(&mut self) -> u64 {
        self.0 = self.0.wrapping_add(0x9E37_79B9_7F4A_7C15);
        let mut z = self.0;
        z = (z ^ (z >> 30)).wrapping_mul(0xBF58_476D_1CE4_E5B9);
        z = (z ^ (z >> 27)).wrapping_mul(0x94D0_49BB_1331_11EB);
        z ^ (z >> 31)
    }
    /// uniform in 0..n (n > 0)
    pub fn below(&mut self, n: u64) -> u64 {
        self.next() % n
    }
    pub fn range(&mut self, lo: u64, hi_incl: u64) -> u64 {
        lo + self.below(hi_incl - lo + 1)
    }
    pub fn chance(&mut self, num: u64, den: u64) -> bool {
        self.below(den) < num
    }
    pub fn pick<'a, T>(&mut self, xs: &'a [T]) -> &'a T {
        &xs[self.below(xs.len() as u64) as usize]
    }
    pub fn bytes(&mut self, n: usize) -> Vec<u8> {
        (0..n).map(|_| self.next() as u8).collect()
    }
    pub fn shuffle<T>(&mut self, xs: &mut [T]) {
        for i in (1..xs.len()).rev() {
            let j = self.below(i as u64 + 1) as usize;
            xs.swap(i, j);
        }
    }
}

pub struct Args {
    pub component: String,
    pub seed: u64,
    pub n: u64,
    pub out: PathBuf,
    pub replay: Option<PathBuf>,
    pub extra: BTreeMap<String, String>,
}

/// Install a TRACE-level subscriber that really formats every log event (into a sink), so that a
/// `Display`/`Debug` impl reached only from a logging statement runs — and can panic — under the harness.
/// (Log arguments are formatted lazily: without a subscriber such code never executes.)
pub fn install_tracing() {
    let _ = tracing_subscriber::fmt()
        .with_max_level(tracing::Level::TRACE)
        .with_writer(std::io::sink)
        .try_init();
}

pub fn parse_args() -> Args {
    install_tracing();
    let mut it = std::env::args().skip(1);
    let mut a = Args {
        component: String::new(),
        seed: 1,
        n: 100,
        out: PathBuf::from("."),
        replay: None,
        extra: BTreeMap::new(),
    };
    while let Some(k) = it.next() {
        let v = it.next().unwrap_or_default();
        match k.as_str() {
            "--seed" => a.seed = v.parse().expect("seed"),
            "--n" => a.n = v.parse().expect("n"),
            "--out" => a.out = PathBuf::from(v),
            "--replay" => a.replay = Some(PathBuf::from(v)),
            other => {
                a.extra.insert(other.trim_start_matches("--").to_string(), v);
            }
        }
    }
    a
}

pub fn hex(bs: &[u8]) -> String {
    if bs.is_empty() {
        return "-".to_string();
    }
    let mut s = String::with_capacity(bs.len() * 2);
    for b in bs {
        s.push_str(&format!("{b:02x}"));
    }
    s
}

pub fn unhex(s: &str) -> Option<Vec<u8>> {
    if s == "-" {
        return Some(vec![]);
    }
    if s.len() % 2 != 0 {
        return None;
    }
    (0..s.len() / 2)
        .map(|i| u8::from_str_radix(s.get(2 * i..2 * i + 2)?, 16).ok())
        .collect()
}

/// Collects operation lines, implementation output lines, distribution counters,
/// samples and oracle failures; `finish` writes ops.txt, impl.out, stats.json.
pub struct Out {
    dir: PathBuf,
    ops: Vec<String>,
    outs: Vec<String>,
    pub counters: BTreeMap<String, u64>,
    pub oracle_failures: Vec<serde_json::Value>,
    pub known_hits: Vec<serde_json::Value>,
    distinct: std::collections::BTreeSet<u64>,
    pub nontrivial: u64,
    pub notes: Vec<String>,
}

impl Out {
    pub fn new(dir: &PathBuf) -> Self {
        fs::create_dir_all(dir).expect("create out dir");
        Out {
            dir: dir.clone(),
            ops: vec![],
            outs: vec![],
            counters: BTreeMap::new(),
            oracle_failures: vec![],
            known_hits: vec![],
            distinct: Default::default(),
            nontrivial: 0,
            notes: vec![],
        }
    }
    /// record one operation and the implementation's canonical output for it
    pub fn line(&mut self, op: impl Into<String>, out: impl Into<String>) {
        let op = op.into();
        let out = out.into();
        debug_assert!(!op.contains('\n') && !out.contains('\n'));
        self.ops.push(op);
        self.outs.push(out);
    }
    pub fn count(&mut self, key: &str) {
        *self.counters.entry(key.to_string()).or_insert(0) += 1;
    }
    pub fn count_n(&mut self, key: &str, n: u64) {
        *self.counters.entry(key.to_string()).or_insert(0) += n;
    }
    /// mark a case as non-trivial; distinctness is by a 64-bit FNV hash of its text
    pub fn nontrivial_case(&mut self, text: &str) {
        let mut h: u64 = 0xcbf29ce484222325;
        for b in text.bytes() {
            h ^= b as u64;
            h = h.wrapping_mul(0x100000001b3);
        }
        if self.distinct.insert(h) {
            self.nontrivial += 1;
        }
    }
    /// a model-independent oracle failed on the real code
    pub fn oracle_fail(&mut self, clause: &str, input: &str, what: &str) {
        self.oracle_failures.push(serde_json::json!({"clause": clause, "input": input, "what": what}));
    }
    /// a listed known finding reproduced exactly as recorded
    pub fn known_hit(&mut self, id: &str, what: &str) {
        self.known_hits.push(serde_json::json!({"id": id, "what": what}));
    }
    pub fn n_ops(&self) -> usize {
        self.ops.len()
    }
    pub fn finish(self) {
        let mut f = fs::File::create(self.dir.join("ops.txt")).expect("ops");
        for l in &self.ops {
            writeln!(f, "{l}").expect("w");
        }
        let mut f = fs::File::create(self.dir.join("impl.out")).expect("impl");
        for l in &self.outs {
            writeln!(f, "{l}").expect("w");
        }
        let samples: Vec<serde_json::Value> = self
            .ops
            .iter()
            .zip(self.outs.iter())
            .step_by((self.ops.len() / 8).max(1))
            .take(8)
            .map(|(o, r)| serde_json::json!({"op": o, "impl": r}))
            .collect();
        let stats = serde_json::json!({
            "ops": self.ops.len(),
            "distinct_nontrivial": self.nontrivial,
            "counters": self.counters,
            "oracle_failures": self.oracle_failures,
            "known_hits": self.known_hits,
            "samples": samples,
            "notes": self.notes,
        });
        fs::write(self.dir.join("stats.json"), serde_json::to_string_pretty(&stats).expect("json")).expect("stats");
    }
}

pub fn read_lines(p: &PathBuf) -> Vec<String> {
    fs::read_to_string(p)
        .expect("read replay file")
        .lines()
        .map(|l| l.trim().to_string())
        .filter(|l| !l.is_empty() && !l.starts_with('#'))
        .collect()
}
