// C17: copy the source text of crate-private parsers of /repo into $OUT_DIR (see ../common/extract_fn.rs).
include!("../common/extract_fn.rs");

fn main() {
    println!("cargo:rerun-if-changed=build.rs");
    println!("cargo:rerun-if-changed=../common/extract_fn.rs");
    extract_fns(&[(
        "/repo/autonomi/src/client/files/mod.rs",
        &["get_relative_file_path_from_abs_file_and_folder_path"],
        "autonomi_relative_file_path.rs",
    )]);
}
