//! C03 / C04 / C07: node-side put validation (`ant-node/src/put_validation.rs`) on a real `Node` whose
//! swarm command channels the harness owns, with the payment contract replaced by a loopback JSON-RPC stub.
//!
//! Line protocol (inputs only; identities are small integers; key number = 3*id + space, space 0 chunk,
//! 1 owner (scratchpad / transaction), 2 register; peer 0 is this node):
//!   case <store> <path> <kind> <rk> <content> <pay>   one delivery against the given local store content
//!   new <store>                                       start a history with that local store content
//!   deliver <path> <kind> <rk> <content> <pay>        one delivery processed to completion
//!   begin <id> <path> <kind> <rk> <content> <pay>     start a validation; runs to its first store read
//!   ans <id>                                          serve the pending store read from the current store
//!   run <id>                                          resume that validation up to its next store read / its end
//!   dump                                              local store content
//!   evict <key>                                       the store drops that key (capacity eviction, range clean-up, removal of a failed write)
//!   big <path> <kind> <delta>                         a well-formed record whose value is MAX_PACKET_SIZE+delta bytes long (big.rs)
//!   bigm <path> <delta>                               the node holds a transaction set, a second transaction arrives (c: TransactionWithPayment with an
//!                                                     expired quote, tolerated as an update; r: replicated vector); each record is small, their UNION
//!                                                     re-serialised is MAX_PACKET_SIZE+delta bytes long (big.rs)
//!   sput <max> <len> <hdr> <existing>                 direct `RecordStore::put` (see sput.rs)
//!   tamper <store> <path> <kind> <rk> <contentA> <pay> <contentB> <node> <variant>   structure-aware wire tampering (wire.rs)
//!   close <r> <peers by distance>                     real `SwarmDriver` close set + upload paying the rank-r peer (closepeers.rs)
//! Key number n = SHA3-256 of address preimage n (3i plain data i, 3o+1 the public-key bytes of owner o, 3r+2
//! meta ‖ pk of register r): addresses carry no kind tag, so the chunk `Ck<n>` whose BYTES are preimage n has key n.
//! path c|r; kind chunkp chunk padp pad txp tx regp reg; content C<id> | Ck<key> | S<owner>.<n>.<v|w|n> |
//! T<owner>.<t>.<v|i>[,...] | T- | R<id>.<g|a|b>.<ops|-> (op = <id><v|u|f|s|z>: valid / unpermitted writer /
//! other register's address / forged signature / oversize entry) | X (undecodable);
//! (scratchpad signature classes: v valid, d valid over other data, w wrong signer, n none; payee x / y = claimed
//! peer-id bytes that do not decode)
//! pay - | q,q,..;close with q = payee.signer.sig.time.content.valid.amount, close = ids joined by '.' or '-'.
//! Output: `<result class> | <command trace>` with H/G store reads, K closest-peers query, V contract call,
//! P<amount> payment notification, W<key>=<content> local put, F<key>:<type> fetch-completed,
//! R<key>:<type> replication of a fresh record (R0<key>: nothing stored to replicate).
#[path = "validate/big.rs"]
mod big;
#[path = "validate/closepeers.rs"]
mod closepeers;
#[path = "validate/exec.rs"]
mod exec;
#[path = "validate/gen.rs"]
mod gen;
#[path = "validate/sput.rs"]
mod sput;
#[path = "validate/stub.rs"]
mod stub;
#[path = "validate/wire.rs"]
mod wire;
#[path = "validate/world.rs"]
mod world;

use common::{Out, Rng};
use exec::*;
use world::*;

pub struct Ctx {
    pub world: World,
    /// op lines of the current history (for oracle reports)
    pub history: Vec<String>,
    /// validations that overlapped another validation of the same key in this history
    pub overlapped: bool,
    /// per key: the highest validly signed scratchpad counter the store has shown in this history
    pub best_pad: std::collections::BTreeMap<u64, u64>,
    /// per key: every transaction / register-op id the store has shown in this history
    pub seen_ids: std::collections::BTreeMap<u64, std::collections::BTreeSet<String>>,
    /// keys the store dropped (`evict`) in this history
    pub removed: std::collections::BTreeSet<u64>,
}

impl Ctx {
    /// start of a history: what the store holds has been "shown"
    fn reset_history(&mut self, line: &str) {
        self.history = vec![line.to_string()];
        self.overlapped = false;
        self.best_pad.clear();
        self.seen_ids.clear();
        self.removed.clear();
        let recs: Vec<libp2p::kad::Record> = self.world.store.values().cloned().collect();
        for r in recs {
            self.note_shown(&r.key.clone(), &r);
        }
    }
    fn note_shown(&mut self, key: &libp2p::kad::RecordKey, rec: &libp2p::kad::Record) {
        let Some(kn) = key_number(key) else { return };
        let desc = describe(key, rec);
        if let Some((n, true)) = pad_counter(&desc) {
            let e = self.best_pad.entry(kn).or_insert(n);
            *e = (*e).max(n);
        }
        if desc.starts_with(['T', 'R', 'A']) && !desc.contains('!') {
            self.seen_ids.entry(kn).or_default().extend(id_set(&desc));
        }
    }
}

/// C07 over the whole history (model-independent): "its counter never decreases … the stored version is the highest
/// validly signed version delivered", "only ever grows".  Judged when no validations overlapped; a regress / loss at a
/// key the store DROPPED earlier in the history is the known finding K-f6 (the node has no memory of a dropped key)
/// and is counted, not judged.
fn history_oracle(ctx: &Ctx, out: &mut Out) {
    if ctx.overlapped {
        return;
    }
    let hist = ctx.history.join(" ; ");
    for (kn, best) in &ctx.best_pad {
        let key = record_key(*kn);
        let Some(now) = ctx.world.store.get(&key.to_vec()).map(|r| describe(&key, r)) else { continue };
        if let Some((c, _)) = pad_counter(&now) {
            if c < *best {
                if ctx.removed.contains(kn) {
                    out.count("known:K-f6-removal-forgets-version");
                } else {
                    out.oracle_fail("C07:history-never-regresses", &hist, &format!("key {kn} showed scratchpad counter {best} and now holds {now}"));
                }
            }
        }
    }
    for (kn, seen) in &ctx.seen_ids {
        let key = record_key(*kn);
        let Some(now) = ctx.world.store.get(&key.to_vec()).map(|r| describe(&key, r)) else { continue };
        if now.starts_with(['T', 'R', 'A']) {
            let ids = id_set(&now);
            if seen.iter().any(|i| !ids.contains(i)) {
                if ctx.removed.contains(kn) {
                    out.count("known:K-f6-removal-forgets-version");
                } else {
                    out.oracle_fail("C07:history-sets-only-grow", &hist, &format!("key {kn} showed entries {seen:?} and now holds {now}"));
                }
            }
        }
    }
}

fn fmt_out(res: &str, toks: &[String]) -> String {
    if toks.is_empty() {
        format!("{res} |")
    } else {
        format!("{res} | {}", toks.join(" "))
    }
}

/// the six payment conditions as constructed by the op line (independent of the node code)
pub fn all_six(d: &Delivery) -> bool {
    let Some(p) = &d.pay else { return false };
    // every quote validly signed by the node it claims to come from: a claimed id that does not even decode fails
    let undec = |q: &QuoteD| q.payee == UNDEC_FF || q.payee == UNDEC_EMPTY;
    let sigs = p.quotes.iter().all(|q| !undec(q) && q.sig && q.signer == q.payee);
    let self_payee = p.quotes.iter().any(|q| q.payee == 0);
    let close = p.quotes.iter().all(|q| undec(q) || p.close.contains(&q.payee));
    let fresh = p.quotes.iter().all(|q| q.time == 'f' || q.time == 'b');
    let chain = p.quotes.len() == 3 && p.quotes.iter().all(|q| q.valid);
    let own_for_addr = p.quotes.iter().filter(|q| q.signer == 0).all(|q| q.content);
    sigs && self_payee && close && fresh && chain && own_for_addr
}

fn pad_counter(desc: &str) -> Option<(u64, bool)> {
    let r = desc.strip_prefix('S')?;
    // suffix `e`: the signature verifies (the unsigned `data_encoding` differs from the signed scratchpad's)
    let r = r.strip_suffix('e').unwrap_or(r);
    let (n, valid) = match r.strip_suffix('i') {
        Some(n) => (n, false),
        None => (r, true),
    };
    Some((n.parse().ok()?, valid))
}
fn id_set(desc: &str) -> Vec<String> {
    let r = &desc[1..];
    if r.is_empty() {
        vec![]
    } else {
        r.split('.').map(|s| s.to_string()).collect()
    }
}

/// Model-independent oracle for one completed validation: `before` is the local store when it started.
fn oracle(ctx: &Ctx, d: &Delivery, res: &str, puts: &[(libp2p::kad::RecordKey, libp2p::kad::Record, Option<libp2p::kad::Record>)], before: &Store, got_local: bool, out: &mut Out) {
    let hist = ctx.history.join(" ; ");
    if res == "panic" || res == "timeout" {
        out.oracle_fail("no-panic", &hist, &format!("validation ended with {res}"));
        return;
    }
    let dk = derived_key(&d.content);
    if res != "ok" && !puts.is_empty() {
        out.oracle_fail("C03:rejected-stores-nothing", &hist, &format!("result {res} but the node put {} record(s)", puts.len()));
    }
    for (key, rec, prev) in puts {
        let kn = key_number(key);
        let desc = describe(key, rec);
        // C04: the key is the one the stored content / owner determines (sha3 computed here)
        match derived_xorname_of_stored(rec) {
            Some(xs) if !xs.is_empty() && xs.iter().all(|x| x.as_slice() == key.as_ref()) => {}
            _ => out.oracle_fail("C04:stored-key-is-derived", &hist, &format!("record put under key {} holds {desc}, whose own address differs", key_str(key))),
        }
        if Some(d.rk) != kn {
            // the put key is not the key the record was presented under
            out.oracle_fail("C04:mismatch-rejected", &hist, &format!("presented under key {} but stored under {}", d.rk, key_str(key)));
        }
        // held: at the time of this step, or when this validation read its local copy (the record it updates)
        let existed = before.contains_key(&key.to_vec()) || got_local;
        // C03
        if d.client && !existed {
            if !is_paid(&d.kind) {
                out.oracle_fail("C03:unpaid-only-updates", &hist, &format!("unpaid {} stored new data at key {}", d.kind, key_str(key)));
            } else if !all_six(d) {
                out.oracle_fail("C03:new-data-needs-valid-payment", &hist, &format!("new key {} stored although a payment condition was false", key_str(key)));
            }
        }
        if d.client && existed && desc.starts_with('C') {
            out.oracle_fail("C03:chunk-never-rewritten", &hist, &format!("existing chunk {} rewritten", key_str(key)));
        }
        // C07 (per delivery; the regress clause only for per-key-serialised histories)
        let prev_desc = prev.as_ref().map(|p| describe(key, p));
        // a held record is never replaced by a record of another kind (a scratchpad and a transaction set of
        // one owner share a key): part of "never regress / only grows"; per-key-serialised histories only
        if let Some(pd) = &prev_desc {
            let fam = |d: &str| match d.chars().next() {
                Some('C') => 0,
                Some('S') => 1,
                Some('T') => 2,
                Some('R') | Some('A') => 3,
                _ => 9,
            };
            if fam(pd) != fam(&desc) && !ctx.overlapped {
                out.oracle_fail("C07:cross-kind-never-overwrites", &hist, &format!("{pd} held at key {} was replaced by {desc}", key_str(key)));
            }
        }
        if let Some((n, valid)) = pad_counter(&desc) {
            if !valid {
                out.oracle_fail("C07:stored-scratchpad-valid", &hist, &format!("scratchpad with invalid signature stored at {}", key_str(key)));
            }
            if let Some((pn, _)) = prev_desc.as_deref().and_then(pad_counter) {
                if n <= pn && !ctx.overlapped {
                    out.oracle_fail("C07:counter-strictly-increases", &hist, &format!("scratchpad counter went {pn} -> {n} at {}", key_str(key)));
                }
            }
        }
        if desc.starts_with('T') || desc.starts_with('R') || desc.starts_with('A') {
            let new_ids = id_set(&desc);
            if desc.contains('!') || new_ids.iter().any(|s| s == "999") {
                out.oracle_fail("C07:invalid-never-stored", &hist, &format!("invalid entry stored at {}: {desc}", key_str(key)));
            }
            let prev_ids = prev_desc.as_deref().map(id_set).unwrap_or_default();
            if !ctx.overlapped && prev_ids.iter().any(|p| !new_ids.contains(p)) {
                out.oracle_fail("C07:sets-only-grow", &hist, &format!("set at {} shrank: {:?} -> {desc}", key_str(key), prev_desc));
            }
            // nothing that was not validly delivered for this key appears
            let delivered: Vec<String> = match &d.content {
                DContent::Txs(v) => v.iter().filter(|t| t.valid && Some(3 * t.owner + 1) == kn).map(|t| t.t.to_string()).collect(),
                // a register is accepted as a whole: owner signature valid and every op permitted
                DContent::Reg { ops, base, id }
                    if Some(3 * id + 2) == kn
                        && *base != RegBase::Bad
                        && ops.iter().all(|o| o.cls == 'v' || ((o.cls == 'u' || o.cls == 's') && *base == RegBase::Alt)) =>
                {
                    ops.iter().map(|o| o.id.to_string()).collect()
                }
                _ => vec![],
            };
            for n in &new_ids {
                // (under overlapping validations of one key the merged-in local set may be a stale read — K-f —
                // so "held" is judged on per-key-serialised histories only; invalid entries are judged everywhere above)
                if !ctx.overlapped && !prev_ids.contains(n) && !delivered.contains(n) {
                    out.oracle_fail("C07:only-valid-delivered-entries", &hist, &format!("entry {n} at {} was neither held nor validly delivered", key_str(key)));
                }
            }
        }
    }
    // C04: a record presented under a key other than the one its content determines is rejected
    if let (Some(dk), false) = (dk, matches!(d.content, DContent::Txs(_)) && !d.client) {
        if dk != d.rk && (res == "ok" || !puts.is_empty()) {
            out.oracle_fail("C04:mismatch-rejected", &hist, &format!("record for key {dk} presented under key {} was not rejected (result {res}, {} put(s))", d.rk, puts.len()));
        }
    }
}

/// history-level C07 oracle after a sequentially processed delivery: an accepted valid update is reflected
fn oracle_after(ctx: &Ctx, d: &Delivery, res: &str, before: &Store, out: &mut Out) {
    if ctx.overlapped || res == "panic" || res == "timeout" {
        return;
    }
    let hist = ctx.history.join(" ; ");
    let key = record_key(d.rk);
    let existed = before.contains_key(&key.to_vec());
    // a scratchpad and a transaction set of one owner share a key: an update of the other kind is refused
    if let Some(held) = before.get(&key.to_vec()) {
        let fam = |c: char| match c { 'S' => 1, 'T' => 2, 'R' | 'A' => 3, _ => 0 };
        let held_fam = describe(&key, held).chars().next().map(fam).unwrap_or(0);
        let new_fam = match &d.content { DContent::Pad { .. } => 1, DContent::Txs(_) => 2, DContent::Reg { .. } => 3, _ => 0 };
        if held_fam != new_fam {
            // known finding K-f5: addresses carry no kind tag.  A Chunk whose bytes are the owner's public key
            // (or a register's meta ‖ pk) holds the owner-derived key and every scratchpad / transaction / register
            // delivered for it is refused; likewise the other owner-keyed kind of the same owner.  Counted, not judged.
            if new_fam != 0 && derived_key(&d.content) == Some(d.rk) {
                out.count(if held_fam == 0 { "known:K-f5-cross-kind-key-squat:chunk" } else { "known:K-f5-cross-kind-key-squat:pad-tx" });
            }
            return;
        }
    }
    let accepted_path = !d.client || (is_paid(&d.kind) && (all_six(d) || (existed && d.kind != "padp"))) || (!is_paid(&d.kind) && existed && d.kind != "tx" && d.kind != "chunk");
    if !accepted_path || derived_key(&d.content) != Some(d.rk) && !matches!(d.content, DContent::Txs(_)) {
        return;
    }
    if !d.client && is_paid(&d.kind) {
        return;
    }
    let now = ctx.world.store.get(&key.to_vec()).map(|r| describe(&key, r));
    match &d.content {
        DContent::Pad { n, sig: PadSig::Valid | PadSig::ValidOther, .. } => {
            let ok = now.as_deref().and_then(pad_counter).map(|(c, v)| v && c >= *n).unwrap_or(false);
            if !ok {
                out.oracle_fail("C07:highest-valid-version-kept", &hist, &format!("valid scratchpad version {n} delivered but the store holds {now:?}"));
            }
        }
        DContent::Txs(v) => {
            let held = now.as_deref().map(id_set).unwrap_or_default();
            for t in v.iter().filter(|t| t.valid && 3 * t.owner + 1 == d.rk) {
                if !held.contains(&t.t.to_string()) {
                    out.oracle_fail("C07:union-of-valid-delivered", &hist, &format!("valid transaction {} delivered for key {} but the store holds {now:?}", t.t, d.rk));
                }
            }
        }
        DContent::Reg { ops, base, .. } if *base != RegBase::Bad => {
            let all_ok = ops.iter().all(|o| o.cls == 'v' || ((o.cls == 'u' || o.cls == 's') && *base == RegBase::Alt));
            let held_alt = now.as_deref().map(|s| s.starts_with('A'));
            if all_ok && held_alt == Some(*base == RegBase::Alt) {
                let held = now.as_deref().map(id_set).unwrap_or_default();
                for o in ops {
                    if !held.contains(&o.id.to_string()) {
                        out.oracle_fail("C07:union-of-valid-delivered", &hist, &format!("permitted op {} delivered for key {} but the store holds {now:?}", o.id, d.rk));
                    }
                }
            }
        }
        _ => {}
    }
}

/// Oracle for a tampered delivery (no reference to the model, nor to what the tampering was): whatever the node
/// puts under key K is content whose own owner / bytes hash to K (read from the stored bytes with a generic
/// decoder + sha3), is validly signed by that owner, and neither regresses nor shrinks what was held.
fn tamper_oracle(line: &str, res: &str, puts: &[(libp2p::kad::RecordKey, libp2p::kad::Record, Option<libp2p::kad::Record>)], out: &mut Out) {
    if res == "panic" || res == "timeout" {
        out.oracle_fail("no-panic", line, &format!("validation of a tampered record ended with {res}"));
        return;
    }
    if res != "ok" && !puts.is_empty() {
        out.oracle_fail("C03:rejected-stores-nothing", line, &format!("result {res} but the node put {} record(s)", puts.len()));
    }
    for (key, rec, prev) in puts {
        let desc = describe(key, rec);
        match wire::derived_names(&rec.value, &|b| sha3(b)) {
            Some(xs) if !xs.is_empty() && xs.iter().all(|x| x.as_slice() == key.as_ref()) => {}
            _ => out.oracle_fail("C04:stored-key-is-derived", line, &format!("record put under key {} holds {desc}: the owner / content in the stored bytes does not hash to that key", key_str(key))),
        }
        if desc.contains('!') || desc.contains('?') || (desc.starts_with('S') && desc.ends_with('i')) {
            out.oracle_fail("C07:invalid-never-stored", line, &format!("content that is not validly signed by its owner stored at {}: {desc}", key_str(key)));
        }
        if desc.starts_with('S') && desc.ends_with('e') {
            // known finding K-f4 (C07, open): `data_encoding` is stored and served but not covered by the owner's
            // signature; exactly this acceptance is counted, every other unsigned content is flagged above
            out.count("known:K-f4-data-encoding-unsigned");
        }
        if let Some(p) = prev {
            let pd = describe(key, p);
            if let (Some((n, _)), Some((pn, _))) = (pad_counter(&desc), pad_counter(&pd)) {
                if n <= pn {
                    out.oracle_fail("C07:counter-strictly-increases", line, &format!("scratchpad counter went {pn} -> {n} at {}", key_str(key)));
                }
            }
            if pd.chars().next() != desc.chars().next() && !(pd.starts_with(['R', 'A']) && desc.starts_with(['R', 'A'])) {
                out.oracle_fail("C07:cross-kind-never-overwrites", line, &format!("{pd} held at key {} was replaced by {desc}", key_str(key)));
            }
            if desc.starts_with(['T', 'R', 'A']) && pd.chars().next() == desc.chars().next() {
                let (new_ids, old_ids) = (id_set(&desc), id_set(&pd));
                if old_ids.iter().any(|o| !new_ids.contains(o)) {
                    out.oracle_fail("C07:sets-only-grow", line, &format!("set at {} shrank: {pd} -> {desc}", key_str(key)));
                }
            }
        }
    }
}

fn run_to_end(ctx: &mut Ctx, id: &str) {
    let mut guard = 0;
    while ctx.world.phase(id) == 1 && guard < 20 {
        ctx.world.answer(id);
        ctx.world.resume(id);
        guard += 1;
    }
}

fn finish_inflight(ctx: &mut Ctx, id: &str, before: &Store, sequential: bool, out: &mut Out) -> String {
    let inf = ctx.world.inflight.get_mut(id).expect("inflight");
    let toks = std::mem::take(&mut inf.toks);
    match inf.done.clone() {
        Some(res) => {
            let inf = ctx.world.inflight.remove(id).expect("inflight");
            oracle(ctx, &inf.d, &res, &inf.puts, before, inf.got_local, out);
            if sequential {
                oracle_after(ctx, &inf.d, &res, before, out);
            }
            for (key, rec, _) in &inf.puts {
                ctx.note_shown(key, rec);
                if key_number(key).map(|k| k % 3 != 0).unwrap_or(false) && describe(key, rec).starts_with('C') {
                    // a Chunk stored under an owner- / register-derived key (its bytes ARE that address preimage)
                    out.count("known:K-f5-cross-kind-key-squat:stored");
                }
            }
            if sequential {
                history_oracle(ctx, out);
            }
            out.count(&format!("result:{res}"));
            fmt_out(&res, &toks)
        }
        None => fmt_out("pend", &toks),
    }
}

pub fn exec_line(ctx: &mut Ctx, line: &str, out: &mut Out) -> String {
    let ws: Vec<&str> = line.split_whitespace().collect();
    match ws.first().copied() {
        Some("case") if ws.len() == 7 => {
            let (Some(store), Some(d)) = (parse_store(ws[1]), parse_delivery(&ws[2..])) else { return "bad-op".into() };
            ctx.world.reset(store.clone());
            ctx.reset_history(line);
            out.count(&format!("case:{}:{}", ws[2], ws[3]));
            ctx.world.begin("x", d);
            run_to_end(ctx, "x");
            finish_inflight(ctx, "x", &store, true, out)
        }
        Some("new") if ws.len() == 2 => {
            let Some(store) = parse_store(ws[1]) else { return "bad-op".into() };
            ctx.world.reset(store);
            ctx.reset_history(line);
            "ok".into()
        }
        Some("deliver") if ws.len() == 6 => {
            let Some(d) = parse_delivery(&ws[1..]) else { return "bad-op".into() };
            ctx.history.push(line.to_string());
            out.count(&format!("deliver:{}:{}", ws[1], ws[2]));
            let before = ctx.world.store.clone();
            let sequential = ctx.world.inflight.is_empty();
            ctx.world.begin("x", d);
            run_to_end(ctx, "x");
            finish_inflight(ctx, "x", &before, sequential, out)
        }
        Some("begin") if ws.len() == 7 => {
            let Some(d) = parse_delivery(&ws[2..]) else { return "bad-op".into() };
            if ctx.world.inflight.contains_key(ws[1]) {
                return "bad-op".into();
            }
            ctx.history.push(line.to_string());
            if ctx.world.inflight.values().any(|i| i.d.rk == d.rk) {
                ctx.overlapped = true;
            }
            out.count(&format!("begin:{}:{}", ws[2], ws[3]));
            let before = ctx.world.store.clone();
            ctx.world.begin(ws[1], d);
            finish_inflight(ctx, ws[1], &before, false, out)
        }
        Some("ans") if ws.len() == 2 => {
            if ctx.world.phase(ws[1]) != 1 {
                return "bad-op".into();
            }
            ctx.history.push(line.to_string());
            out.count("ans");
            ctx.world.answer(ws[1]);
            "answered".into()
        }
        Some("run") if ws.len() == 2 => {
            if ctx.world.phase(ws[1]) != 2 {
                return "bad-op".into();
            }
            ctx.history.push(line.to_string());
            out.count("run");
            let before = ctx.world.store.clone();
            ctx.world.resume(ws[1]);
            finish_inflight(ctx, ws[1], &before, false, out)
        }
        Some("dump") => {
            ctx.history.push(line.to_string());
            if ctx.world.inflight.is_empty() {
                history_oracle(ctx, out);
            }
            format!("store {}", dump_store(&ctx.world.store))
        }
        Some("evict") if ws.len() == 2 => {
            let Ok(k) = ws[1].parse::<u64>() else { return "bad-op".into() };
            ctx.history.push(line.to_string());
            out.count("evict");
            // a store mutation concurrent with a validation: the per-key-serialised C07 clauses do not apply
            if !ctx.world.inflight.is_empty() {
                ctx.overlapped = true;
            }
            ctx.removed.insert(k);
            match ctx.world.store.remove(&record_key(k).to_vec()) {
                Some(_) => "evicted".into(),
                None => "absent".into(),
            }
        }
        Some("tamper") if ws.len() == 10 => {
            // tamper <store> <path> <kind> <rk> <contentA> <pay> <contentB> <node> <variant>
            let (Some(store), Some(mut d), Some(other), Ok(node)) = (parse_store(ws[1]), parse_delivery(&ws[2..7]), parse_content(ws[7]), ws[8].parse::<usize>()) else {
                return "bad-op".into();
            };
            d.tamper = Some(Tamper { other, node, variant: ws[9].chars().next().unwrap_or('b') });
            ctx.history = vec![line.to_string()];
            ctx.overlapped = false;
            ctx.world.reset(store.clone());
            out.count(&format!("tamper:{}:{}:{}", ws[2], ws[3], ws[9]));
            ctx.world.begin("x", d);
            run_to_end(ctx, "x");
            let inf = ctx.world.inflight.remove("x").expect("inflight");
            let res = inf.done.clone().unwrap_or_else(|| "pend".into());
            tamper_oracle(line, &res, &inf.puts, out);
            out.count(&format!("tamper-result:{res}"));
            fmt_out(&res, &inf.toks)
        }
        Some("big") if ws.len() == 4 => {
            // big <path> <kind> <delta>: nothing held; valid content, right key, valid payment; only the size varies
            let good = "0.0.1.f.1.1.5,1.1.1.f.1.1.2,2.2.1.f.1.1.3;0.1.2";
            let (kind, rk, content) = match ws[2] {
                "chunk" | "chunkp" => (ws[2], "0", "C0"),
                "pad" | "padp" => (ws[2], "1", "S0.1.v"),
                "junk" => ("chunk", "0", "X"),
                "junkp" => ("chunkp", "0", "X"),
                _ => return "bad-op".into(),
            };
            let pay = if is_paid(kind) { good } else { "-" };
            let (Some(mut d), Ok(delta)) = (parse_delivery(&[ws[1], kind, rk, content, pay]), ws[3].parse::<i64>()) else { return "bad-op".into() };
            d.big = Some(delta);
            d.big_kind = ws[2].to_string();
            ctx.history = vec![line.to_string()];
            ctx.overlapped = false;
            ctx.world.reset(Store::new());
            out.count(&format!("big:{}:{}:{}", ws[1], ws[2], if delta < 0 { "below" } else { "at-or-above" }));
            ctx.world.begin("x", d);
            run_to_end(ctx, "x");
            let inf = ctx.world.inflight.remove("x").expect("inflight");
            let res = inf.done.clone().unwrap_or_else(|| "pend".into());
            // oracle (C04): a record of MAX_PACKET_SIZE bytes or more is refused on every path and nothing is stored
            if delta >= 0 && (res == "ok" || !inf.puts.is_empty()) {
                let stored = inf.puts.first().map(|p| p.1.value.len()).unwrap_or(0);
                out.oracle_fail("C04:oversize-refused", line, &format!("a record of MAX_PACKET_SIZE{delta:+} bytes was accepted (result {res}, {} put(s), stored value {stored} bytes)", inf.puts.len()));
            }
            if res == "panic" || res == "timeout" {
                out.oracle_fail("no-panic", line, &format!("validation of a big record ended with {res}"));
            }
            out.count(&format!("big-result:{res}"));
            format!("{res} puts={}", inf.puts.len())
        }
        Some("bigm") if ws.len() == 3 => {
            let bad = "0.0.1.e.1.1.5,1.1.1.f.1.1.2,2.2.1.f.1.1.3;0.1.2";
            let (kind, bk, pay) = match ws[1] {
                "c" => ("txp", "txmp", bad),
                "r" => ("tx", "txm", "-"),
                _ => return "bad-op".into(),
            };
            let (Some(mut d), Ok(delta)) = (parse_delivery(&[ws[1], kind, "1", "T0.1.v", pay]), ws[2].parse::<i64>()) else { return "bad-op".into() };
            let target = (big::LIMIT as i64 + delta).max(0) as usize;
            let Some(held) = big::merge_held(target) else { return "bad-op".into() };
            d.big = Some(delta);
            d.big_kind = bk.to_string();
            let mut store = Store::new();
            let held_len = held.value.len();
            store.insert(held.key.to_vec(), held);
            ctx.world.reset(store);
            ctx.reset_history(line);
            out.count(&format!("bigm:{}:{}", ws[1], if delta < 0 { "below" } else { "at-or-above" }));
            ctx.world.begin("x", d);
            run_to_end(ctx, "x");
            let inf = ctx.world.inflight.remove("x").expect("inflight");
            let res = inf.done.clone().unwrap_or_else(|| "pend".into());
            // oracle (C04): whatever the node PUTS is below MAX_PACKET_SIZE — no peer accepts a larger record by
            // replication and kad cannot carry it; both parts were below the limit on their own
            for (_, rec, _) in &inf.puts {
                if rec.value.len() >= big::LIMIT {
                    out.oracle_fail("C04:stored-record-never-oversized", line, &format!("held {held_len} bytes + delivered: the node put a merged record of {} bytes (MAX_PACKET_SIZE = {})", rec.value.len(), big::LIMIT));
                }
            }
            if delta < 0 && (res != "ok" || inf.puts.len() != 1) {
                out.oracle_fail("C07:union-of-valid-delivered", line, &format!("a valid transaction whose union with the held set is below the limit was not stored (result {res})"));
            }
            if res == "panic" || res == "timeout" {
                out.oracle_fail("no-panic", line, &format!("validation ended with {res}"));
            }
            out.count(&format!("bigm-result:{res}"));
            format!("{res} puts={}", inf.puts.len())
        }
        Some("close") if ws.len() == 3 => {
            ctx.history = vec![line.to_string()];
            ctx.overlapped = false;
            closepeers::exec(ctx, ws[1], ws[2], line, out)
        }
        Some("sput") => {
            out.count(&format!("sput:{}:{}", ws.get(3).unwrap_or(&"?"), ws.get(4).unwrap_or(&"?")));
            let r = sput::exec(&ws[1..]);
            // oracle (C04): never readable / listed; oversize refused; unparseable emits nothing
            if ws.len() == 5 {
                let (maxb, len) = (ws[1].parse::<usize>().unwrap_or(0), ws[2].parse::<usize>().unwrap_or(0));
                if !r.contains("obs=same") {
                    out.oracle_fail("C04:put-never-readable", line, &format!("RecordStore::put changed an observable: {r}"));
                }
                if (len >= maxb) != r.starts_with("tooLarge") {
                    out.oracle_fail("C04:oversize-refused", line, &format!("len {len} max {maxb}: {r}"));
                }
                if (ws[3] == "bad" || ws[3] == "junk" || ws[3] == "short") && !r.contains("ev=0") {
                    out.oracle_fail("C04:unparseable-refused", line, &format!("event emitted for an unparseable record: {r}"));
                }
            }
            r
        }
        _ => "bad-op".into(),
    }
}

fn main() {
    if std::env::var("VERIF_PANIC").is_err() { std::panic::set_hook(Box::new(|_| {})); }
    let args = common::parse_args();
    let mode = args.extra.get("mode").cloned().unwrap_or_else(|| "c03".into());
    let mut out = Out::new(&args.out);
    let stub = stub::start();
    let mut ctx = Ctx { world: World::new(stub.clone()), history: vec![], overlapped: false, best_pad: Default::default(), seen_ids: Default::default(), removed: Default::default() };
    let mut replay: std::collections::VecDeque<String> = args.replay.as_ref().map(common::read_lines).unwrap_or_default().into();
    let mut g = gen::Gen::new(&mode, args.n, Rng::new(args.seed));
    loop {
        let line = if args.replay.is_some() {
            replay.pop_front()
        } else {
            let w = &ctx.world;
            g.next(&|id: &str| w.phase(id))
        };
        let Some(line) = line else { break };
        let o = exec_line(&mut ctx, &line, &mut out);
        if line.starts_with("case") || line.starts_with("deliver") || line.starts_with("sput") || line.starts_with("begin") || line.starts_with("close") || line.starts_with("tamper") || line.starts_with("big") {
            // (`bigm` lines start with "big" too)
            out.nontrivial_case(&line);
        }
        out.line(line.clone(), o);
    }
    let unexpected = stub.state.lock().expect("stub").unexpected.clone();
    if !unexpected.is_empty() {
        out.notes.push(format!("stub saw unexpected requests: {:?}", &unexpected[..unexpected.len().min(3)]));
    }
    out.notes.push(format!("mode {mode}: real Node::validate_and_store_record / store_replicated_in_record over harness-owned swarm channels; payment contract = loopback JSON-RPC stub"));
    out.finish();
}
