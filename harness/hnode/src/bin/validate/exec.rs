//! Drives the real `Node` validation code: the harness owns the receivers of both swarm command
//! channels and plays the swarm driver; every await point on the local store (`RecordStoreHasKey`,
//! `GetLocalRecord`) is an explicit step, so interleavings of several validations are op lines.
use crate::stub::Stub;
use crate::world::*;
use ant_evm::{EvmNetwork, RewardsAddress};
use ant_networking::verif::{LocalSwarmCmd, NetworkSwarmCmd};
use ant_networking::{Network, NetworkError};
use ant_node::verif::node::{VerifNode, VerifNodeError};
use ant_node::{NodeEvent, NodeEventsReceiver};
use ant_protocol::messages::{Cmd, Request};
use ant_protocol::storage::RecordType;
use libp2p::kad::{Record, RecordKey};
use std::collections::BTreeMap;
use std::future::Future;
use std::pin::Pin;
use tokio::sync::{mpsc, oneshot};

pub type Store = BTreeMap<Vec<u8>, Record>;

#[derive(Clone, Debug)]
pub struct Delivery {
    pub client: bool,
    pub kind: String,
    pub rk: u64,
    pub content: DContent,
    pub pay: Option<PayD>,
    /// structure-aware wire tampering of the serialised record value (see wire.rs)
    pub tamper: Option<Tamper>,
    /// replace the record by a well-formed one of this kind whose value is `MAX_PACKET_SIZE + delta` bytes long (big.rs)
    pub big: Option<i64>,
    /// the `big` op's kind word (chunk chunkp pad padp junk junkp)
    pub big_kind: String,
}

#[derive(Clone, Debug)]
pub struct Tamper {
    /// the honest record whose subtrees are spliced in
    pub other: DContent,
    /// index of the node of this delivery's value tree (pre-order)
    pub node: usize,
    /// 'b' = the corresponding subtree of `other`; '0' '1' '2' = an arbitrary value of the same shape
    pub variant: char,
}

/// tampered record value, or None when the node does not exist (in either tree)
pub fn tamper_value(a: &[u8], b: &[u8], node: usize, variant: char) -> Option<Vec<u8>> {
    use crate::wire;
    if a.len() < 3 || b.len() < 3 {
        return None;
    }
    let mut ta = wire::decode(&a[2..])?;
    let tb = wire::decode(&b[2..])?;
    let nodes = ta.nodes();
    let path = nodes.get(node)?.clone();
    let new = match variant {
        'b' => {
            let sub = tb.get(&path)?.clone();
            if Some(&sub) == ta.get(&path) {
                return None; // nothing to swap
            }
            sub
        }
        '0' => ta.get(&path)?.mutated(0),
        '1' => ta.get(&path)?.mutated(1),
        _ => ta.get(&path)?.mutated(2),
    };
    if !ta.set(&path, new) {
        return None;
    }
    let mut out = a[..2].to_vec();
    out.extend_from_slice(&wire::encode(&ta));
    Some(out)
}

pub fn parse_delivery(ws: &[&str]) -> Option<Delivery> {
    if ws.len() != 5 {
        return None;
    }
    let client = match ws[0] {
        "c" => true,
        "r" => false,
        _ => return None,
    };
    kind_of(ws[1])?;
    Some(Delivery {
        client,
        kind: ws[1].to_string(),
        rk: ws[2].parse().ok()?,
        content: parse_content(ws[3])?,
        pay: parse_pay(ws[4])?,
        tamper: None,
        big: None,
        big_kind: String::new(),
    })
}

pub fn parse_store(s: &str) -> Option<Store> {
    let mut st = Store::new();
    if s == "-" {
        return Some(st);
    }
    for e in s.split(',') {
        let (k, d) = e.split_once('=')?;
        let k: u64 = k.parse().ok()?;
        let rec = build_stored(k, d)?;
        st.insert(rec.key.to_vec(), rec);
    }
    Some(st)
}

pub fn dump_store(st: &Store) -> String {
    let mut v: Vec<(u64, String)> = st
        .values()
        .map(|r| (key_number(&r.key).unwrap_or(9999), describe(&r.key, r)))
        .collect();
    v.sort();
    if v.is_empty() {
        return "-".into();
    }
    v.iter().map(|(k, d)| format!("{k}={d}")).collect::<Vec<_>>().join(",")
}

pub fn classify(e: &VerifNodeError) -> String {
    use VerifNodeError as E;
    match e {
        E::RecordKeyMismatch => "keyMismatch".into(),
        E::InvalidPutWithoutPayment(_) => "unpaid".into(),
        E::UnexpectedRecordWithPayment(_) => "unexpectedPayment".into(),
        E::IgnoringOutdatedScratchpadPut => "outdated".into(),
        E::InvalidScratchpadSignature => "invalidSig".into(),
        E::InvalidQuoteContent => "payWrongContent".into(),
        E::EvmNetwork(_) => "payChain".into(),
        E::InvalidRequest(m) => {
            if m.starts_with("Payment is not valid") {
                "payNotForUs"
            } else if m.starts_with("Payment quote has expired") {
                "payExpired"
            } else if m.contains("out-of-range payees") {
                "payOutOfRange"
            } else if m.starts_with("No transactions to verify") {
                "noTx"
            } else if m.contains("claimed to be existing locally was not found") {
                "regNotFound"
            } else if m.starts_with("Record too large") {
                "tooLarge"
            } else {
                "invalidRequest"
            }
            .into()
        }
        E::Protocol(ant_protocol::Error::RecordParsingFailed) => "parse".into(),
        E::Protocol(ant_protocol::Error::RecordHeaderParsingFailed) => "header".into(),
        E::Protocol(_) => "protocol".into(),
        E::Register(ant_registers::Error::DifferentBaseRegister) => "regDifferentBase".into(),
        E::Register(_) => "regInvalid".into(),
        E::Network(NetworkError::RecordKindMismatch(_)) => "kindMismatch".into(),
        E::Network(_) => "network".into(),
        _ => "other".into(),
    }
}

enum Pending {
    Has(oneshot::Sender<bool>, RecordKey),
    Get(oneshot::Sender<Option<Record>>, RecordKey),
}

/// One validation in flight (its own `Network` handle / command channels, so commands are attributable).
pub struct Inflight {
    pub d: Delivery,
    local_rx: mpsc::Receiver<LocalSwarmCmd>,
    net_rx: mpsc::Receiver<NetworkSwarmCmd>,
    fut: Pin<Box<dyn Future<Output = Result<(), VerifNodeError>>>>,
    events: NodeEventsReceiver,
    incoming_hash: [u8; 32],
    first_hash: Option<[u8; 32]>,
    stub_seen: usize,
    pending: Option<Pending>,
    /// the pending read has been served (value fixed) but the validation has not been resumed yet
    pub answered: bool,
    pub done: Option<String>,
    /// tokens emitted since the last report
    pub toks: Vec<String>,
    /// (key, new record, previous record at that key) for every PutLocalRecord, in order
    pub puts: Vec<(RecordKey, Record, Option<Record>)>,
    /// number of store reads answered so far
    pub reads: usize,
    /// a `GetLocalRecord` of this validation was served a record (the key was held when it read)
    pub got_local: bool,
}

pub struct World {
    pub rt: tokio::runtime::Runtime,
    pub stub: Stub,
    pub store: Store,
    pub inflight: BTreeMap<String, Inflight>,
    salt: u64,
}

fn type_char(t: &RecordType, incoming: &[u8; 32], stored: Option<&Record>) -> String {
    match t {
        RecordType::Chunk => "c".into(),
        RecordType::Scratchpad => "s".into(),
        RecordType::NonChunk(x) => {
            let i = x.0 == *incoming;
            let m = stored.map(|r| sha3(&r.value) == x.0).unwrap_or(false);
            match (i, m) {
                (true, true) => "im",
                (true, false) => "i",
                (false, true) => "m",
                _ => "o",
            }
            .into()
        }
    }
}

impl World {
    pub fn new(stub: Stub) -> Self {
        World { rt: new_rt(), stub, store: Store::new(), inflight: BTreeMap::new(), salt: 0 }
    }

    /// fresh history: new runtime (drops every task of the previous one), given local store content
    pub fn reset(&mut self, store: Store) {
        self.inflight.clear();
        let old = std::mem::replace(&mut self.rt, new_rt());
        old.shutdown_background();
        self.store = store;
        let mut g = self.stub.state.lock().expect("stub");
        g.answers.clear();
        g.log.clear();
    }

    pub fn begin(&mut self, id: &str, d: Delivery) {
        self.salt += 1;
        let (net_tx, net_rx) = mpsc::channel::<NetworkSwarmCmd>(10_000);
        let (local_tx, local_rx) = mpsc::channel::<LocalSwarmCmd>(10_000);
        let kp = peer_keypair(0);
        let network = Network::new(net_tx, local_tx, peer_id(0), kp);
        let evm = EvmNetwork::new_custom(
            &format!("http://127.0.0.1:{}/", self.stub.port),
            "0x5FbDB2315678afecb367f032d93F642f64180aa3",
            "0x8464135c8F25Da09e49BC8782676a84730C318bC",
        );
        let node = VerifNode::new(network, evm, RewardsAddress::from([0x11u8; 20]));
        let events = node.subscribe_events();
        // the address the payment should be for: the one the content determines (fallback: the record key)
        let addr_key = derived_key(&d.content).unwrap_or(d.rk);
        let built = d.pay.as_ref().map(|p| build_pay(p, key_xorname(addr_key), self.salt));
        if let Some(b) = &built {
            let mut g = self.stub.state.lock().expect("stub");
            for (h, v, a) in &b.chain {
                g.answers.insert(*h, (*v, *a));
            }
        }
        let mut first_hash = built.as_ref().and_then(|b| b.chain.first().map(|c| c.0));
        let mut record = build_record(&d.kind, d.rk, &d.content, built.as_ref(), d.client);
        if let Some(delta) = d.big {
            // same delivery, but the content is as large as asked for (the payment is rebuilt for its address)
            let target = (crate::big::LIMIT as i64 + delta).max(0) as usize;
            let (salt, stub, payd) = (self.salt, self.stub.clone(), d.pay.clone());
            let mut last_first = None;
            let mut pay_for = |x: [u8; 32]| {
                let b = payd.as_ref().map(|p| build_pay(p, x, salt));
                if let Some(b) = &b {
                    let mut g = stub.state.lock().expect("stub");
                    for (h, v, a) in &b.chain {
                        g.answers.insert(*h, (*v, *a));
                    }
                    last_first = b.chain.first().map(|c| c.0);
                }
                b
            };
            match crate::big::build(&d.big_kind, target, &mut pay_for) {
                Some(r) => record = r,
                None => record.value.clear(),
            }
            if last_first.is_some() {
                first_hash = last_first;
            }
        }
        let mut tamper_na = false;
        if let Some(t) = &d.tamper {
            let addr_b = derived_key(&t.other).unwrap_or(d.rk);
            let built_b = d.pay.as_ref().map(|p| build_pay(p, key_xorname(addr_b), self.salt + 100_000));
            if let Some(b) = &built_b {
                let mut g = self.stub.state.lock().expect("stub");
                for (h, v, a) in &b.chain {
                    g.answers.insert(*h, (*v, *a));
                }
            }
            let rec_b = build_record(&d.kind, d.rk, &t.other, built_b.as_ref(), d.client);
            match tamper_value(&record.value, &rec_b.value, t.node, t.variant) {
                Some(v) => record.value = v,
                None => tamper_na = true,
            }
        }
        let incoming_hash = sha3(&record.value);
        let client = d.client;
        let fut: Pin<Box<dyn Future<Output = Result<(), VerifNodeError>>>> = Box::pin(async move {
            if client {
                node.validate_and_store_record(record).await
            } else {
                node.store_replicated_in_record(record).await
            }
        });
        let stub_seen = self.stub.state.lock().expect("stub").log.len();
        self.inflight.insert(
            id.to_string(),
            Inflight {
                d,
                local_rx,
                net_rx,
                fut,
                events,
                incoming_hash,
                first_hash,
                stub_seen,
                pending: None,
                answered: false,
                done: None,
                toks: vec![],
                puts: vec![],
                reads: 0,
                got_local: false,
            },
        );
        if tamper_na {
            if let Some(inf) = self.inflight.get_mut(id) {
                inf.done = Some("skip".into());
            }
            return;
        }
        self.advance(id);
    }

    /// serve the pending store read of validation `id` from the current store (the validation is not resumed)
    pub fn answer(&mut self, id: &str) -> bool {
        let Some(inf) = self.inflight.get_mut(id) else { return false };
        if inf.answered {
            return false;
        }
        match inf.pending.take() {
            Some(Pending::Has(tx, key)) => {
                let _ = tx.send(self.store.contains_key(&key.to_vec()));
            }
            Some(Pending::Get(tx, key)) => {
                let got = self.store.get(&key.to_vec()).cloned();
                inf.got_local |= got.is_some();
                let _ = tx.send(got);
            }
            None => return false,
        }
        inf.reads += 1;
        inf.answered = true;
        true
    }

    /// resume validation `id` after its read was served; runs to its next store read or to the end
    pub fn resume(&mut self, id: &str) -> bool {
        match self.inflight.get_mut(id) {
            Some(inf) if inf.answered => inf.answered = false,
            _ => return false,
        }
        self.advance(id);
        true
    }

    /// 0 = not in flight / finished, 1 = waiting for its read to be served, 2 = served, waiting to be resumed
    pub fn phase(&self, id: &str) -> u8 {
        match self.inflight.get(id) {
            Some(i) if i.answered => 2,
            Some(i) if i.pending.is_some() => 1,
            _ => 0,
        }
    }

    fn advance(&mut self, id: &str) {
        let World { rt, stub, store, inflight, .. } = self;
        let inf = inflight.get_mut(id).expect("inflight");
        let r = std::panic::catch_unwind(std::panic::AssertUnwindSafe(|| {
            rt.block_on(async {
                match tokio::time::timeout(std::time::Duration::from_secs(20), run(inf, store, stub)).await {
                    Ok(()) => {}
                    Err(_) => inf.done = Some("timeout".into()),
                }
            })
        }));
        if r.is_err() {
            inf.done = Some("panic".into());
        }
    }
}

fn new_rt() -> tokio::runtime::Runtime {
    tokio::runtime::Builder::new_current_thread().enable_all().build().expect("runtime")
}

fn sync_v(inf: &mut Inflight, stub: &Stub) {
    let g = stub.state.lock().expect("stub");
    while inf.stub_seen < g.log.len() {
        let mine = inf.first_hash.map(|h| g.log[inf.stub_seen].first() == Some(&h)).unwrap_or(false);
        if mine {
            inf.toks.push("V".into());
        }
        inf.stub_seen += 1;
    }
}

fn handle_local(inf: &mut Inflight, store: &mut Store, stub: &Stub, cmd: LocalSwarmCmd, after_main: bool) {
    sync_v(inf, stub);
    match cmd {
        LocalSwarmCmd::RecordStoreHasKey { key, sender } => {
            inf.toks.push(format!("H{}", key_str(&key)));
            inf.pending = Some(Pending::Has(sender, key));
        }
        LocalSwarmCmd::GetLocalRecord { key, sender } => {
            if after_main {
                // a `replicate_valid_fresh_record` task checking that the record is in the store
                let got = store.get(&key.to_vec()).cloned();
                if got.is_none() {
                    inf.toks.push(format!("N{}", key_str(&key)));
                }
                let _ = sender.send(got);
            } else {
                inf.toks.push(format!("G{}", key_str(&key)));
                inf.pending = Some(Pending::Get(sender, key));
            }
        }
        LocalSwarmCmd::GetClosestKLocalPeers { sender } => {
            inf.toks.push("K".into());
            let close: Vec<libp2p::PeerId> =
                inf.d.pay.as_ref().map(|p| p.close.iter().map(|i| peer_id(*i)).collect()).unwrap_or_default();
            let _ = sender.send(close);
        }
        LocalSwarmCmd::PaymentReceived => {
            let mut amount = "?".to_string();
            while let Ok(ev) = inf.events.try_recv() {
                if let NodeEvent::RewardReceived(a, _) = ev {
                    amount = a.as_atto().to_string();
                }
            }
            inf.toks.push(format!("P{amount}"));
        }
        LocalSwarmCmd::PutLocalRecord { record } => {
            inf.toks.push(format!("W{}={}", key_str(&record.key), describe(&record.key, &record)));
            let prev = store.insert(record.key.to_vec(), record.clone());
            inf.puts.push((record.key.clone(), record, prev));
        }
        LocalSwarmCmd::FetchCompleted((key, ty)) => {
            let t = type_char(&ty, &inf.incoming_hash, store.get(&key.to_vec()));
            inf.toks.push(format!("F{}:{t}", key_str(&key)));
        }
        LocalSwarmCmd::GetReplicateCandidates { sender, .. } => {
            let _ = sender.send(vec![peer_id(9)]);
        }
        _ => inf.toks.push("?local".into()),
    }
}

fn handle_net(inf: &mut Inflight, store: &Store, cmd: NetworkSwarmCmd) {
    match cmd {
        NetworkSwarmCmd::SendRequest { req: Request::Cmd(Cmd::Replicate { keys, .. }), .. } => {
            for (addr, ty) in keys {
                let key = addr.to_record_key();
                let t = type_char(&ty, &inf.incoming_hash, store.get(&key.to_vec()));
                inf.toks.push(format!("R{}:{t}", key_str(&key)));
            }
        }
        _ => inf.toks.push("?net".into()),
    }
}

async fn run(inf: &mut Inflight, store: &mut Store, stub: &Stub) {
    if inf.done.is_some() {
        return;
    }
    loop {
        if inf.pending.is_some() {
            return;
        }
        tokio::select! {
            biased;
            r = &mut inf.fut => {
                sync_v(inf, stub);
                inf.done = Some(match r { Ok(()) => "ok".into(), Err(e) => classify(&e) });
                break;
            }
            Some(cmd) = inf.local_rx.recv() => handle_local(inf, store, stub, cmd, false),
            Some(cmd) = inf.net_rx.recv() => handle_net(inf, store, cmd),
        }
    }
    // main future finished: drain what it emitted last and run its replication tasks to quiescence
    let mut idle = 0;
    while idle < 8 {
        let mut got = false;
        while let Ok(cmd) = inf.local_rx.try_recv() {
            handle_local(inf, store, stub, cmd, true);
            got = true;
        }
        while let Ok(cmd) = inf.net_rx.try_recv() {
            handle_net(inf, store, cmd);
            got = true;
        }
        if got {
            idle = 0;
        } else {
            idle += 1;
        }
        tokio::task::yield_now().await;
    }
}
