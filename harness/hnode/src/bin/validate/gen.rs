//! Generators: complete enumeration of the finite abstraction (kinds x paths x condition vectors),
//! adversarial (key, content) pairs, `RecordStore::put` cases, and C07 histories (sequential and
//! explicitly interleaved deliveries for one key).
use crate::world::KINDS;
use common::Rng;
use std::collections::VecDeque;

pub const NBITS: usize = 9; // sigs selfPayee close notExpired chain quoteAddr | keyMatches existsLocally contentValid

fn family(kind: &str) -> &'static str {
    match kind {
        "chunkp" | "chunk" => "chunk",
        "padp" | "pad" => "pad",
        "txp" | "tx" => "tx",
        _ => "reg",
    }
}
fn space(fam: &str) -> u64 {
    match fam {
        "chunk" => 0,
        "pad" | "tx" => 1,
        _ => 2,
    }
}

fn subset(rng: &mut Rng, lo: u64, hi: u64, nonempty: bool) -> Vec<u64> {
    let mut v: Vec<u64> = (lo..=hi).filter(|_| rng.chance(1, 2)).collect();
    if v.is_empty() && nonempty {
        v.push(rng.range(lo, hi));
    }
    v
}
fn join(v: &[u64], sep: &str) -> String {
    v.iter().map(|x| x.to_string()).collect::<Vec<_>>().join(sep)
}

/// payment descriptor realising the six condition bits
pub fn pay_for(bits: &[bool], rng: &mut Rng) -> String {
    let (sigs, self_payee, close, fresh, chain, qaddr) = (bits[0], bits[1], bits[2], bits[3], bits[4], bits[5]);
    let mut payees: Vec<u64> = vec![1, 2, 3, 4, 5];
    rng.shuffle(&mut payees);
    let nq = if !chain && rng.chance(1, 5) { *rng.pick(&[1usize, 2, 4, 5]) } else { 3 };
    let mut payees: Vec<u64> = payees[..nq.min(5)].to_vec();
    if self_payee {
        let p = rng.below(nq as u64) as usize;
        payees[p] = 0;
        if rng.chance(1, 8) && nq > 1 {
            // this node is named twice
            let p2 = (p + 1) % nq;
            payees[p2] = 0;
        }
    }
    // (payee, signer, sig, time, content, valid, amount)
    let mut qs: Vec<(u64, u64, bool, char, bool, bool, u64)> =
        payees.iter().map(|p| (*p, *p, true, if rng.chance(1, 6) { 'b' } else { 'f' }, true, true, rng.range(0, 9))).collect();
    if !sigs {
        let i = rng.below(nq as u64) as usize;
        if rng.chance(1, 4) && qs[i].0 != 0 && nq > 1 {
            // the claimed id does not decode (the quote itself may even be validly signed by its issuer)
            qs[i].0 = if rng.chance(1, 2) { 999 } else { 998 };
            qs[i].2 = rng.chance(1, 2);
        } else if rng.chance(1, 2) {
            qs[i].2 = false;
        } else {
            qs[i].1 = (qs[i].0 + 1) % 6; // signed by somebody else than the claimed payee
        }
    }
    if !fresh {
        let i = rng.below(nq as u64) as usize;
        qs[i].3 = if rng.chance(2, 3) { 'e' } else { 'u' };
    }
    if !chain && nq == 3 {
        let i = rng.below(3) as usize;
        qs[i].5 = false;
    }
    if !qaddr {
        // this node's own quote(s) were issued for another address (every quote if this node has none)
        let own: Vec<usize> = (0..nq).filter(|i| qs[*i].1 == 0).collect();
        if own.is_empty() {
            for q in qs.iter_mut() {
                q.4 = false;
            }
        } else {
            let i = *rng.pick(&own);
            qs[i].4 = false;
        }
    } else if rng.chance(1, 4) {
        // somebody else's quote for another address does not matter
        if let Some(i) = (0..nq).find(|i| qs[*i].1 != 0) {
            qs[i].4 = false;
        }
    }
    let mut close_set: Vec<u64> = qs.iter().map(|q| q.0).filter(|p| *p < 998).collect();
    close_set.sort();
    close_set.dedup();
    if !close {
        let i = rng.below(close_set.len() as u64) as usize;
        close_set.remove(i);
    } else if rng.chance(1, 2) {
        close_set.push(7);
    }
    let qstr: Vec<String> = qs
        .iter()
        .map(|q| {
            let payee = match q.0 {
                999 => "x".to_string(),
                998 => "y".to_string(),
                p => p.to_string(),
            };
            format!("{payee}.{}.{}.{}.{}.{}.{}", q.1, q.2 as u8, q.3, q.4 as u8, q.5 as u8, q.6)
        })
        .collect();
    format!("{};{}", qstr.join(","), if close_set.is_empty() { "-".into() } else { join(&close_set, ".") })
}

pub fn good_pay(rng: &mut Rng) -> String {
    pay_for(&[true; 6], rng)
}

struct Realised {
    store: Vec<(u64, String)>,
    rk: u64,
    content: String,
}

/// content + local store for (kind, path) realising keyMatches / existsLocally / contentValid
fn realise(kind: &str, client: bool, km: bool, ex: bool, cvalid: bool, rng: &mut Rng) -> Realised {
    let fam = family(kind);
    let id = rng.below(3);
    let dk = 3 * id + space(fam);
    let mut store: Vec<(u64, String)> = vec![];
    let content;
    match fam {
        "chunk" => {
            content = if cvalid { format!("C{id}") } else { "X".to_string() };
            if ex {
                store.push((dk, "C".into()));
            }
        }
        "pad" => {
            let n = rng.range(0, 6);
            let sig = if cvalid { "v" } else { *rng.pick(&["w", "n"]) };
            content = format!("S{id}.{n}.{sig}");
            if ex {
                let m = match rng.below(4) {
                    0 => n,
                    1 => n + 1 + rng.below(2),
                    _ => n.saturating_sub(1 + rng.below(2)),
                };
                // the same owner may instead hold a transaction set under that key
                if rng.chance(1, 12) {
                    store.push((dk, "T1".into()));
                } else {
                    store.push((dk, format!("S{m}")));
                }
            }
        }
        "tx" => {
            if client || kind == "txp" {
                let t = rng.range(1, 5);
                content = format!("T{id}.{t}.{}", if cvalid { "v" } else { "i" });
            } else {
                // replicated vector: entries for this key, foreign owners, invalid ones
                let k = rng.range(1, 3);
                let mut es: Vec<String> = vec![];
                for _ in 0..k {
                    let owner = if rng.chance(1, 4) { (id + 1) % 3 } else { id };
                    let valid = if cvalid { rng.chance(3, 4) } else { false };
                    es.push(format!("{owner}.{}.{}", rng.range(1, 5), if valid { "v" } else { "i" }));
                }
                if cvalid {
                    es.insert(0, format!("{id}.{}.v", rng.range(1, 5)));
                } else if rng.chance(1, 4) {
                    es.clear();
                }
                content = if es.is_empty() { "T-".into() } else { format!("T{}", es.join(",")) };
            }
            if ex {
                if rng.chance(1, 12) {
                    store.push((dk, "S2".into()));
                } else {
                    store.push((dk, format!("T{}", join(&subset(rng, 1, 4, true), "."))));
                }
            }
        }
        _ => {
            let alt = rng.chance(1, 6);
            let mut ops: Vec<String> = subset(rng, 1, 4, false).iter().map(|o| format!("{o}v")).collect();
            let mut base = if alt { "a" } else { "g" };
            if !cvalid {
                match rng.below(3) {
                    0 => base = "b",
                    1 => ops.push(format!("{}{}", rng.range(5, 6), if alt { "f" } else { "u" })),
                    _ => ops.push(format!("{}f", rng.range(5, 6))),
                }
            } else if alt && rng.chance(1, 2) {
                ops.push("7u".into());
            }
            content = format!("R{id}.{base}.{}", if ops.is_empty() { "-".into() } else { ops.join(",") });
            if ex {
                let held_alt = if rng.chance(1, 8) { !alt } else { alt };
                let held = subset(rng, 1, 4, false);
                store.push((dk, format!("{}{}", if held_alt { "A" } else { "R" }, join(&held, "."))));
            }
        }
    }
    let rk = if km {
        dk
    } else {
        // another key: same space next id, or another space; sometimes one that is held locally
        let other = match rng.below(3) {
            0 => 3 * ((id + 1) % 3) + space(fam),
            1 => 3 * id + (space(fam) + 1) % 3,
            _ => 3 * ((id + 2) % 3) + (space(fam) + 2) % 3,
        };
        if rng.chance(1, 2) {
            let d = match other % 3 {
                0 => "C".to_string(),
                1 => "S3".to_string(),
                _ => "R1".to_string(),
            };
            store.push((other, d));
        }
        other
    };
    Realised { store, rk, content }
}

fn store_str(mut s: Vec<(u64, String)>) -> String {
    s.sort();
    s.dedup_by(|a, b| a.0 == b.0);
    if s.is_empty() {
        "-".into()
    } else {
        s.iter().map(|(k, d)| format!("{k}={d}")).collect::<Vec<_>>().join(",")
    }
}

pub fn case_line(kind: &str, client: bool, bits: &[bool], rng: &mut Rng) -> String {
    let r = realise(kind, client, bits[6], bits[7], bits[8], rng);
    let pay = if kind.ends_with('p') { pay_for(&bits[..6], rng) } else { "-".to_string() };
    format!("case {} {} {} {} {} {}", store_str(r.store), if client { "c" } else { "r" }, kind, r.rk, r.content, pay)
}

fn bits_of(x: u64) -> Vec<bool> {
    (0..NBITS).map(|i| (x >> i) & 1 == 1).collect()
}

/// past minimal failures / the defect hypotheses of DESIGN §5 first
fn corpus() -> Vec<String> {
    vec![
        // F-b: everything valid except that this node's quote was issued for another address
        "case - c chunkp 0 C0 0.0.1.f.0.1.5,1.1.1.f.1.1.2,2.2.1.f.1.1.3;0.1.2".into(),
        "case - c regp 2 R0.g.1v 1.1.1.f.1.1.5,0.0.1.f.0.1.2,2.2.1.f.1.1.3;0.1.2".into(),
        // F-c: unpaid register update presented under another key
        "case 2=R1,5=R1 c reg 5 R0.g.1v,2v -".into(),
        "case 2=R1 c reg 0 R0.g.2v -".into(),
        // fully valid uploads
        "case - c chunkp 0 C0 0.0.1.f.1.1.5,1.1.1.f.1.1.2,2.2.1.f.1.1.3;0.1.2".into(),
        "case - c padp 1 S0.3.v 0.0.1.f.1.1.5,1.1.1.f.1.1.2,2.2.1.f.1.1.3;0.1.2".into(),
        "case - c txp 1 T0.1.v 0.0.1.f.1.1.5,1.1.1.f.1.1.2,0.0.1.f.1.1.3;0.1.2".into(),
        "case 1=S3 c pad 1 S0.3.v -".into(),
        "case 1=S3 r pad 1 S0.7.v -".into(),
        "case 1=T1.2 r tx 1 T0.3.v,1.4.v,0.2.i -".into(),
    ]
}


const GOOD: [&str; 3] = ["0.0.1.f.1.1.5", "1.1.1.f.1.1.2", "2.2.1.f.1.1.3"];

/// Deterministic single-cause corpus: for every paid kind, client path, NEW key, fully valid content:
/// the all-true vector and every vector with exactly one payment condition false, each condition in
/// every distinct way the descriptors can make it false (own quote / another payee's quote; expired /
/// future; bad signature / signed by somebody else; on-chain: own result invalid, another payee's result
/// invalid while own is valid, contract call with 1/2/4/5 entries (reverts)); plus own amount zero.
pub fn single_cause_corpus() -> Vec<String> {
    let kinds: [(&str, u64, &str); 4] = [("chunkp", 0, "C0"), ("padp", 1, "S0.3.v"), ("txp", 1, "T0.1.v"), ("regp", 2, "R0.g.1v")];
    // (quotes, close)
    let mut pays: Vec<(Vec<String>, &str)> = vec![];
    let good = || GOOD.iter().map(|s| s.to_string()).collect::<Vec<_>>();
    let with = |i: usize, q: &str| {
        let mut v = GOOD.iter().map(|s| s.to_string()).collect::<Vec<_>>();
        v[i] = q.to_string();
        v
    };
    pays.push((good(), "0.1.2")); // all true
    pays.push((with(0, "0.0.1.f.1.1.0"), "0.1.2")); // all true, own amount zero
    pays.push((with(0, "3.3.1.f.1.1.5"), "1.2.3")); // this node is not a payee
    pays.push((with(0, "0.0.0.f.1.1.5"), "0.1.2")); // own signature bad
    pays.push((with(1, "1.1.0.f.1.1.2"), "0.1.2")); // another payee's signature bad
    pays.push((with(1, "1.3.1.f.1.1.2"), "0.1.2")); // another payee's quote signed by somebody else
    pays.push((with(0, "0.4.1.f.1.1.5"), "0.1.2")); // own entry signed by somebody else
    pays.push((with(0, "0.0.1.e.1.1.5"), "0.1.2")); // own quote expired
    pays.push((with(0, "0.0.1.u.1.1.5"), "0.1.2")); // own quote from the future
    pays.push((with(2, "2.2.1.e.1.1.3"), "0.1.2")); // another payee's quote expired
    pays.push((with(2, "2.2.1.u.1.1.3"), "0.1.2")); // another payee's quote from the future
    pays.push((good(), "1.2")); // this node not in the close set
    pays.push((good(), "0.1")); // another payee not in the close set
    pays.push((good(), "-")); // nobody known as close
    pays.push((with(0, "0.0.1.f.1.0.5"), "0.1.2")); // on-chain: own result invalid
    pays.push((with(1, "1.1.1.f.1.0.2"), "0.1.2")); // on-chain: another payee's result invalid, own valid
    pays.push((with(2, "2.2.1.f.1.0.0"), "0.1.2")); // on-chain: another payee's result invalid and unpaid
    pays.push((vec![GOOD[0].to_string()], "0.1.2")); // on-chain: one entry (contract reverts)
    pays.push((vec![GOOD[0].to_string(), GOOD[1].to_string()], "0.1.2")); // two entries
    pays.push((vec![GOOD[1].to_string(), GOOD[0].to_string(), GOOD[2].to_string(), "3.3.1.f.1.1.1".to_string()], "0.1.2.3")); // four
    pays.push((vec![GOOD[1].to_string(), GOOD[2].to_string(), "3.3.1.f.1.1.1".to_string(), "4.4.1.f.1.1.1".to_string(), GOOD[0].to_string()], "0.1.2.3.4")); // five, own last
    pays.push((with(1, "x.1.1.f.1.1.2"), "0.1.2")); // a quote claims peer-id bytes that do not decode ([0xFF;3]), validly signed by peer 1
    pays.push((with(1, "y.1.1.f.1.1.2"), "0.1.2")); // ... empty id bytes
    pays.push((vec![GOOD[0].to_string(), "x.4.0.f.1.1.1".to_string(), "x.4.0.f.1.1.1".to_string()], "0")); // own genuine quote + unsigned quotes with undecodable ids
    pays.push((vec!["y.4.0.f.1.1.1".to_string(), GOOD[0].to_string(), "x.4.0.f.1.1.1".to_string()], "0"));
    pays.push((with(0, "0.0.1.f.0.1.5"), "0.1.2")); // own quote issued for another address
    pays.push((with(1, "1.1.1.f.0.1.2"), "0.1.2")); // (another payee's quote for another address: allowed)
    let mut v = vec![];
    for (kind, dk, content) in kinds {
        for (qs, close) in &pays {
            v.push(format!("case - c {kind} {dk} {content} {};{close}", qs.join(",")));
        }
    }
    v
}

/// Deterministic one-cause corpus for C04: the only thing wrong is the key the record is presented under.
pub fn key_mismatch_corpus() -> Vec<String> {
    let good = format!("{};0.1.2", GOOD.join(","));
    // (kind, derived key, content, held form of the derived key, replicated content)
    let kinds: [(&str, u64, &str, &str); 8] = [
        ("chunkp", 0, "C0", "C"),
        ("chunk", 0, "C0", "C"),
        ("padp", 1, "S0.3.v", "S1"),
        ("pad", 1, "S0.3.v", "S1"),
        ("txp", 1, "T0.1.v", "T2"),
        ("tx", 1, "T0.1.v", "T2"),
        ("regp", 2, "R0.g.1v", "R2"),
        ("reg", 2, "R0.g.1v", "R2"),
    ];
    let mut v = vec![];
    for (kind, dk, content, held) in kinds {
        let pay = if kind.ends_with('p') { good.clone() } else { "-".to_string() };
        let other = dk + 3; // same space, next id
        let other_held = held;
        for path in ["c", "r"] {
            // control: the right key, not held / held
            v.push(format!("case - {path} {kind} {dk} {content} {pay}"));
            v.push(format!("case {dk}={held} {path} {kind} {dk} {content} {pay}"));
            // the only defect: another key; nothing held / derived key held / presented key held / both held
            v.push(format!("case - {path} {kind} {other} {content} {pay}"));
            v.push(format!("case {dk}={held} {path} {kind} {other} {content} {pay}"));
            v.push(format!("case {other}={other_held} {path} {kind} {other} {content} {pay}"));
            v.push(format!("case {dk}={held},{other}={other_held} {path} {kind} {other} {content} {pay}"));
            // a key of another space
            v.push(format!("case {dk}={held} {path} {kind} {} {content} {pay}", 3 * 2 + (dk + 1) % 3));
        }
    }
    v
}

fn enumerate_cases(rng: &mut Rng) -> Vec<String> {
    let mut v = vec![];
    for kind in KINDS {
        if kind.ends_with('p') {
            for x in 0..(1u64 << NBITS) {
                v.push(case_line(kind, true, &bits_of(x), rng));
            }
            for x in 0..8u64 {
                v.push(case_line(kind, false, &bits_of(x << 6), rng));
            }
        } else {
            for client in [true, false] {
                for x in 0..8u64 {
                    for _ in 0..8 {
                        v.push(case_line(kind, client, &bits_of(x << 6), rng));
                    }
                }
            }
        }
    }
    v
}

fn sample_case(rng: &mut Rng) -> String {
    let kind = *rng.pick(&KINDS);
    let client = if kind.ends_with('p') { rng.chance(9, 10) } else { rng.chance(1, 2) };
    // mostly-valid vectors: each bit false with probability 1/5, plus all-true vectors
    let bits: Vec<bool> = if rng.chance(1, 4) { vec![true; NBITS] } else { (0..NBITS).map(|_| !rng.chance(1, 5)).collect() };
    let mut bits = bits;
    if rng.chance(1, 2) {
        bits[7] = rng.chance(1, 2);
    }
    case_line(kind, client, &bits, rng)
}

fn sput_cases() -> Vec<String> {
    let mut v = vec![];
    let hdrs = ["chunkp", "chunk", "padp", "pad", "txp", "tx", "regp", "reg", "bad", "junk", "short"];
    for len in [0usize, 1, 2, 3, 10, 199, 200, 201, 400] {
        for h in hdrs {
            for ex in ["none", "chunk", "same", "diff", "pad"] {
                if h == "short" && len > 2 {
                    continue;
                }
                v.push(format!("sput 200 {len} {h} {ex}"));
            }
        }
    }
    v
}

fn c04_cases(rng: &mut Rng, thorough: bool) -> Vec<String> {
    let mut v = vec![];
    let reps = if thorough { 12 } else { 2 };
    for kind in KINDS {
        for client in [true, false] {
            for km in [false, true] {
                for ex in [false, true] {
                    for _ in 0..reps {
                        let mut bits = vec![true; NBITS];
                        bits[6] = km;
                        bits[7] = ex;
                        bits[8] = !rng.chance(1, 6);
                        v.push(case_line(kind, client, &bits, rng));
                    }
                }
            }
        }
    }
    v
}

// ---------------------------------------------------------------- C07 histories

fn mutable_delivery(fam: &str, id: u64, rng: &mut Rng) -> String {
    mutable_delivery_at(fam, id, 0, rng)
}

/// `base`: offset added to scratchpad counters (histories near u64::MAX use base = u64::MAX - 9)
fn mutable_delivery_at(fam: &str, id: u64, base: u64, rng: &mut Rng) -> String {
    let dk = 3 * id + space(fam);
    let rk = if rng.chance(1, 12) { 3 * ((id + 1) % 3) + space(fam) } else { dk };
    let (content, paid_kind, unpaid_kind) = match fam {
        "pad" => {
            let sig = if rng.chance(4, 5) { *rng.pick(&["v", "v", "v", "d"]) } else { *rng.pick(&["w", "n"]) };
            (format!("S{id}.{}.{sig}", base + rng.range(0, 9)), "padp", "pad")
        }
        "tx" => (format!("T{id}.{}.{}", rng.range(1, 6), if rng.chance(4, 5) { "v" } else { "i" }), "txp", "tx"),
        _ => {
            let mut ops: Vec<String> = subset(rng, 1, 6, false).iter().map(|o| format!("{o}v")).collect();
            let base = if rng.chance(1, 10) { "b" } else { "g" };
            if rng.chance(1, 8) {
                ops.push(format!("{}{}", rng.range(7, 8), *rng.pick(&["u", "f"])));
            }
            (format!("R{id}.{base}.{}", if ops.is_empty() { "-".into() } else { ops.join(",") }), "regp", "reg")
        }
    };
    match rng.below(3) {
        0 => {
            // replication
            let content = if fam == "tx" {
                // a vector, possibly with foreign / invalid entries
                let mut es = vec![content[1..].to_string()];
                for _ in 0..rng.below(3) {
                    let owner = if rng.chance(1, 4) { (id + 1) % 3 } else { id };
                    es.push(format!("{owner}.{}.{}", rng.range(1, 6), if rng.chance(3, 4) { "v" } else { "i" }));
                }
                format!("T{}", es.join(","))
            } else {
                content
            };
            format!("r {unpaid_kind} {rk} {content} -")
        }
        1 if fam != "tx" => format!("c {unpaid_kind} {rk} {content} -"),
        _ => {
            let bits: Vec<bool> = if rng.chance(3, 4) { vec![true; 6] } else { (0..6).map(|_| !rng.chance(1, 4)).collect() };
            format!("c {paid_kind} {rk} {content} {}", pay_for(&bits, rng))
        }
    }
}


/// Deterministic C07 corpus: FIRST arrival on a key not yet held, for each mutable kind and each path
/// (paid upload, unpaid update, replication), of the valid content and of each kind of invalid content.
pub fn first_arrival_corpus() -> Vec<String> {
    let pay = format!("{};0.1.2", GOOD.join(","));
    let mut cases: Vec<String> = vec![];
    // registers (id 0, key 2): valid / bad owner signature / unpermitted writer / forged op signature /
    // oversize entry / op addressed to another register
    for c in ["R0.g.1v", "R0.g.-", "R0.b.1v", "R0.b.-", "R0.g.1v,2u", "R0.g.1v,2s", "R0.g.1v,2z", "R0.g.2f", "R0.a.1v,2u", "R0.a.1s", "R0.a.1z"] {
        cases.push(format!("c regp 2 {c} {pay}"));
        cases.push(format!("c reg 2 {c} -"));
        cases.push(format!("r reg 2 {c} -"));
    }
    // scratchpads (owner 0, key 1): valid / signed by somebody else / unsigned / presented under another owner's key
    for (rk, c) in [(1, "S0.3.v"), (1, "S0.3.w"), (1, "S0.3.n"), (4, "S0.3.v"), (4, "S0.3.w")] {
        cases.push(format!("c padp {rk} {c} {pay}"));
        cases.push(format!("c pad {rk} {c} -"));
        cases.push(format!("r pad {rk} {c} -"));
    }
    // transactions (owner 0, key 1): valid / bad signature / foreign owner
    for (rk, c) in [(1, "T0.1.v"), (1, "T0.1.i"), (4, "T0.1.v"), (1, "T1.2.v")] {
        cases.push(format!("c txp {rk} {c} {pay}"));
    }
    for c in ["T0.1.v", "T0.1.i", "T1.2.v", "T1.2.i", "T0.1.i,1.2.v", "T0.1.v,1.2.v,0.3.i", "T-"] {
        cases.push(format!("r tx 1 {c} -"));
    }
    let mut v = vec![];
    for c in cases {
        v.push("new -".to_string());
        v.push(format!("deliver {c}"));
        v.push("dump".to_string());
    }
    v
}


/// Deterministic C07 corpus: a scratchpad and a transaction set of ONE owner share a record key.
/// Scratchpad held, then transactions (paid upload, replication); transactions held, then scratchpad
/// (paid upload, unpaid update, replication); valid and invalid content.
pub fn cross_kind_corpus() -> Vec<String> {
    let pay = format!("{};0.1.2", GOOD.join(","));
    let hists: Vec<(&str, Vec<String>)> = vec![
        ("1=S3", vec!["r tx 1 T0.1.v -".into(), format!("c txp 1 T0.2.v {pay}"), "r tx 1 T0.1.i -".into(), "r tx 1 T0.1.v,0.2.v,1.3.v -".into(), "r pad 1 S0.5.v -".into()]),
        ("-", vec!["r pad 1 S0.3.v -".into(), "r tx 1 T0.1.v,0.2.v -".into(), format!("c txp 1 T0.2.v {pay}"), "r pad 1 S0.5.v -".into(), "r tx 1 T0.4.v -".into()]),
        ("-", vec![format!("c padp 1 S0.2.v {pay}"), format!("c txp 1 T0.1.v {pay}"), "r tx 1 T0.1.v -".into(), "c pad 1 S0.4.v -".into()]),
        ("1=T1.2", vec![format!("c padp 1 S0.3.v {pay}"), "c pad 1 S0.4.v -".into(), "r pad 1 S0.5.v -".into(), "r pad 1 S0.5.w -".into(), "r tx 1 T0.3.v -".into()]),
        ("-", vec!["r tx 1 T0.1.v -".into(), "r pad 1 S0.3.v -".into(), format!("c padp 1 S0.9.v {pay}"), "c pad 1 S0.9.v -".into(), "r tx 1 T0.2.v -".into()]),
        ("-", vec![format!("c txp 1 T0.1.v {pay}"), format!("c padp 1 S0.1.v {pay}"), "r pad 1 S0.0.v -".into()]),
        ("4=S2,1=T1", vec!["r tx 4 T1.1.v -".into(), "r pad 1 S0.3.v -".into(), "r tx 1 T1.2.v,0.2.v -".into(), "r pad 4 S1.3.v -".into()]),
    ];
    let mut v = vec![];
    for (store, ds) in hists {
        v.push(format!("new {store}"));
        for d in ds {
            v.push(format!("deliver {d}"));
            v.push("dump".to_string());
        }
    }
    v
}

/// K-f5 corpus: addresses carry no kind tag.  `Ck<key>` is the chunk whose BYTES are address preimage `key` (`Ck1` the 48
/// public-key bytes of owner 0, `Ck2` meta ‖ pk of register 0): paid upload / replicated copy on a key not held, then
/// the owner's scratchpad / transactions / register on every path; and the reverse (the mutable record held, the chunk
/// uploaded or replicated); a mismatched presentation of such a chunk.
pub fn squat_corpus() -> Vec<String> {
    let pay = format!("{};0.1.2", GOOD.join(","));
    let bad = "0.0.1.e.1.1.5,1.1.1.f.1.1.2,2.2.1.f.1.1.3;0.1.2";
    let hists: Vec<(&str, Vec<String>)> = vec![
        ("-", vec![format!("c chunkp 1 Ck1 {pay}"), format!("c padp 1 S0.3.v {pay}"), "c pad 1 S0.3.v -".into(), "r pad 1 S0.3.v -".into(),
                   format!("c txp 1 T0.1.v {pay}"), format!("c txp 1 T0.1.v {bad}"), "r tx 1 T0.1.v -".into(), format!("c chunkp 1 Ck1 {pay}")]),
        ("-", vec!["r chunk 1 Ck1 -".into(), "r pad 1 S0.3.v -".into(), "r tx 1 T0.1.v,0.2.v -".into()]),
        ("-", vec![format!("c chunkp 2 Ck2 {pay}"), format!("c regp 2 R0.g.1v {pay}"), format!("c regp 2 R0.g.1v {bad}"), "c reg 2 R0.g.1v -".into(), "r reg 2 R0.g.1v -".into()]),
        ("-", vec!["r chunk 5 Ck5 -".into(), "r reg 5 R1.g.1v -".into()]),
        ("1=S3", vec![format!("c chunkp 1 Ck1 {pay}"), format!("c chunkp 1 Ck1 {bad}"), "r chunk 1 Ck1 -".into(), "r pad 1 S0.5.v -".into()]),
        ("1=T1", vec![format!("c chunkp 1 Ck1 {pay}"), "r chunk 1 Ck1 -".into(), "r tx 1 T0.2.v -".into()]),
        ("2=R1", vec![format!("c chunkp 2 Ck2 {pay}"), "r chunk 2 Ck2 -".into(), "r reg 2 R0.g.2v -".into()]),
        ("4=C", vec!["r pad 4 S1.2.v -".into(), "r tx 4 T1.1.v -".into(), "c pad 4 S1.2.v -".into()]),
        ("-", vec!["c chunk 1 Ck1 -".into(), format!("c chunkp 4 Ck1 {pay}"), "r chunk 4 Ck1 -".into(), format!("c chunkp 3 Ck3 {pay}"), "r chunk 3 C1 -".into()]),
    ];
    let mut v = vec![];
    for (store, ds) in hists {
        v.push(format!("new {store}"));
        for d in ds {
            v.push(format!("deliver {d}"));
            v.push("dump".to_string());
        }
    }
    v
}

/// K-f6 corpus: the store drops a held mutable record between non-overlapping validations (capacity prune, range
/// clean-up, removal of a failed write); a lower version / a smaller set arriving afterwards is a first arrival.
pub fn removal_corpus() -> Vec<String> {
    let hists: Vec<Vec<&str>> = vec![
        vec!["new 1=S3", "deliver r pad 1 S0.7.v -", "dump", "evict 1", "deliver r pad 1 S0.5.v -", "dump"],
        vec!["new 1=S7", "evict 1", "deliver c pad 1 S0.9.v -", "dump", "deliver r pad 1 S0.2.v -", "dump"],
        vec!["new 1=T1.2", "evict 1", "deliver r tx 1 T0.3.v -", "dump"],
        vec!["new 2=R1.2", "evict 2", "deliver r reg 2 R0.g.3v -", "dump"],
        vec!["new 1=S3,4=S3", "evict 4", "deliver r pad 1 S0.2.v -", "dump", "deliver r pad 1 S0.5.v -", "dump"],
    ];
    hists.into_iter().flatten().map(|s| s.to_string()).collect()
}

/// Deterministic C04 corpus: replicated transaction vectors with mixed owners (first element foreign /
/// own / invalid) against prior content of the owners involved. Key 1 = owner 0, key 4 = owner 1, key 7 = owner 2.
pub fn mixed_vector_corpus() -> Vec<String> {
    let stores = ["-", "4=T1.2", "1=T3", "1=T3,4=T1.2", "4=T1.2,7=T4", "4=S2", "1=S2,4=T1"];
    let vectors = [
        ("1", "T1.3.v,0.2.v"),
        ("1", "T1.3.i,0.2.v"),
        ("1", "T1.3.v,0.2.i"),
        ("1", "T0.2.v,1.3.v"),
        ("1", "T2.5.v,1.3.v,0.2.v"),
        ("4", "T1.3.v,0.2.v"),
        ("4", "T0.2.v,1.3.v"),
        ("1", "T1.3.v"),
    ];
    let mut v = vec![];
    for st in stores {
        for (rk, c) in vectors {
            v.push(format!("case {st} r tx {rk} {c} -"));
        }
    }
    v
}

/// random replicated mixed-owner vector against random prior content of the three owner keys
fn mixed_vector_case(rng: &mut Rng) -> String {
    let mut store: Vec<(u64, String)> = vec![];
    for id in 0..3u64 {
        match rng.below(4) {
            0 => store.push((3 * id + 1, format!("T{}", join(&subset(rng, 1, 4, true), ".")))),
            1 if rng.chance(1, 3) => store.push((3 * id + 1, format!("S{}", rng.range(0, 5)))),
            _ => {}
        }
    }
    let rk_owner = rng.below(3);
    let n = rng.range(1, 4);
    let mut es = vec![];
    for i in 0..n {
        let owner = if i == 0 && rng.chance(2, 3) { (rk_owner + 1 + rng.below(2)) % 3 } else if rng.chance(2, 3) { rk_owner } else { rng.below(3) };
        es.push(format!("{owner}.{}.{}", rng.range(1, 6), if rng.chance(4, 5) { "v" } else { "i" }));
    }
    format!("case {} r tx {} T{} -", store_str(store), 3 * rk_owner + 1, es.join(","))
}


// ---------------------------------------------------------------- close-set component (real SwarmDriver)

/// `n` routing-table peers (ids from 10 up) that fit the k-buckets (at most K_VALUE per bucket), by distance
fn routing_table(n: usize, offset: u64) -> Vec<u64> {
    let k = libp2p::kad::K_VALUE.get();
    let mut per_bucket = std::collections::HashMap::new();
    let mut v = vec![];
    let mut id = 10 + offset;
    while v.len() < n && id <= 250 {
        let b = crate::closepeers::bucket(0, id);
        let c = per_bucket.entry(b).or_insert(0usize);
        if *c < k {
            *c += 1;
            v.push(id);
        }
        id += 1;
    }
    crate::closepeers::sort_by_distance(&mut v);
    v
}

pub fn close_lines(n: u64, rng: &mut Rng) -> Vec<String> {
    let mut v = vec![];
    let fmt = |r: usize, t: &[u64]| format!("close {r} {}", join(t, "."));
    // corpus: table sizes around K_VALUE, payee ranks around K_VALUE-1
    for size in [1usize, 5, 18, 19, 20, 21, 25, 45] {
        let t = routing_table(size, 0);
        let mut ranks: Vec<usize> = vec![0, 17, 18, 19, 20, 21, size - 1];
        ranks.retain(|r| *r < t.len());
        ranks.sort();
        ranks.dedup();
        for r in ranks {
            v.push(fmt(r, &t));
        }
    }
    while (v.len() as u64) < n {
        let size = rng.range(1, 45) as usize;
        let t = routing_table(size, rng.below(100));
        let r = if t.len() > 17 && rng.chance(2, 3) { rng.range(16, (t.len() - 1).min(23) as u64) as usize } else { rng.below(t.len() as u64) as usize };
        v.push(fmt(r, &t));
    }
    v
}

/// C07: scratchpad counters at and around u64::MAX
pub fn max_counter_corpus() -> Vec<String> {
    let pay = format!("{};0.1.2", GOOD.join(","));
    let m = u64::MAX;
    let hists: Vec<(String, Vec<String>)> = vec![
        (format!("1=S{}", m - 1), vec![
            format!("r pad 1 S0.{m}.v -"), format!("r pad 1 S0.{m}.d -"), format!("c pad 1 S0.{m}.d -"),
            format!("c padp 1 S0.{m}.d {pay}"), format!("r pad 1 S0.{}.v -", m - 1), format!("r pad 1 S0.{m}.v -"),
        ]),
        (format!("1=S{m}"), vec![format!("c pad 1 S0.{m}.d -"), format!("r pad 1 S0.{m}.d -"), "r pad 1 S0.0.v -".to_string()]),
        (format!("1=S{}", m - 2), vec![format!("c pad 1 S0.{}.v -", m - 1), format!("c pad 1 S0.{m}.v -"), format!("c pad 1 S0.{m}.d -")]),
        ("-".to_string(), vec![format!("r pad 1 S0.{m}.v -"), format!("r pad 1 S0.{m}.d -"), format!("c padp 1 S0.{m}.d {pay}")]),
    ];
    let mut v = vec![];
    for (store, ds) in hists {
        v.push(format!("new {store}"));
        for d in ds {
            v.push(format!("deliver {d}"));
            v.push("dump".to_string());
        }
    }
    v
}


// ---------------------------------------------------------------- structure-aware wire tampering (C04 / C07)

/// number of nodes of the value tree of the honest record (kind, content, payment)
fn tree_nodes(kind: &str, rk: u64, content: &str, pay: &str, client: bool) -> usize {
    use crate::world::*;
    let Some(c) = parse_content(content) else { return 0 };
    let Some(p) = parse_pay(pay) else { return 0 };
    let built = p.as_ref().map(|p| build_pay(p, key_xorname(derived_key(&c).unwrap_or(rk)), 1));
    let rec = build_record(kind, rk, &c, built.as_ref(), client);
    if rec.value.len() < 3 {
        return 0;
    }
    // an honest record must survive the generic decode / encode round trip byte for byte
    match crate::wire::decode(&rec.value[2..]) {
        Some(t) if crate::wire::encode(&t) == rec.value[2..] => t.nodes().len(),
        _ => 0,
    }
}

/// For every record kind and path: two honest records r_A (identity 0) and r_B (identity 1); every node of
/// r_A's value tree is replaced in turn by r_B's subtree (variant b) and by arbitrary same-shape values
/// (variants 0 1 2); the result is presented under A's key and under B's key, with nothing held and with
/// both keys holding older honest content.
pub fn tamper_lines(n: u64, rng: &mut Rng) -> Vec<String> {
    let pay = format!("{};0.1.2", GOOD.join(","));
    // (kind, client?, key A, key B, content A, content B, store with both keys held)
    let cfgs: Vec<(&str, bool, u64, u64, &str, &str, &str)> = vec![
        ("pad", false, 1, 4, "S0.5.v", "S1.5.v", "1=S3,4=S3"),
        ("pad", true, 1, 4, "S0.5.v", "S1.5.v", "1=S3,4=S3"),
        ("tx", false, 1, 4, "T0.1.v,0.2.v", "T1.1.v,1.2.v", "1=T4,4=T4"),
        ("reg", false, 2, 5, "R0.g.1v", "R1.g.1v", "2=R2,5=R2"),
        ("reg", true, 2, 5, "R0.g.1v", "R1.g.1v", "2=R2,5=R2"),
        ("chunk", false, 0, 3, "C0", "C1", "-"),
        ("padp", true, 1, 4, "S0.5.v", "S1.5.v", "1=S3,4=S3"),
        ("txp", true, 1, 4, "T0.1.v", "T1.1.v", "1=T4,4=T4"),
        ("regp", true, 2, 5, "R0.g.1v", "R1.g.1v", "2=R2,5=R2"),
        ("chunkp", true, 0, 3, "C0", "C1", "-"),
    ];
    let mut small = vec![];
    let mut big = vec![];
    for (kind, client, ka, kb, ca, cb, held) in cfgs {
        let p = if kind.ends_with('p') { pay.as_str() } else { "-" };
        let nodes = tree_nodes(kind, ka, ca, p, client);
        let path = if client { "c" } else { "r" };
        for node in 0..nodes {
            for variant in ["b", "0", "1", "2"] {
                for rk in [kb, ka] {
                    for store in ["-", held] {
                        if store == "-" && held == "-" && rk == ka && variant != "b" && false {
                            continue;
                        }
                        let l = format!("tamper {store} {path} {kind} {rk} {ca} {p} {cb} {node} {variant}");
                        if kind.ends_with('p') {
                            big.push(l);
                        } else {
                            small.push(l);
                        }
                    }
                }
            }
        }
    }
    small.dedup();
    // the unpaid / replicated kinds completely (their trees are small), the paid ones sampled
    let mut v = small;
    rng.shuffle(&mut big);
    let want = v.len() as u64 + n;
    while (v.len() as u64) < want {
        match big.pop() {
            Some(l) => v.push(l),
            None => break,
        }
    }
    v
}

/// C07 corpus: same-owner transactions that differ in exactly one field (ids 1,2,3 share owner and content and
/// differ in outputs / parents; 4,5,6 likewise with another content), delivered in several orders and groupings
pub fn tx_family_corpus() -> Vec<String> {
    let pay = format!("{};0.1.2", GOOD.join(","));
    let orders: Vec<Vec<&str>> = vec![
        vec!["r tx 1 T0.1.v -", "r tx 1 T0.2.v -", "r tx 1 T0.3.v -", "r tx 1 T0.4.v -"],
        vec!["r tx 1 T0.3.v -", "r tx 1 T0.2.v -", "r tx 1 T0.1.v -"],
        vec!["r tx 1 T0.2.v -", "r tx 1 T0.1.v -", "r tx 1 T0.1.v,0.2.v,0.3.v -"],
        vec!["r tx 1 T0.1.v,0.2.v,0.3.v,0.4.v,0.5.v -", "r tx 1 T0.6.v,0.1.v -"],
        vec!["r tx 1 T0.1.v,0.2.i,0.3.v -", "r tx 1 T0.2.v -"],
    ];
    let mut v = vec![];
    for o in orders {
        v.push("new -".to_string());
        for d in o {
            v.push(format!("deliver {d}"));
            v.push("dump".to_string());
        }
    }
    // paid uploads, one transaction each
    v.push("new -".to_string());
    for t in [2, 1, 3] {
        v.push(format!("deliver c txp 1 T0.{t}.v {pay}"));
        v.push("dump".to_string());
    }
    v.push("new 1=T1.2.3".to_string());
    v.push("deliver r tx 1 T0.2.v -".to_string());
    v.push("dump".to_string());
    v
}

/// C04: well-formed records around MAX_PACKET_SIZE on the paths that do not go through `RecordStore::put`
/// (replication; the client entry point directly).  Exact lengths for the unsigned kinds (chunk, junk = header +
/// filler), same side of the limit for the signed ones.
pub fn big_corpus(thorough: bool) -> Vec<String> {
    let mut v: Vec<String> = [
        "big r chunk -1", "big r chunk 0", "big r chunk 1", "big r pad -1", "big r pad 0", "big c chunkp -1", "big c chunkp 0",
        "big c padp 0", "big r junk -1", "big r junk 0", "big c junkp -1", "big c junkp 0",
    ]
    .iter()
    .map(|s| s.to_string())
    .collect();
    // the record a store function BUILDS (held transactions ∪ delivered one): each part about half the limit
    for l in ["bigm c 0", "bigm r -1"] {
        v.push(l.to_string());
    }
    if thorough {
        for l in ["bigm c 1000000", "bigm r 1000", "bigm c -1", "bigm r 0", "bigm c 4000000"] {
            v.push(l.to_string());
        }
        for l in ["big r chunk 1000000", "big r chunk 5242879", "big r pad 4000000", "big c chunkp 1000", "big c padp -1", "big c pad 0", "big r chunk -4000000", "big c junkp 1", "big r junk 1"] {
            v.push(l.to_string());
        }
    }
    v
}

/// C03 "only as updates of records the node already holds", with the store dropping keys (eviction, clean-up):
/// the audit's interleavings (has-key answered "held", key dropped, local read finds nothing) for every place
/// where a put without valid payment is accepted; the benign order (read first, dropped afterwards); a dropped
/// key before the validation starts; an evicted key re-created by a replicated copy.
pub fn evict_corpus() -> Vec<String> {
    let bad = "0.0.1.e.1.1.5,1.1.1.f.1.1.2,2.2.1.f.1.1.3;0.1.2";
    let good = format!("{};0.1.2", GOOD.join(","));
    let hists: Vec<Vec<String>> = vec![
        vec!["new 1=S3".into(), "begin a c pad 1 S0.5.v -".into(), "ans a".into(), "evict 1".into(), "run a".into(), "ans a".into(), "run a".into()],
        vec!["new 1=S3".into(), "begin a c pad 1 S0.1.v -".into(), "ans a".into(), "evict 1".into(), "run a".into(), "ans a".into(), "run a".into()],
        vec!["new 1=S3".into(), "begin a c pad 1 S0.5.v -".into(), "ans a".into(), "run a".into(), "ans a".into(), "evict 1".into(), "run a".into()],
        vec!["new 1=S3".into(), "evict 1".into(), "begin a c pad 1 S0.5.v -".into(), "ans a".into(), "run a".into()],
        vec!["new 2=R1".into(), "begin a c reg 2 R0.g.2v -".into(), "ans a".into(), "evict 2".into(), "run a".into(), "ans a".into(), "run a".into()],
        vec!["new 2=R1".into(), "begin a c reg 2 R0.g.2v -".into(), "ans a".into(), "run a".into(), "ans a".into(), "evict 2".into(), "run a".into(), "ans a".into(), "run a".into()],
        vec!["new 2=R1".into(), "begin a c reg 2 R0.g.2v -".into(), "ans a".into(), "run a".into(), "ans a".into(), "run a".into(), "ans a".into(), "evict 2".into(), "run a".into()],
        vec!["new 1=T1".into(), format!("begin a c txp 1 T0.2.v {bad}"), "ans a".into(), "evict 1".into(), "run a".into(), "ans a".into(), "run a".into()],
        vec!["new 1=T1".into(), format!("begin a c txp 1 T0.2.v {good}"), "ans a".into(), "evict 1".into(), "run a".into(), "ans a".into(), "run a".into()],
        vec!["new 2=R1".into(), format!("begin a c regp 2 R0.g.2v {bad}"), "ans a".into(), "evict 2".into(), "run a".into(), "ans a".into(), "run a".into()],
        vec!["new 2=R1".into(), format!("begin a c regp 2 R0.g.2v {good}"), "ans a".into(), "evict 2".into(), "run a".into(), "ans a".into(), "run a".into()],
        vec!["new 1=S3".into(), "begin a c pad 1 S0.5.v -".into(), "ans a".into(), "evict 1".into(), "deliver r pad 1 S0.2.v -".into(), "run a".into(), "ans a".into(), "run a".into()],
        vec!["new 1=S3".into(), "begin a r pad 1 S0.5.v -".into(), "evict 1".into(), "ans a".into(), "run a".into()],
        vec!["new 0=C".into(), format!("begin a c chunkp 0 C0 {bad}"), "ans a".into(), "evict 0".into(), "run a".into()],
    ];
    let mut v = vec![];
    for h in hists {
        for l in h {
            v.push(l);
        }
        v.push("dump".to_string());
    }
    v
}

pub struct Gen {
    queue: VecDeque<String>,
    /// ids of validations begun in the current interleaved phase
    conc: Vec<String>,
    remaining_histories: u64,
    rng: Rng,
    mode: String,
}

impl Gen {
    pub fn new(mode: &str, n: u64, rng: Rng) -> Self {
        let mut g = Gen { queue: VecDeque::new(), conc: vec![], remaining_histories: 0, rng, mode: mode.to_string() };
        match mode {
            "c03" => {
                for l in corpus() {
                    g.queue.push_back(l);
                }
                for l in single_cause_corpus() {
                    g.queue.push_back(l);
                }
                let fixed = g.queue.len() as u64;
                if n >= 2000 {
                    for l in enumerate_cases(&mut g.rng) {
                        g.queue.push_back(l);
                    }
                }
                while (g.queue.len() as u64) < n + fixed {
                    let l = sample_case(&mut g.rng);
                    g.queue.push_back(l);
                }
            }
            "tamper" => {
                for l in tamper_lines(n, &mut g.rng) {
                    g.queue.push_back(l);
                }
            }
            "close" => {
                for l in close_lines(n, &mut g.rng) {
                    g.queue.push_back(l);
                }
            }
            "c03evict" => {
                for l in evict_corpus() {
                    g.queue.push_back(l);
                }
                g.remaining_histories = n;
            }
            "c04" => {
                for l in big_corpus(n >= 2000) {
                    g.queue.push_back(l);
                }
                for l in corpus() {
                    g.queue.push_back(l);
                }
                for l in key_mismatch_corpus() {
                    g.queue.push_back(l);
                }
                for l in mixed_vector_corpus() {
                    g.queue.push_back(l);
                }
                for l in squat_corpus() {
                    g.queue.push_back(l);
                }
                for _ in 0..(if n >= 2000 { 600 } else { 60 }) {
                    let l = mixed_vector_case(&mut g.rng);
                    g.queue.push_back(l);
                }
                let thorough = n >= 2000;
                for l in c04_cases(&mut g.rng, thorough) {
                    g.queue.push_back(l);
                }
                let mut sp = sput_cases();
                if !thorough {
                    g.rng.shuffle(&mut sp);
                    sp.truncate(120);
                }
                for l in sp {
                    g.queue.push_back(l);
                }
            }
            _ => {
                // C07: the K-f witness first, then n histories
                for l in kf_witness() {
                    g.queue.push_back(l);
                }
                for l in first_arrival_corpus() {
                    g.queue.push_back(l);
                }
                for l in cross_kind_corpus() {
                    g.queue.push_back(l);
                }
                for l in max_counter_corpus() {
                    g.queue.push_back(l);
                }
                for l in tx_family_corpus() {
                    g.queue.push_back(l);
                }
                for l in squat_corpus() {
                    g.queue.push_back(l);
                }
                for l in removal_corpus() {
                    g.queue.push_back(l);
                }
                g.remaining_histories = n;
            }
        }
        g
    }

    /// one or two validations of a mutable key interleaved at their store reads, with the store dropping that key
    /// (once or twice, anywhere) and occasionally getting it back from a replicated copy
    fn new_evict_history(&mut self) {
        let rng = &mut self.rng;
        let fam = *rng.pick(&["pad", "tx", "reg"]);
        let id = rng.below(3);
        let dk = 3 * id + space(fam);
        let store = if rng.chance(4, 5) {
            let d = match fam {
                "pad" => format!("S{}", rng.range(0, 5)),
                "tx" => format!("T{}", join(&subset(rng, 1, 3, true), ".")),
                _ => format!("R{}", join(&subset(rng, 1, 3, false), ".")),
            };
            format!("{dk}={d}")
        } else {
            "-".to_string()
        };
        self.queue.push_back(format!("new {store}"));
        let k = if rng.chance(1, 3) { 2 } else { 1 };
        for i in 0..k {
            let name = ["a", "b"][i];
            // mostly client uploads without a valid payment (the places where "update only" matters)
            let d = match rng.below(4) {
                0 => mutable_delivery_at(fam, id, 0, rng),
                _ => {
                    let content = match fam {
                        "pad" => format!("S{id}.{}.v", rng.range(0, 9)),
                        "tx" => format!("T{id}.{}.v", rng.range(1, 6)),
                        _ => format!("R{id}.g.{}", subset(rng, 1, 6, true).iter().map(|o| format!("{o}v")).collect::<Vec<_>>().join(",")),
                    };
                    match fam {
                        "tx" => {
                            let bits: Vec<bool> = (0..6).map(|_| !rng.chance(1, 3)).collect();
                            format!("c txp {dk} {content} {}", pay_for(&bits, rng))
                        }
                        _ if rng.chance(1, 3) => {
                            let bits: Vec<bool> = (0..6).map(|_| !rng.chance(1, 3)).collect();
                            format!("c {fam}p {dk} {content} {}", pay_for(&bits, rng))
                        }
                        _ => format!("c {fam} {dk} {content} -"),
                    }
                }
            };
            self.queue.push_back(format!("begin {name} {d}"));
        }
        self.queue.push_back(format!("@ievict {dk} {}", rng.range(1, 2)));
    }

    fn new_history(&mut self) {
        if self.mode == "c03evict" {
            return self.new_evict_history();
        }
        let rng = &mut self.rng;
        let fam = *rng.pick(&["pad", "pad", "tx", "reg"]);
        let id = rng.below(3);
        // one history in four (of the owner-keyed ones) mixes scratchpads and transactions of one owner
        let cross = fam != "reg" && rng.chance(1, 3);
        // one scratchpad history in six lives at the top of the counter range
        let base = if fam == "pad" && rng.chance(1, 6) { u64::MAX - 9 } else { 0 };
        let dk = 3 * id + space(fam);
        let store = if rng.chance(1, 14) {
            // K-f5: the key is held by the chunk whose bytes are this address's preimage
            format!("{dk}=C")
        } else if rng.chance(2, 3) {
            let d = match fam {
                "pad" => format!("S{}", base + rng.range(0, 5) + if base > 0 { 4 } else { 0 }),
                "tx" => format!("T{}", join(&subset(rng, 1, 3, true), ".")),
                _ => format!("R{}", join(&subset(rng, 1, 3, false), ".")),
            };
            format!("{dk}={d}")
        } else {
            "-".to_string()
        };
        self.queue.push_back(format!("new {store}"));
        let phases = rng.range(1, 3);
        for _ in 0..phases {
            if rng.chance(3, 5) {
                for _ in 0..rng.range(1, 4) {
                    if rng.chance(1, 9) {
                        // K-f6: the store drops the key between two validations
                        self.queue.push_back(format!("evict {dk}"));
                    }
                    if rng.chance(1, 10) {
                        // K-f5: the chunk whose bytes are this key's address preimage (paid upload / replicated copy)
                        let d = if rng.chance(1, 2) { format!("r chunk {dk} Ck{dk} -") } else { format!("c chunkp {dk} Ck{dk} {}", good_pay(rng)) };
                        self.queue.push_back(format!("deliver {d}"));
                        self.queue.push_back("dump".into());
                    }
                    let f = if cross { *rng.pick(&["pad", "tx"]) } else { fam };
                    let d = mutable_delivery_at(f, id, base, rng);
                    self.queue.push_back(format!("deliver {d}"));
                    self.queue.push_back("dump".into());
                }
            } else {
                // two (sometimes three) validations of the same key, interleaved at their store reads
                let k = if rng.chance(1, 5) { 3 } else { 2 };
                for i in 0..k {
                    let name = ["a", "b", "c"][i].to_string();
                    let d = mutable_delivery_at(fam, id, base, rng);
                    self.queue.push_back(format!("begin {name} {d}"));
                }
                self.queue.push_back("@interleave".into());
            }
        }
    }

    pub fn next(&mut self, phase: &dyn Fn(&str) -> u8) -> Option<String> {
        loop {
            match self.queue.pop_front() {
                Some(l) if l == "@interleave" => {
                    let live: Vec<String> = ["a", "b", "c"]
                        .iter()
                        .filter_map(|i| match phase(i) {
                            1 => Some(format!("ans {i}")),
                            2 => Some(format!("run {i}")),
                            _ => None,
                        })
                        .collect();
                    if live.is_empty() {
                        self.conc.clear();
                        return Some("dump".into());
                    }
                    let pick = self.rng.pick(&live).clone();
                    self.queue.push_front("@interleave".into());
                    return Some(pick);
                }
                Some(l) if l.starts_with("@ievict ") => {
                    let p: Vec<&str> = l.split_whitespace().collect();
                    let (key, budget) = (p[1].to_string(), p[2].parse::<u64>().unwrap_or(0));
                    let live: Vec<String> = ["a", "b"]
                        .iter()
                        .filter_map(|i| match phase(i) {
                            1 => Some(format!("ans {i}")),
                            2 => Some(format!("run {i}")),
                            _ => None,
                        })
                        .collect();
                    if live.is_empty() {
                        return Some("dump".into());
                    }
                    if budget > 0 && self.rng.chance(1, 3) {
                        self.queue.push_front(format!("@ievict {key} {}", budget - 1));
                        // now and then the key comes back through replication before the validation goes on
                        return Some(format!("evict {key}"));
                    }
                    let pick = self.rng.pick(&live).clone();
                    self.queue.push_front(format!("@ievict {key} {budget}"));
                    return Some(pick);
                }
                Some(l) => return Some(l),
                None => {
                    if (self.mode == "c07" || self.mode == "c03evict") && self.remaining_histories > 0 {
                        self.remaining_histories -= 1;
                        self.new_history();
                    } else {
                        return None;
                    }
                }
            }
        }
    }
}

/// DESIGN §5 K-f: local counter 3; updates 7 and 5 both read 3 before either writes; 5 is written last
pub fn kf_witness() -> Vec<String> {
    vec![
        "new 1=S3".into(),
        "begin a r pad 1 S0.7.v -".into(),
        "begin b r pad 1 S0.5.v -".into(),
        "ans a".into(),
        "ans b".into(),
        "run a".into(),
        "run b".into(),
        "dump".into(),
    ]
}
