//! C03 "all payees are peers the node knows as close": the close set is produced by the REAL
//! `SwarmDriver::get_closest_k_value_local_peers`, served through the real `handle_local_cmd` to a
//! `LocalSwarmCmd::GetClosestKLocalPeers`, on a never-run node driver whose routing table the harness filled.
//! `close <r> <ids>`: `<ids>` = routing-table peers (ids joined by '.') in order of increasing XOR distance of
//! their kad keys (sha256 of the peer id bytes) to this node — computed here with sha2 directly and checked;
//! a new chunk is then uploaded with a proof paying this node (twice) and the peer at distance rank `r`,
//! and validated by the real `validate_and_store_record` against the close list the driver served.
//! Output: `set=<served list as ids> <result> | <trace>`.
use crate::world::*;
use crate::Ctx;
use ant_networking::verif::{event as hook, LocalSwarmCmd};
use ant_networking::NetworkBuilder;
use common::Out;
use sha2::{Digest, Sha256};
use tokio::sync::oneshot;

pub fn kad_key(id: u64) -> [u8; 32] {
    let mut h = Sha256::new();
    h.update(peer_id(id).to_bytes());
    h.finalize().into()
}
pub fn distance(a: u64, b: u64) -> [u8; 32] {
    let (x, y) = (kad_key(a), kad_key(b));
    let mut d = [0u8; 32];
    for i in 0..32 {
        d[i] = x[i] ^ y[i];
    }
    d
}
/// index of the k-bucket a peer falls into (255 = farthest half)
pub fn bucket(a: u64, b: u64) -> u32 {
    let d = distance(a, b);
    for (i, byte) in d.iter().enumerate() {
        if *byte != 0 {
            return 255 - (i as u32 * 8 + byte.leading_zeros());
        }
    }
    0
}
pub fn sort_by_distance(ids: &mut [u64]) {
    ids.sort_by_key(|p| distance(0, *p));
}

fn dummy_addr(i: u64) -> libp2p::Multiaddr {
    format!("/ip4/10.0.{}.{}/udp/{}/quic-v1", (i >> 8) & 0xff, i & 0xff, 12000 + (i % 1000)).parse().expect("multiaddr")
}

/// the real driver's answer to `GetClosestKLocalPeers` with `peers` in its routing table
pub fn served_close_set(peers: &[u64]) -> Result<Vec<libp2p::PeerId>, String> {
    let rt = tokio::runtime::Builder::new_current_thread().enable_all().build().expect("rt");
    let dir = tempfile::tempdir().expect("tmp");
    let r = std::panic::catch_unwind(std::panic::AssertUnwindSafe(|| {
        let _g = rt.enter();
        let mut b = NetworkBuilder::new(peer_keypair(0), true);
        b.listen_addr("127.0.0.1:0".parse().expect("addr"));
        let (_network, _events, mut driver) = b.build_node(dir.path().to_path_buf()).map_err(|e| format!("build_node: {e:?}"))?;
        if hook::self_peer_id(&driver) != peer_id(0) {
            return Err("self id".to_string());
        }
        for p in peers {
            if !hook::add_address(&mut driver, &peer_id(*p), dummy_addr(*p)) {
                return Err(format!("rt-insert-failed {p}"));
            }
        }
        let (tx, mut rx) = oneshot::channel();
        hook::handle_local_cmd(&mut driver, LocalSwarmCmd::GetClosestKLocalPeers { sender: tx }).map_err(|e| format!("handle_local_cmd: {e:?}"))?;
        let ans = rx.try_recv().map_err(|_| "no answer".to_string());
        drop(driver);
        ans
    }));
    rt.shutdown_background();
    r.unwrap_or_else(|_| Err("panic".into()))
}

pub fn exec(ctx: &mut Ctx, r: &str, list: &str, line: &str, out: &mut Out) -> String {
    let Ok(r) = r.parse::<usize>() else { return "bad-op".into() };
    let peers: Vec<u64> = if list == "-" {
        vec![]
    } else {
        match list.split('.').map(|x| x.parse::<u64>().ok()).collect::<Option<Vec<u64>>>() {
            Some(v) => v,
            None => return "bad-op".into(),
        }
    };
    // the line's order must be the independently computed distance order; ids of routing-table peers are 10..250
    let mut sorted = peers.clone();
    sort_by_distance(&mut sorted);
    let mut dedup = peers.clone();
    dedup.sort();
    dedup.dedup();
    if sorted != peers || dedup.len() != peers.len() || peers.iter().any(|p| *p < 10 || *p > 250) || r >= peers.len() {
        return "bad-op".into();
    }
    let served = match served_close_set(&peers) {
        Ok(s) => s,
        Err(e) => return e,
    };
    let ids: Vec<String> = served
        .iter()
        .map(|p| if *p == peer_id(0) { "0".to_string() } else { peers.iter().find(|i| peer_id(**i) == *p).map(|i| i.to_string()).unwrap_or_else(|| "?".into()) })
        .collect();
    let k = libp2p::kad::K_VALUE.get();
    // oracle on the served set itself: this node first, then the K-1 nearest known peers, nothing else
    let expect: Vec<String> = std::iter::once("0".to_string()).chain(peers.iter().take(k - 1).map(|p| p.to_string())).collect();
    if ids != expect {
        out.oracle_fail("C03:close-set-is-k-closest", line, &format!("driver served {} entries {:?}; this node + the {} nearest known peers are {:?}", ids.len(), ids, k - 1, expect));
    }
    out.count(&format!("close:n={}:rank{}", peers.len(), if r + 1 < k { "<K-1" } else { ">=K-1" }));
    let payee = peers[r];
    let close = if ids.is_empty() { "-".to_string() } else { ids.join(".") };
    let case = format!("case - c chunkp 0 C0 0.0.1.f.1.1.5,{payee}.{payee}.1.f.1.1.2,0.0.1.f.1.1.3;{close}");
    let res = crate::exec_line(ctx, &case, out);
    ctx.history = vec![line.to_string()];
    // C03, stated without reference to the served list: accepted only if every payee is this node or among
    // the K_VALUE-1 nearest known peers (rank computed here with sha2/XOR)
    let accepted = res.starts_with("ok") || res.contains(" W0=");
    if accepted && r + 1 >= k {
        out.oracle_fail("C03:payees-among-k-closest", line, &format!("new chunk stored although payee {payee} has distance rank {r} among {} known peers (only ranks < {} are within the K={k} closest including this node)", peers.len(), k - 1));
    }
    format!("set={close} {res}")
}
