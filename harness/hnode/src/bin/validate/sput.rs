//! C04 extra: direct calls of the real libp2p-facing `RecordStore::put` on a `NodeRecordStore`.
//! `sput <max_value_bytes> <len> <hdr> <existing>`
//!   hdr: a kind name (canonical header) | bad (unknown tag 9) | short (value shorter than a header) | junk
//!   existing: none | chunk | same | diff | pad  — what the store already holds (and lists) at the key
//! Output: `<ok|tooLarge|err> ev=<0|1> obs=<same|changed>`
use crate::world::*;
use ant_networking::verif::record_store as rs;
use ant_networking::verif::LocalSwarmCmd;
use ant_networking::NetworkEvent;
use ant_protocol::storage::{RecordHeader, RecordType};
use libp2p::kad::store::RecordStore;
use libp2p::kad::Record;
use tokio::sync::mpsc;
use xor_name::XorName;

pub fn exec(ws: &[&str]) -> String {
    if ws.len() != 4 {
        return "bad-op".into();
    }
    let (Ok(maxb), Ok(len)) = (ws[0].parse::<usize>(), ws[1].parse::<usize>()) else { return "bad-op".into() };
    let hdr = ws[2];
    let existing = ws[3];
    let mut value: Vec<u8> = match hdr {
        "bad" => vec![0x91, 0x09],
        "junk" => vec![0xff, 0xff],
        "short" => vec![],
        k => match kind_of(k) {
            Some(kind) => RecordHeader { kind }.try_serialize().expect("hdr").to_vec(),
            None => return "bad-op".into(),
        },
    };
    while value.len() < len {
        value.push(0x2a);
    }
    value.truncate(len);
    let key = record_key(0);
    let record = Record { key: key.clone(), value: value.clone(), publisher: None, expires: None };

    let rt = tokio::runtime::Builder::new_current_thread().enable_all().build().expect("rt");
    let dir = tempfile::tempdir().expect("tmp");
    let r = std::panic::catch_unwind(std::panic::AssertUnwindSafe(|| {
        rt.block_on(async {
            let (ev_tx, mut ev_rx) = mpsc::channel::<NetworkEvent>(100);
            let (cmd_tx, mut cmd_rx) = mpsc::channel::<LocalSwarmCmd>(100);
            let cfg = rs::NodeRecordStoreConfig {
                storage_dir: dir.path().join("records"),
                historic_quote_dir: dir.path().to_path_buf(),
                max_records: 100,
                max_value_bytes: maxb,
                records_cache_size: 10,
                encryption_seed: [3u8; 16],
            };
            std::fs::create_dir_all(&cfg.storage_dir).expect("mkdir");
            let mut store = rs::with_config(peer_id(0), cfg, ev_tx, cmd_tx);
            // seed what is already held
            let held = match existing {
                "none" => None,
                "chunk" => Some((b"held-chunk".to_vec(), RecordType::Chunk)),
                "same" => Some((b"held-same".to_vec(), RecordType::NonChunk(XorName(sha3(&value))))),
                "diff" => Some((b"held-diff".to_vec(), RecordType::NonChunk(XorName(sha3(b"something else"))))),
                "pad" => Some((b"held-pad".to_vec(), RecordType::Scratchpad)),
                _ => return "bad-op".to_string(),
            };
            if let Some((v, ty)) = &held {
                let rec = Record { key: key.clone(), value: v.clone(), publisher: None, expires: None };
                if rs::put_verified(&mut store, rec, ty.clone()).is_err() {
                    return "setup-failed".to_string();
                }
                // let the write task run, then acknowledge it as the swarm driver would
                for _ in 0..200 {
                    tokio::task::yield_now().await;
                    if let Ok(cmd) = cmd_rx.try_recv() {
                        if let LocalSwarmCmd::AddLocalRecordAsStored { key, record_type } = cmd {
                            rs::mark_as_stored(&mut store, key, record_type);
                            break;
                        }
                    }
                    tokio::time::sleep(std::time::Duration::from_millis(1)).await;
                }
            }
            let before = (rs::get(&store, &key).map(|r| r.value), rs::contains(&store, &key), rs::record_addresses(&store).len());
            let res = match store.put(record.clone()) {
                Ok(()) => "ok",
                Err(libp2p::kad::store::Error::ValueTooLarge) => "tooLarge",
                Err(_) => "err",
            };
            for _ in 0..6 {
                tokio::task::yield_now().await;
            }
            let mut ev = 0;
            let mut ev_bad = false;
            while let Ok(e) = ev_rx.try_recv() {
                match e {
                    NetworkEvent::UnverifiedRecord(r) => {
                        ev += 1;
                        if r != record {
                            ev_bad = true;
                        }
                    }
                    _ => ev_bad = true,
                }
            }
            let after = (rs::get(&store, &key).map(|r| r.value), rs::contains(&store, &key), rs::record_addresses(&store).len());
            format!(
                "{res} ev={}{} obs={}",
                ev,
                if ev_bad { "!" } else { "" },
                if before == after { "same" } else { "changed" }
            )
        })
    }));
    r.unwrap_or_else(|_| "panic".into())
}
